import AdfObdd.ClosureSound
/-! # The nogood store as the repaired `lib/src/nogoods.rs` implements it

* `NgStore` = the `n + 1` size-indexed buckets + the duplicate-elimination mode;
  `NgStore.addNg` for the three modes `None` / `Equiv` / `Subsume`, `setMode` (= `set_dup_elem`),
  `run` over histories of adds and mode switches;
* `conclusionsR` — `NoGoodStore::conclusions` line by line: the enumerate/filter bucket
  selection, `try_from_pair_iter` (a bucket whose conclusions contradict each other is
  dropped), the contradiction test of the fold, `disjunction` ("true wins"), the final
  `is_violating` scan; `closureR` — `conclusion_closure`;
* `conclusionsR_eq` / `closureR_eq`: on vectors of the store's width these are the functions
  `conclusions` / `conclusionClosure` of `NoGood.lean` / `ClosureFacts.lean` the laws are proved for;
* semantics of adding (`add_excluded`, `run_spec`), and the closure laws on the REAL buckets of
  any store satisfying the invariant `NgInv` (the `bucketsOf` versions of `ClosureFacts.lean` /
  `ClosureSound.lean` re-bucket a flat list): direct conflicts (`conclusions_direct_inv`,
  `closure_direct_inv`), soundness (`closure_sound_gen`), the unit-flip law (`closure_flip_inv`),
  termination of the closure loop (`closureLoop_fuel`, `closureLoop_ends`);
* `NgOrig.*` — the same functions as the pinned, unrepaired code has them (defects D8a, D8b, D10). -/

inductive DupMode where
  | none | equiv | subsume
deriving DecidableEq, Repr, Inhabited

structure NgStore where
  buckets : List (List PA)
  mode : DupMode
deriving Repr, Inhabited

/-! ### bitmap operations that `NoGood.lean` abstracts away -/

/-- `NoGood::try_from_pair_iter`, the loop: `acc` = the pairs seen so far. A pair on a position
seen before with the other value aborts (`!is_new && upd`). -/
def tryFromPairsAux : PA → List (Nat × Bool) → Option PA
  | acc, [] => some acc
  | acc, (i, v) :: ps =>
    match pget acc i with
    | some w => if w != v then none else tryFromPairsAux acc ps
    | none => tryFromPairsAux (setAt acc i v) ps

/-- `NoGood::try_from_pair_iter`: `None` for no pair at all (`visit.then_some`) and for
contradicting pairs -/
def tryFromPairs (ps : List (Nat × Bool)) : Option PA :=
  if ps.isEmpty then none else tryFromPairsAux [] ps

/-- `NoGood::disjunction`: `active` and `value` are or-ed, so on a position active in both a
`true` wins -/
def disjPA (a b : PA) : PA :=
  (List.range (max a.length b.length)).map (fun i =>
    match pget a i, pget b i with
    | some x, some y => some (x || y)
    | some x, none => some x
    | none, some y => some y
    | none, none => none)

/-- one step of the `try_fold` in `conclusions` (after the `filter_map` that drops a bucket
without usable conclusions) -/
def bucketStepR (interp : PA) (acc : Option PA) (bucket : List PA) : Option PA :=
  match acc with
  | none => none
  | some acc =>
    match tryFromPairs (bucket.filterMap (fun g => conclude g interp)) with
    | none => some acc
    | some ng => if mismatch ng acc then none else some (disjPA acc ng)

/-- `.iter().enumerate().filter(|(len, _)| *len <= nogood.len() + 1)` -/
def relevantR (store : List (List PA)) (interp : PA) : List (List PA) :=
  (store.zipIdx.filter (fun p => p.2 ≤ size interp + 1)).map Prod.fst

/-- `NoGoodStore::conclusions` -/
def conclusionsR (store : List (List PA)) (interp : PA) : Option PA :=
  match (relevantR store interp).foldl (bucketStepR interp) (some interp) with
  | none => none
  | some result =>
    if (relevantR store interp).any (fun b => b.any (fun e => violating e result || violating e interp))
    then none else some result

/-- the `while update` loop of `conclusion_closure`; the fuel is never exhausted
(`closureLoop_fuel`) -/
def closureLoopR (buckets : List (List PA)) : Nat → PA → Closure
  | 0, r => Closure.update r
  | fuel+1, r =>
    match conclusionsR buckets r with
    | none => Closure.inconsistent
    | some val =>
      let u := updateVec val r
      if u.2 then closureLoopR buckets fuel u.1 else Closure.update u.1

/-- `NoGoodStore::conclusion_closure` -/
def closureR (buckets : List (List PA)) (interp : PA) : Closure :=
  match conclusionsR buckets interp with
  | none => Closure.inconsistent
  | some val =>
    let u := updateVec val interp
    if !u.2 then Closure.noUpdate else closureLoopR buckets (interp.length + 1) u.1

namespace NgStore

/-- `NoGoodStore::new`: `size + 1` empty buckets, mode `Equiv` -/
def new (n : Nat) : NgStore := ⟨List.replicate (n + 1) [], .equiv⟩

/-- `set_dup_elem` -/
def setMode (st : NgStore) (m : DupMode) : NgStore := { st with mode := m }

/-- what `add_ng` does to bucket `i` (contents `b`) when the new nogood `g` is stored -/
def addFn (m : DupMode) (g : PA) (i : Nat) (b : List PA) : List PA :=
  match m with
  | .none => if i == size g then b ++ [g] else b
  | .equiv => if i == size g then (if b.contains g then b else b ++ [g]) else b
  | .subsume =>
    -- `self.store[idx..]…retain(|ng| !nogood.is_violating(ng))`, then `self.store[idx].push(nogood)`
    let b' := if size g ≤ i then b.filter (fun h => !violating g h) else b
    if i == size g then b' ++ [g] else b'

/-- `self.store[..=idx].iter().any(|ng_vec| ng_vec.iter().any(|ng| ng.is_violating(&nogood)))` -/
def subsumed (bs : List (List PA)) (g : PA) : Bool :=
  (bs.take (size g + 1)).any (fun b => b.any (fun h => violating h g))

/-- `NoGoodStore::add_ng` (repaired: D8b, D10). Precondition of the code: `size g` is a valid
bucket index (it panics otherwise). -/
def addNg (st : NgStore) (g : PA) : NgStore :=
  if st.mode == .subsume && subsumed st.buckets g then st
  else { st with buckets := st.buckets.mapIdx (addFn st.mode g) }

def conclusions (st : NgStore) (interp : PA) : Option PA := conclusionsR st.buckets interp
def closure (st : NgStore) (interp : PA) : Closure := closureR st.buckets interp

inductive Cmd where
  | add (g : PA)
  | mode (m : DupMode)

def step (st : NgStore) : Cmd → NgStore
  | .add g => st.addNg g
  | .mode m => st.setMode m

/-- a history: adds and mode switches in any order -/
def run (st : NgStore) (cs : List Cmd) : NgStore := cs.foldl step st

def added : List Cmd → List PA
  | [] => []
  | .add g :: cs => g :: added cs
  | .mode _ :: cs => added cs

end NgStore

/-! ### what a store excludes -/

def Stored (bs : List (List PA)) (h : PA) : Prop := ∃ (k : Nat) (b : List PA), bs[k]? = some b ∧ h ∈ b

/-- the total assignments excluded by the stored nogoods -/
def Excluded (bs : List (List PA)) (σ : Asg) : Prop := ∃ h, Stored bs h ∧ Matches h σ

/-- the total assignments excluded by a flat list of nogoods -/
def ExcludedBy (gs : List PA) (σ : Asg) : Prop := ∃ g ∈ gs, Matches g σ

/-- the shape the store keeps: `n + 1` buckets, every stored nogood is a vector of width `n`
sitting in the bucket of its size -/
structure NgInv (n : Nat) (bs : List (List PA)) : Prop where
  len : bs.length = n + 1
  shape : ∀ (k : Nat) (b : List PA), bs[k]? = some b → ∀ h ∈ b, h.length = n ∧ size h = k

theorem stored_iff_mem {bs : List (List PA)} {h : PA} : Stored bs h ↔ ∃ b ∈ bs, h ∈ b := by
  constructor
  · rintro ⟨k, b, hk, hb⟩
    exact ⟨b, List.mem_of_getElem? hk, hb⟩
  · rintro ⟨b, hb, hh⟩
    obtain ⟨k, hk⟩ := List.getElem?_of_mem hb
    exact ⟨k, b, hk, hh⟩

theorem avoidsAll_iff {bs : List (List PA)} {σ : Asg} : AvoidsAll bs σ ↔ ¬ Excluded bs σ := by
  constructor
  · rintro h ⟨g, hs, hm⟩
    obtain ⟨b, hb, hg⟩ := stored_iff_mem.mp hs
    exact h b hb g hg hm
  · intro h b hb g hg hm
    exact h ⟨g, stored_iff_mem.mpr ⟨b, hb, hg⟩, hm⟩

theorem avoidsL_iff {gs : List PA} {σ : Asg} : AvoidsL gs σ ↔ ¬ ExcludedBy gs σ := by
  constructor
  · rintro h ⟨g, hg, hm⟩; exact h g hg hm
  · intro h g hg hm; exact h ⟨g, hg, hm⟩

theorem matches_of_psub {g h : PA} {σ : Asg} (hs : PSub g h) (hm : Matches h σ) : Matches g σ :=
  fun i b hi => hm i b (hs i b hi)

theorem size_le_of_length {g : PA} {n : Nat} (h : g.length = n) : size g ≤ n := by
  rw [← h]; exact size_le_length g

theorem option_ext_some {a b : Option Bool} (h : ∀ v, a = some v ↔ b = some v) : a = b := by
  cases a with
  | none =>
    cases b with
    | none => rfl
    | some y => exact absurd ((h y).mpr rfl) (by simp)
  | some x => exact ((h x).mp rfl).symm

/-! ### `add_ng`: what is stored afterwards -/

theorem getElem?_mapIdx_some {bs : List (List PA)} {f : Nat → List PA → List PA} {k : Nat} {b' : List PA} :
    (bs.mapIdx f)[k]? = some b' ↔ ∃ b, bs[k]? = some b ∧ b' = f k b := by
  rw [List.getElem?_mapIdx]
  cases bs[k]? with
  | none => simp
  | some b => simp [eq_comm]

namespace NgStore

/-- the three properties of the per-bucket function all modes share -/
theorem addFn_sub (m : DupMode) (g : PA) (i : Nat) (b : List PA) (h : PA) (hh : h ∈ addFn m g i b) :
    h ∈ b ∨ (h = g ∧ i = size g) := by
  unfold addFn at hh
  cases m with
  | none =>
    simp only at hh
    by_cases c : (i == size g) = true
    · rw [if_pos c] at hh
      rcases List.mem_append.mp hh with h1 | h1
      · exact Or.inl h1
      · exact Or.inr ⟨by simpa using h1, by simpa using c⟩
    · rw [if_neg c] at hh; exact Or.inl hh
  | equiv =>
    simp only at hh
    by_cases c : (i == size g) = true
    · rw [if_pos c] at hh
      by_cases c2 : b.contains g = true
      · rw [if_pos c2] at hh; exact Or.inl hh
      · rw [if_neg c2] at hh
        rcases List.mem_append.mp hh with h1 | h1
        · exact Or.inl h1
        · exact Or.inr ⟨by simpa using h1, by simpa using c⟩
    · rw [if_neg c] at hh; exact Or.inl hh
  | subsume =>
    simp only at hh
    have hsub : ∀ x, x ∈ (if size g ≤ i then b.filter (fun h => !violating g h) else b) → x ∈ b := by
      intro x hx
      by_cases c1 : size g ≤ i
      · rw [if_pos c1] at hx; exact (List.mem_filter.mp hx).1
      · rw [if_neg c1] at hx; exact hx
    by_cases c : (i == size g) = true
    · rw [if_pos c] at hh
      rcases List.mem_append.mp hh with h1 | h1
      · exact Or.inl (hsub _ h1)
      · exact Or.inr ⟨by simpa using h1, by simpa using c⟩
    · rw [if_neg c] at hh; exact Or.inl (hsub _ hh)

theorem addFn_keep (m : DupMode) (g : PA) (i : Nat) (b : List PA) (h : PA) (hh : h ∈ b) :
    h ∈ addFn m g i b ∨ PSub g h := by
  unfold addFn
  cases m with
  | none =>
    simp only
    by_cases c : (i == size g) = true
    · rw [if_pos c]; exact Or.inl (List.mem_append_left _ hh)
    · rw [if_neg c]; exact Or.inl hh
  | equiv =>
    simp only
    by_cases c : (i == size g) = true
    · rw [if_pos c]
      by_cases c2 : b.contains g = true
      · rw [if_pos c2]; exact Or.inl hh
      · rw [if_neg c2]; exact Or.inl (List.mem_append_left _ hh)
    · rw [if_neg c]; exact Or.inl hh
  | subsume =>
    simp only
    cases hv : violating g h with
    | true => exact Or.inr ((violating_iff g h).mp hv)
    | false =>
      left
      have hin : h ∈ (if size g ≤ i then b.filter (fun h => !violating g h) else b) := by
        by_cases c1 : size g ≤ i
        · rw [if_pos c1]; exact List.mem_filter.mpr ⟨hh, by simp [hv]⟩
        · rw [if_neg c1]; exact hh
      by_cases c : (i == size g) = true
      · rw [if_pos c]; exact List.mem_append_left _ hin
      · rw [if_neg c]; exact hin

theorem addFn_new (m : DupMode) (g : PA) (b : List PA) : g ∈ addFn m g (size g) b := by
  unfold addFn
  cases m with
  | none => simp
  | equiv =>
    simp only [beq_self_eq_true, if_true]
    by_cases c2 : b.contains g = true
    · rw [if_pos c2]; exact List.contains_iff_mem.mp c2
    · rw [if_neg c2]; simp
  | subsume => simp

/-- `add_ng`, all modes: nothing but `g` appears -/
theorem addNg_sub (st : NgStore) (g h : PA) (hs : Stored (st.addNg g).buckets h) :
    Stored st.buckets h ∨ h = g := by
  unfold addNg at hs
  by_cases c : (st.mode == .subsume && subsumed st.buckets g) = true
  · rw [if_pos c] at hs; exact Or.inl hs
  · rw [if_neg c] at hs
    obtain ⟨k, b', hk, hb'⟩ := hs
    obtain ⟨b, hb, rfl⟩ := getElem?_mapIdx_some.mp hk
    rcases addFn_sub _ _ _ _ _ hb' with h1 | ⟨h1, _⟩
    · exact Or.inl ⟨k, b, hb, h1⟩
    · exact Or.inr h1

/-- `add_ng`, all modes: a stored nogood disappears only if the new one is contained in it -/
theorem addNg_keep (st : NgStore) (g h : PA) (hs : Stored st.buckets h) :
    Stored (st.addNg g).buckets h ∨ PSub g h := by
  unfold addNg
  by_cases c : (st.mode == .subsume && subsumed st.buckets g) = true
  · rw [if_pos c]; exact Or.inl hs
  · rw [if_neg c]
    obtain ⟨k, b, hk, hb⟩ := hs
    rcases addFn_keep st.mode g k b h hb with h1 | h1
    · exact Or.inl ⟨k, _, getElem?_mapIdx_some.mpr ⟨b, hk, rfl⟩, h1⟩
    · exact Or.inr h1

/-- `add_ng`, all modes: afterwards the new nogood is stored, or a stored one is contained in it -/
theorem addNg_new (st : NgStore) (g : PA) (hsz : size g < st.buckets.length) :
    Stored (st.addNg g).buckets g ∨ ∃ h, Stored (st.addNg g).buckets h ∧ PSub h g := by
  unfold addNg
  by_cases c : (st.mode == .subsume && subsumed st.buckets g) = true
  · rw [if_pos c]
    right
    rw [Bool.and_eq_true] at c
    have c2 := c.2
    unfold subsumed at c2
    rw [List.any_eq_true] at c2
    obtain ⟨b, hb, hany⟩ := c2
    rw [List.any_eq_true] at hany
    obtain ⟨h, hh, hv⟩ := hany
    exact ⟨h, stored_iff_mem.mpr ⟨b, List.mem_of_mem_take hb, hh⟩, (violating_iff h g).mp hv⟩
  · rw [if_neg c]
    left
    obtain ⟨b, hb⟩ : ∃ b, st.buckets[size g]? = some b := ⟨_, List.getElem?_eq_getElem hsz⟩
    exact ⟨size g, _, getElem?_mapIdx_some.mpr ⟨b, hb, rfl⟩, addFn_new _ _ _⟩

/-- **semantics of `add_ng`**, all three modes: exactly the assignments matched by the new
nogood become excluded in addition (the empty nogood: all of them) -/
theorem add_excluded (st : NgStore) (g : PA) (hsz : size g < st.buckets.length) (σ : Asg) :
    Excluded (st.addNg g).buckets σ ↔ Excluded st.buckets σ ∨ Matches g σ := by
  constructor
  · rintro ⟨h, hs, hm⟩
    rcases addNg_sub st g h hs with h1 | rfl
    · exact Or.inl ⟨h, h1, hm⟩
    · exact Or.inr hm
  · rintro (⟨h, hs, hm⟩ | hm)
    · rcases addNg_keep st g h hs with h1 | h1
      · exact ⟨h, h1, hm⟩
      · have hmg := matches_of_psub h1 hm
        rcases addNg_new st g hsz with h2 | ⟨h', h2, h3⟩
        · exact ⟨g, h2, hmg⟩
        · exact ⟨h', h2, matches_of_psub h3 hmg⟩
    · rcases addNg_new st g hsz with h2 | ⟨h', h2, h3⟩
      · exact ⟨g, h2, hm⟩
      · exact ⟨h', h2, matches_of_psub h3 hm⟩

theorem addNg_inv {n : Nat} (st : NgStore) (g : PA) (hi : NgInv n st.buckets) (hg : g.length = n) :
    NgInv n (st.addNg g).buckets := by
  unfold addNg
  by_cases c : (st.mode == .subsume && subsumed st.buckets g) = true
  · rw [if_pos c]; exact hi
  · rw [if_neg c]
    constructor
    · simp only [List.length_mapIdx]; exact hi.len
    · intro k b' hk h hh
      obtain ⟨b, hb, rfl⟩ := getElem?_mapIdx_some.mp hk
      rcases addFn_sub _ _ _ _ _ hh with h1 | ⟨rfl, h2⟩
      · exact hi.shape k b hb h h1
      · exact ⟨hg, h2.symm⟩

theorem new_inv (n : Nat) : NgInv n (new n).buckets := by
  constructor
  · simp [new]
  · intro k b hk h hh
    simp only [new, List.getElem?_replicate] at hk
    split at hk
    · cases hk; cases hh
    · cases hk

theorem new_not_stored (n : Nat) (h : PA) : ¬ Stored (new n).buckets h := by
  rintro ⟨k, b, hk, hh⟩
  simp only [new, List.getElem?_replicate] at hk
  split at hk
  · cases hk; cases hh
  · cases hk

/-- what a history establishes, relative to the list `gs` of nogoods added so far -/
structure Reach (n : Nat) (st : NgStore) (gs : List PA) : Prop where
  inv : NgInv n st.buckets
  /-- nothing forgotten, nothing invented -/
  excl : ∀ σ, Excluded st.buckets σ ↔ ExcludedBy gs σ
  /-- every added nogood is represented by a stored one contained in it -/
  cover : ∀ g ∈ gs, ∃ h, Stored st.buckets h ∧ PSub h g
  /-- only added nogoods are stored -/
  sub : ∀ h, Stored st.buckets h → h ∈ gs

theorem reach_new (n : Nat) : Reach n (new n) [] := by
  refine ⟨new_inv n, ?_, ?_, ?_⟩
  · intro σ
    constructor
    · rintro ⟨h, hs, _⟩; exact absurd hs (new_not_stored n h)
    · rintro ⟨g, hg, _⟩; cases hg
  · intro g hg; cases hg
  · intro h hs; exact absurd hs (new_not_stored n h)

theorem reach_mode {n : Nat} {st : NgStore} {gs : List PA} (h : Reach n st gs) (m : DupMode) :
    Reach n (st.setMode m) gs := ⟨h.inv, h.excl, h.cover, h.sub⟩

theorem reach_add {n : Nat} {st : NgStore} {gs : List PA} (h : Reach n st gs) (g : PA) (hg : g.length = n) :
    Reach n (st.addNg g) (g :: gs) := by
  have hsz : size g < st.buckets.length := by
    have := size_le_of_length hg
    rw [h.inv.len]; omega
  refine ⟨addNg_inv st g h.inv hg, ?_, ?_, ?_⟩
  · intro σ
    rw [add_excluded st g hsz σ, h.excl σ]
    constructor
    · rintro (⟨g', hg', hm⟩ | hm)
      · exact ⟨g', List.mem_cons_of_mem _ hg', hm⟩
      · exact ⟨g, List.mem_cons_self .., hm⟩
    · rintro ⟨g', hg', hm⟩
      rcases List.mem_cons.mp hg' with rfl | hg'
      · exact Or.inr hm
      · exact Or.inl ⟨g', hg', hm⟩
  · intro g' hg'
    rcases List.mem_cons.mp hg' with rfl | hg'
    · rcases addNg_new st g' hsz with h2 | ⟨h', h2, h3⟩
      · exact ⟨g', h2, PSub.refl _⟩
      · exact ⟨h', h2, h3⟩
    · obtain ⟨h0, hs0, hp0⟩ := h.cover g' hg'
      rcases addNg_keep st g h0 hs0 with h1 | h1
      · exact ⟨h0, h1, hp0⟩
      · rcases addNg_new st g hsz with h2 | ⟨h', h2, h3⟩
        · exact ⟨g, h2, h1.trans hp0⟩
        · exact ⟨h', h2, h3.trans (h1.trans hp0)⟩
  · intro h' hs'
    rcases addNg_sub st g h' hs' with h1 | rfl
    · exact List.mem_cons_of_mem _ (h.sub h' h1)
    · exact List.mem_cons_self ..

theorem reach_run {n : Nat} : ∀ (cs : List Cmd) (st : NgStore) (gs : List PA), Reach n st gs →
    (∀ g ∈ added cs, g.length = n) →
    ∃ gs', Reach n (run st cs) gs' ∧ ∀ g, g ∈ gs' ↔ g ∈ gs ∨ g ∈ added cs := by
  intro cs
  induction cs with
  | nil => intro st gs h _; exact ⟨gs, h, fun g => by simp [added]⟩
  | cons c cs ih =>
    intro st gs h hl
    cases c with
    | add g =>
      have hg : g.length = n := hl g (by simp [added])
      obtain ⟨gs', h1, h2⟩ := ih (st.addNg g) (g :: gs) (reach_add h g hg)
        (fun x hx => hl x (by simp [added, hx]))
      refine ⟨gs', h1, fun x => ?_⟩
      rw [h2 x]; simp only [added, List.mem_cons]
      constructor
      · rintro ((h3 | h3) | h3)
        · exact Or.inr (Or.inl h3)
        · exact Or.inl h3
        · exact Or.inr (Or.inr h3)
      · rintro (h3 | h3 | h3)
        · exact Or.inl (Or.inr h3)
        · exact Or.inl (Or.inl h3)
        · exact Or.inr h3
    | mode m =>
      obtain ⟨gs', h1, h2⟩ := ih (st.setMode m) gs (reach_mode h m) (fun x hx => hl x (by simpa [added] using hx))
      exact ⟨gs', h1, fun x => by rw [h2 x]; simp [added]⟩

/-- **every history** of adds and mode switches from the fresh store: the invariant holds, the
store excludes exactly what the added nogoods exclude, every added nogood is covered by a stored
one, and only added nogoods are stored -/
theorem run_spec (n : Nat) (cs : List Cmd) (hl : ∀ g ∈ added cs, g.length = n) :
    Reach n (run (new n) cs) (added cs) := by
  obtain ⟨gs', h1, h2⟩ := reach_run cs (new n) [] (reach_new n) hl
  have hmem : ∀ g, g ∈ gs' ↔ g ∈ added cs := fun g => by rw [h2 g]; simp
  refine ⟨h1.inv, ?_, ?_, ?_⟩
  · intro σ
    rw [h1.excl σ]
    constructor
    · rintro ⟨g, hg, hm⟩; exact ⟨g, (hmem g).mp hg, hm⟩
    · rintro ⟨g, hg, hm⟩; exact ⟨g, (hmem g).mpr hg, hm⟩
  · intro g hg; exact h1.cover g ((hmem g).mpr hg)
  · intro h hs; exact (hmem h).mp (h1.sub h hs)

end NgStore

/-! ### laws of `conclusions` / `conclusion_closure` on the real buckets -/

/-- a stored nogood contained in the interpretation is found by the final `is_violating` scan:
it sits in the bucket of its size, which is at most the size of the interpretation -/
theorem conclusions_direct_inv {n : Nat} {bs : List (List PA)} (hi : NgInv n bs) {h A : PA}
    (hs : Stored bs h) (hp : PSub h A) (hA : A.length = n) : conclusions bs A = none := by
  obtain ⟨k, b, hk, hb⟩ := hs
  have ⟨hl, hsz⟩ := hi.shape k b hk h hb
  have hsize := size_mono h A (by rw [hl, hA]) hp
  have hviol : violating h A = true := (violating_iff h A).mpr hp
  have hklt : k < bs.length := by
    rcases Nat.lt_or_ge k bs.length with c | c
    · exact c
    · rw [List.getElem?_eq_none c] at hk; cases hk
  have hbk : bs[k] = b := by
    rw [List.getElem?_eq_getElem hklt] at hk; exact Option.some.inj hk
  have hrel : b ∈ relevant bs A := by
    unfold relevant
    rw [List.mem_take_iff_getElem]
    exact ⟨k, by rw [Nat.lt_min]; exact ⟨by omega, hklt⟩, hbk⟩
  unfold conclusions
  cases hf : (relevant bs A).foldl (bucketStep A) (some A) with
  | none => rfl
  | some result =>
    simp only
    rw [if_pos]
    rw [List.any_eq_true]
    refine ⟨b, hrel, ?_⟩
    rw [List.any_eq_true]
    exact ⟨h, hb, by simp [hviol]⟩

theorem closure_direct_inv {n : Nat} {bs : List (List PA)} (hi : NgInv n bs) {h A : PA}
    (hs : Stored bs h) (hp : PSub h A) (hA : A.length = n) :
    conclusionClosure bs A = Closure.inconsistent := by
  unfold conclusionClosure
  rw [conclusions_direct_inv hi hs hp hA]

/-- `cl_upd` / `cl_inc` on arbitrary buckets (the proof of `closure_sound` does not use `bucketsOf`) -/
theorem closure_sound_gen (buckets : List (List PA)) (A : PA) (σ : Asg) (hm : Matches A σ)
    (ha : AvoidsAll buckets σ) :
    (∀ R, conclusionClosure buckets A = Closure.update R → Matches R σ) ∧
    conclusionClosure buckets A ≠ Closure.inconsistent := by
  have ⟨s1, s2⟩ := conclusions_sound buckets A
  unfold conclusionClosure
  cases hc : conclusions buckets A with
  | none => exact absurd ha (s2 hc σ hm)
  | some val =>
    simp only
    have hval : Matches val σ := (s1 val hc).forced σ hm ha
    have hu := matches_updateVec hval hm
    by_cases hflag : (!(updateVec val A).2) = true
    · rw [if_pos hflag]; exact ⟨(fun R h => by simp at h), by simp⟩
    · rw [if_neg hflag]; exact closureLoop_sound _ σ ha _ _ hu

/-- `noUpdate`: a single `conclusions` call answered `Some` without deciding anything new -/
theorem closure_noUpdate {buckets : List (List PA)} {A : PA}
    (h : conclusionClosure buckets A = Closure.noUpdate) : ∃ val, conclusions buckets A = some val := by
  unfold conclusionClosure at h
  cases hc : conclusions buckets A with
  | none => rw [hc] at h; cases h
  | some val => exact ⟨val, rfl⟩

/-- **termination of the closure loop**: once the fuel exceeds the number of undecided positions
the answer does not depend on it — every round that continues decides a new position, so the
`while update` loop of the code runs at most `length - size + 1` rounds and the model's fuel
(`length + 1`) is never exhausted -/
theorem closureLoop_fuel (buckets : List (List PA)) : ∀ (fuel : Nat) (r : PA), r.length - size r < fuel →
    ∀ fuel', fuel ≤ fuel' → closureLoop buckets fuel' r = closureLoop buckets fuel r := by
  intro fuel
  induction fuel with
  | zero => intro r h; omega
  | succ f ih =>
    intro r hlt fuel' hle
    obtain ⟨f', rfl⟩ : ∃ f', fuel' = f' + 1 := ⟨fuel' - 1, by omega⟩
    unfold closureLoop
    cases hc : conclusions buckets r with
    | none => rfl
    | some val =>
      simp only
      by_cases hflag : (updateVec val r).2 = true
      · rw [if_pos hflag, if_pos hflag]
        have hk := conclusions_keep hc
        have h1 := size_updateVec_lt hk hflag
        have h2 := updateVec_length val r
        have h3 := size_le_length (updateVec val r).1
        exact ih _ (by omega) f' (by omega)
      · rw [if_neg hflag, if_neg hflag]

theorem updateVec_noflag {val r : PA} (hk : PSub r val) (hf : (updateVec val r).2 = false) :
    (updateVec val r).1 = r := by
  apply list_ext_pget (updateVec_length val r)
  intro i hi
  rw [updateVec_length] at hi
  rw [pget_updateVec val r i hi]
  cases hv : pget val i with
  | none => rfl
  | some b =>
    simp only
    cases hr : pget r i with
    | some c => rw [hk i c hr] at hv; exact hv.symm
    | none =>
      exfalso
      unfold updateVec at hf
      simp only at hf
      rw [List.any_eq_false] at hf
      have := hf i (List.mem_range.mpr hi)
      simp [hv, hr] at this

/-- the loop, run with enough fuel, ends in a conflict or in an interpretation on which one more
`conclusions` call decides nothing new — it never returns because the fuel ran out -/
theorem closureLoop_ends (buckets : List (List PA)) : ∀ (fuel : Nat) (r : PA), r.length - size r < fuel →
    closureLoop buckets fuel r = Closure.inconsistent ∨
    ∃ R val, closureLoop buckets fuel r = Closure.update R ∧ conclusions buckets R = some val ∧
      (updateVec val R).2 = false := by
  intro fuel
  induction fuel with
  | zero => intro r h; omega
  | succ f ih =>
    intro r hlt
    unfold closureLoop
    cases hc : conclusions buckets r with
    | none => exact Or.inl rfl
    | some val =>
      simp only
      have hk := conclusions_keep hc
      by_cases hflag : (updateVec val r).2 = true
      · rw [if_pos hflag]
        have h1 := size_updateVec_lt hk hflag
        have h2 := updateVec_length val r
        have h3 := size_le_length (updateVec val r).1
        exact ih _ (by omega)
      · rw [if_neg hflag]
        right
        have hf : (updateVec val r).2 = false := by simpa using hflag
        rw [updateVec_noflag hk hf]
        exact ⟨r, val, rfl, hc, hf⟩

/-- `conclusion_closure` never depends on the fuel of the model, and an `Update` answer is a
fixed point of `conclusions` -/
theorem closure_update_fix {buckets : List (List PA)} {A R : PA}
    (h : conclusionClosure buckets A = Closure.update R) :
    ∃ val, conclusions buckets R = some val ∧ (updateVec val R).2 = false := by
  unfold conclusionClosure at h
  cases hc : conclusions buckets A with
  | none => rw [hc] at h; cases h
  | some val =>
    rw [hc] at h; simp only at h
    by_cases hflag : (!(updateVec val A).2) = true
    · rw [if_pos hflag] at h; cases h
    · rw [if_neg hflag] at h
      have hf : (updateVec val A).2 = true := by simpa using hflag
      have hk := conclusions_keep hc
      have h1 := size_updateVec_lt hk hf
      have h2 := updateVec_length val A
      have h3 := size_le_length (updateVec val A).1
      rcases closureLoop_ends buckets (A.length + 1) (updateVec val A).1 (by omega) with h4 | ⟨R', val', h4, h5, h6⟩
      · rw [h4] at h; cases h
      · rw [h4] at h; cases h; exact ⟨val', h5, h6⟩

/-- `cl_flip` on the real buckets: under the premise of the structure lemma (`FlipPre`, relative
to any list `flat` that contains the stored nogoods) the closure answers with the flipped literal,
provided the fresh nogood is stored -/
theorem closure_flip_inv {n : Nat} {bs : List (List PA)} (hi : NgInv n bs) {flat : List PA} {H : PA}
    {v : Nat} {b : Bool} (h : FlipPre n flat H v b) (hall : ∀ g, Stored bs g → g ∈ flat)
    (hC : Stored bs (setAt H v b)) :
    conclusionClosure bs H = Closure.update (setAt H v (!b)) := by
  have hidx : ∀ bk ∈ relevant bs H, ∃ k, k < size H + 2 ∧ bs[k]? = some bk := by
    intro bk hb
    unfold relevant at hb
    obtain ⟨k, hk, rfl⟩ := List.mem_take_iff_getElem.mp hb
    rw [Nat.lt_min] at hk
    exact ⟨k, hk.1, List.getElem?_eq_getElem hk.2⟩
  apply closure_flip_gen h
  · intro bk hb g hg
    exact hall g (stored_iff_mem.mpr ⟨bk, hb, hg⟩)
  · intro bk hb g hg
    obtain ⟨k, hk, hbk⟩ := hidx bk hb
    have := (hi.shape k bk hbk g hg).2
    omega
  · obtain ⟨k, bk, hk, hbk⟩ := hC
    have hsz := (hi.shape k bk hk _ hbk).2
    rw [h.sizeC] at hsz
    have hklt : k < bs.length := by
      rcases Nat.lt_or_ge k bs.length with c | c
      · exact c
      · rw [List.getElem?_eq_none c] at hk; cases hk
    refine ⟨bk, ?_, hbk⟩
    unfold relevant
    rw [List.mem_take_iff_getElem]
    refine ⟨k, by rw [Nat.lt_min]; exact ⟨by omega, hklt⟩, ?_⟩
    rw [List.getElem?_eq_getElem hklt] at hk; exact Option.some.inj hk

/-- under `FlipPre` relative to the added nogoods the fresh nogood itself is stored: the stored
nogood that covers it can neither be complemented in `H` nor be a proper part of it -/
theorem flip_stored {n : Nat} {bs : List (List PA)} (hi : NgInv n bs) {flat : List PA} {H : PA}
    {v : Nat} {b : Bool} (h : FlipPre n flat H v b) (hall : ∀ g, Stored bs g → g ∈ flat)
    (hcov : ∃ g, Stored bs g ∧ PSub g (setAt H v b)) : Stored bs (setAt H v b) := by
  obtain ⟨g, hs, hp⟩ := hcov
  have hvH : v < H.length := by rw [h.hlen]; exact h.hv
  rcases h.cls g (hall g hs) with ⟨i, c, hg, hH⟩ | hs'
  · exfalso
    have := hp i c hg
    rw [pget_setAt] at this
    by_cases e : i = v
    · rw [e, h.hn] at hH; cases hH
    · rw [if_neg e, hH] at this
      cases c <;> simp at this
  · have heq : g = setAt H v b := by
      obtain ⟨k, bk, hk, hbk⟩ := hs
      have hl := (hi.shape k bk hk g hbk).1
      apply list_ext_pget (by rw [hl, setAt_length H v b hvH, h.hlen])
      intro i _
      apply option_ext_some
      intro x
      exact ⟨hp i x, hs' i x⟩
    rw [← heq]; exact hs

/-- every answer of the loop has the width of its input -/
theorem closureLoop_length (buckets : List (List PA)) : ∀ (fuel : Nat) (r R : PA),
    closureLoop buckets fuel r = Closure.update R → R.length = r.length := by
  intro fuel
  induction fuel with
  | zero => intro r R h; simp [closureLoop] at h; subst h; rfl
  | succ f ih =>
    intro r R h
    unfold closureLoop at h
    cases hc : conclusions buckets r with
    | none => rw [hc] at h; cases h
    | some val =>
      rw [hc] at h; simp only at h
      by_cases hflag : (updateVec val r).2 = true
      · rw [if_pos hflag] at h; rw [ih _ R h, updateVec_length]
      · rw [if_neg hflag] at h
        simp only [Closure.update.injEq] at h; subst h; exact updateVec_length val r

theorem closure_length {buckets : List (List PA)} {A R : PA}
    (h : conclusionClosure buckets A = Closure.update R) : R.length = A.length := by
  unfold conclusionClosure at h
  cases hc : conclusions buckets A with
  | none => rw [hc] at h; cases h
  | some val =>
    rw [hc] at h; simp only at h
    by_cases hflag : (!(updateVec val A).2) = true
    · rw [if_pos hflag] at h; cases h
    · rw [if_neg hflag] at h
      rw [closureLoop_length _ _ _ R h, updateVec_length]

/-! ### the line-by-line model computes the functions the laws are proved for -/

theorem zipIdx_filter_le {α : Type} : ∀ (l : List α) (k m : Nat),
    ((l.zipIdx k).filter (fun p => decide (p.2 ≤ m))).map Prod.fst = l.take (m + 1 - k) := by
  intro l
  induction l with
  | nil => intro k m; simp
  | cons x l ih =>
    intro k m
    rw [List.zipIdx_cons]
    by_cases c : k ≤ m
    · rw [List.filter_cons_of_pos (by simpa using c), List.map_cons, ih (k + 1) m]
      have : m + 1 - k = (m + 1 - (k + 1)) + 1 := by omega
      rw [this, List.take_succ_cons]
    · rw [List.filter_cons_of_neg (by simpa using c), ih (k + 1) m]
      have h1 : m + 1 - (k + 1) = 0 := by omega
      have h2 : m + 1 - k = 0 := by omega
      rw [h1, h2]; simp

/-- the enumerate/filter bucket selection of the code is "the first `size interp + 2` buckets" -/
theorem relevant_eq_filter (store : List (List PA)) (interp : PA) :
    relevantR store interp = relevant store interp := by
  unfold relevantR relevant
  exact zipIdx_filter_le store 0 (size interp + 1)

theorem mismatch_true_iff (self other : PA) :
    mismatch self other = true ↔ ∃ i a b, pget self i = some a ∧ pget other i = some b ∧ a ≠ b := by
  unfold mismatch
  rw [List.any_eq_true]
  constructor
  · rintro ⟨i, _, h⟩
    cases ha : pget self i with
    | none => simp [ha] at h
    | some a =>
      cases hb : pget other i with
      | none => simp [ha, hb] at h
      | some b =>
        simp only [ha, hb] at h
        exact ⟨i, a, b, ha, hb, by simpa using h⟩
  · rintro ⟨i, a, b, ha, hb, hne⟩
    refine ⟨i, List.mem_range.mpr (pget_lt ha), ?_⟩
    simp only [ha, hb]
    simpa using hne

def PairsCons (ps : List (Nat × Bool)) : Prop := ∀ x ∈ ps, ∀ y ∈ ps, x.1 = y.1 → x.2 = y.2
def PairsCompat (acc : PA) (ps : List (Nat × Bool)) : Prop := ∀ x ∈ ps, ∀ w, pget acc x.1 = some w → w = x.2

theorem consistentPairs_iff (ps : List (Nat × Bool)) : consistentPairs ps = true ↔ PairsCons ps := by
  unfold consistentPairs PairsCons
  rw [List.all_eq_true]
  constructor
  · intro h x hx y hy hxy
    have := h x hx
    rw [List.all_eq_true] at this
    have := this y hy
    simp only [Bool.or_eq_true, bne_iff_ne, beq_iff_eq] at this
    rcases this with h1 | h1
    · exact absurd hxy h1
    · exact h1
  · intro h x hx
    rw [List.all_eq_true]
    intro y hy
    simp only [Bool.or_eq_true, bne_iff_ne, beq_iff_eq]
    by_cases c : x.1 = y.1
    · exact Or.inr (h x hx y hy c)
    · exact Or.inl c

theorem setAt_same {acc : PA} {i : Nat} {v : Bool} (h : pget acc i = some v) : setAt acc i v = acc := by
  have hlt := pget_lt h
  apply list_ext_pget (setAt_length acc i v hlt)
  intro j _
  rw [pget_setAt]
  by_cases c : j = i
  · rw [if_pos c, c, h]
  · rw [if_neg c]

theorem PairsCons.tail {x : Nat × Bool} {ps : List (Nat × Bool)} (h : PairsCons (x :: ps)) : PairsCons ps :=
  fun a ha b hb => h a (List.mem_cons_of_mem _ ha) b (List.mem_cons_of_mem _ hb)

theorem tryFromPairsAux_some : ∀ (ps : List (Nat × Bool)) (acc : PA), PairsCons ps → PairsCompat acc ps →
    tryFromPairsAux acc ps = some (mergePairs acc ps) := by
  intro ps
  induction ps with
  | nil => intro acc _ _; rfl
  | cons x ps ih =>
    intro acc hc hk
    obtain ⟨i, v⟩ := x
    have hmerge : mergePairs acc ((i, v) :: ps) = mergePairs (setAt acc i v) ps := by
      unfold mergePairs; simp only [List.foldl_cons]
    unfold tryFromPairsAux
    cases hp : pget acc i with
    | some w =>
      simp only
      have hw : w = v := hk (i, v) (List.mem_cons_self ..) w hp
      subst hw
      rw [if_neg (by simp)]
      rw [hmerge, setAt_same hp]
      exact ih acc hc.tail (fun y hy => hk y (List.mem_cons_of_mem _ hy))
    | none =>
      simp only
      rw [hmerge]
      apply ih _ hc.tail
      intro y hy w hw
      rw [pget_setAt] at hw
      by_cases c : y.1 = i
      · rw [if_pos c] at hw
        have := hc (i, v) (List.mem_cons_self ..) y (List.mem_cons_of_mem _ hy) c.symm
        simp only at this
        rw [← this]; exact (Option.some.inj hw).symm
      · rw [if_neg c] at hw
        exact hk y (List.mem_cons_of_mem _ hy) w hw

theorem tryFromPairsAux_none : ∀ (ps : List (Nat × Bool)) (acc : PA), ¬ (PairsCons ps ∧ PairsCompat acc ps) →
    tryFromPairsAux acc ps = none := by
  intro ps
  induction ps with
  | nil =>
    intro acc h
    have h1 : PairsCons [] := fun x hx => by cases hx
    have h2 : PairsCompat acc [] := fun x hx => by cases hx
    exact absurd ⟨h1, h2⟩ h
  | cons x ps ih =>
    intro acc h
    obtain ⟨i, v⟩ := x
    unfold tryFromPairsAux
    cases hp : pget acc i with
    | some w =>
      simp only
      by_cases hw : w = v
      · subst hw
        rw [if_neg (by simp)]
        apply ih
        rintro ⟨hc, hk⟩
        apply h
        constructor
        · intro a ha b hb hab
          rcases List.mem_cons.mp ha with rfl | ha <;> rcases List.mem_cons.mp hb with rfl | hb
          · rfl
          · simp only at hab ⊢
            exact hk b hb w (by rw [← hab]; exact hp)
          · simp only at hab ⊢
            exact (hk a ha w (by rw [hab]; exact hp)).symm
          · exact hc a ha b hb hab
        · intro y hy w' hw'
          rcases List.mem_cons.mp hy with rfl | hy
          · simp only at hw' ⊢
            rw [hp] at hw'; exact (Option.some.inj hw').symm
          · exact hk y hy w' hw'
      · rw [if_pos (by simpa using hw)]
    | none =>
      simp only
      apply ih
      rintro ⟨hc, hk⟩
      apply h
      have hset : ∀ y ∈ ps, y.1 = i → v = y.2 := by
        intro y hy hyi
        exact hk y hy v (by rw [pget_setAt, if_pos hyi])
      constructor
      · intro a ha b hb hab
        rcases List.mem_cons.mp ha with rfl | ha <;> rcases List.mem_cons.mp hb with rfl | hb
        · rfl
        · exact hset b hb hab.symm
        · exact (hset a ha hab).symm
        · exact hc a ha b hb hab
      · intro y hy w' hw'
        rcases List.mem_cons.mp hy with rfl | hy
        · simp only at hw'; rw [hp] at hw'; cases hw'
        · by_cases c : y.1 = i
          · rw [c, hp] at hw'; cases hw'
          · exact hk y hy w' (by rw [pget_setAt, if_neg c]; exact hw')

/-- `try_from_pair_iter` in closed form -/
theorem tryFromPairs_eq (ps : List (Nat × Bool)) :
    tryFromPairs ps = if ps.isEmpty || !consistentPairs ps then none else some (mergePairs [] ps) := by
  unfold tryFromPairs
  have hcompat : PairsCompat [] ps := by
    intro x _ w hw; simp [pget] at hw
  by_cases he : ps.isEmpty = true
  · simp [he]
  · rw [if_neg he]
    by_cases hc : consistentPairs ps = true
    · rw [if_neg (by simp [he, hc])]
      exact tryFromPairsAux_some ps [] ((consistentPairs_iff ps).mp hc) hcompat
    · rw [if_pos (by simp [hc])]
      exact tryFromPairsAux_none ps [] (fun h => hc ((consistentPairs_iff ps).mpr h.1))

theorem pget_mergePairs_sub : ∀ (ps : List (Nat × Bool)) (acc : PA) (i : Nat) (v : Bool),
    pget (mergePairs acc ps) i = some v → pget acc i = some v ∨ (i, v) ∈ ps := by
  intro ps
  induction ps with
  | nil => intro acc i v h; exact Or.inl h
  | cons x ps ih =>
    intro acc i v h
    have hmerge : mergePairs acc (x :: ps) = mergePairs (setAt acc x.1 x.2) ps := by
      unfold mergePairs; simp only [List.foldl_cons]
    rw [hmerge] at h
    rcases ih _ i v h with h1 | h1
    · rw [pget_setAt] at h1
      by_cases c : i = x.1
      · rw [if_pos c] at h1
        right
        have : x = (i, v) := by
          cases x; simp only at c h1; subst c; rw [Option.some.inj h1]
        rw [this]; exact List.mem_cons_self ..
      · rw [if_neg c] at h1; exact Or.inl h1
    · exact Or.inr (List.mem_cons_of_mem _ h1)

theorem pget_mergePairs_of : ∀ (ps : List (Nat × Bool)) (acc : PA) (i : Nat) (v : Bool),
    (∀ y ∈ ps, y.1 = i → y.2 = v) → (pget acc i = some v ∨ (i, v) ∈ ps) →
    pget (mergePairs acc ps) i = some v := by
  intro ps
  induction ps with
  | nil =>
    intro acc i v _ h
    rcases h with h | h
    · exact h
    · cases h
  | cons x ps ih =>
    intro acc i v hall h
    have hmerge : mergePairs acc (x :: ps) = mergePairs (setAt acc x.1 x.2) ps := by
      unfold mergePairs; simp only [List.foldl_cons]
    rw [hmerge]
    apply ih _ i v (fun y hy => hall y (List.mem_cons_of_mem _ hy))
    rw [pget_setAt]
    by_cases c : i = x.1
    · rw [if_pos c]; left
      rw [hall x (List.mem_cons_self ..) c.symm]
    · rw [if_neg c]
      rcases h with h | h
      · exact Or.inl h
      · rcases List.mem_cons.mp h with h1 | h1
        · exact absurd (by rw [← h1]) c
        · exact Or.inr h1

theorem pget_disjPA (a b : PA) (i : Nat) :
    pget (disjPA a b) i = (match pget a i, pget b i with
      | some x, some y => some (x || y)
      | some x, none => some x
      | none, some y => some y
      | none, none => none) := by
  rcases Nat.lt_or_ge i (max a.length b.length) with h | h
  · have hget : (disjPA a b)[i]? = some (match pget a i, pget b i with
        | some x, some y => some (x || y)
        | some x, none => some x
        | none, some y => some y
        | none, none => none) := by
      unfold disjPA
      rw [List.getElem?_map, List.getElem?_range h]; rfl
    show ((disjPA a b)[i]?).getD none = _
    rw [hget]; rfl
  · have ha : pget a i = none := by
      unfold pget; rw [List.getElem?_eq_none (by omega)]; rfl
    have hb : pget b i = none := by
      unfold pget; rw [List.getElem?_eq_none (by omega)]; rfl
    rw [ha, hb]
    unfold disjPA pget
    rw [List.getElem?_eq_none (by simpa using h)]; rfl

theorem disjPA_length (a b : PA) : (disjPA a b).length = max a.length b.length := by simp [disjPA]

theorem setAt_length_le (acc : PA) (i : Nat) (v : Bool) (n : Nat) (hi : i < n) (ha : acc.length ≤ n) :
    (setAt acc i v).length ≤ n := by
  unfold setAt
  by_cases c : i < acc.length
  · rw [if_pos c]; simpa using ha
  · rw [if_neg c]; simp; omega

theorem mergePairs_length_le (n : Nat) : ∀ (ps : List (Nat × Bool)) (acc : PA), (∀ x ∈ ps, x.1 < n) →
    acc.length ≤ n → (mergePairs acc ps).length ≤ n := by
  intro ps
  induction ps with
  | nil => intro acc _ h; exact h
  | cons x ps ih =>
    intro acc hx ha
    have hmerge : mergePairs acc (x :: ps) = mergePairs (setAt acc x.1 x.2) ps := by
      unfold mergePairs; simp only [List.foldl_cons]
    rw [hmerge]
    exact ih _ (fun y hy => hx y (List.mem_cons_of_mem _ hy))
      (setAt_length_le acc x.1 x.2 n (hx x (List.mem_cons_self ..)) ha)

theorem mergePairs_length (n : Nat) : ∀ (ps : List (Nat × Bool)) (acc : PA), (∀ x ∈ ps, x.1 < n) →
    acc.length = n → (mergePairs acc ps).length = n := by
  intro ps
  induction ps with
  | nil => intro acc _ h; exact h
  | cons x ps ih =>
    intro acc hx ha
    have hmerge : mergePairs acc (x :: ps) = mergePairs (setAt acc x.1 x.2) ps := by
      unfold mergePairs; simp only [List.foldl_cons]
    rw [hmerge]
    apply ih _ (fun y hy => hx y (List.mem_cons_of_mem _ hy))
    rw [setAt_length acc x.1 x.2 (by rw [ha]; exact hx x (List.mem_cons_self ..)), ha]

theorem conclude_pos_lt {g interp : PA} {x : Nat × Bool} (h : conclude g interp = some x) : x.1 < g.length := by
  have ⟨hp, _, hv⟩ := conclude_some (p := x.1) (b := x.2) h
  exact pget_lt hv

/-- one fold step: the bitmap-level step of the code is the step of `NoGood.lean` -/
theorem bucketStepR_eq {n : Nat} (interp acc : PA) (bucket : List PA) (hacc : acc.length = n)
    (hb : ∀ g ∈ bucket, g.length = n) :
    bucketStepR interp (some acc) bucket = bucketStep interp (some acc) bucket := by
  have hpos : ∀ x ∈ bucket.filterMap (fun g => conclude g interp), x.1 < n := by
    intro x hx
    rw [List.mem_filterMap] at hx
    obtain ⟨g, hg, hc⟩ := hx
    rw [← hb g hg]; exact conclude_pos_lt hc
  unfold bucketStepR bucketStep
  simp only
  generalize bucket.filterMap (fun g => conclude g interp) = pairs at *
  rw [tryFromPairs_eq]
  by_cases c1 : (pairs.isEmpty || !consistentPairs pairs) = true
  · rw [if_pos c1, if_pos c1]
  · rw [if_neg c1, if_neg c1]
    simp only
    have hcons : PairsCons pairs := by
      apply (consistentPairs_iff pairs).mp
      cases hh : consistentPairs pairs with
      | true => rfl
      | false => simp [hh] at c1
    have hng : ∀ i v, pget (mergePairs [] pairs) i = some v ↔ (i, v) ∈ pairs := by
      intro i v
      constructor
      · intro h
        rcases pget_mergePairs_sub pairs [] i v h with h1 | h1
        · simp [pget] at h1
        · exact h1
      · intro h
        exact pget_mergePairs_of pairs [] i v (fun y hy hyi => hcons y hy (i, v) h hyi) (Or.inr h)
    have hmm : mismatch (mergePairs [] pairs) acc = pairs.any (fun x => pget acc x.1 == some (!x.2)) := by
      rw [Bool.eq_iff_iff, mismatch_true_iff, List.any_eq_true]
      constructor
      · rintro ⟨i, a, b, ha, hb', hne⟩
        refine ⟨(i, a), (hng i a).mp ha, ?_⟩
        simp only [hb', beq_iff_eq, Option.some.injEq]
        cases a <;> cases b <;> simp_all
      · rintro ⟨x, hx, hc⟩
        refine ⟨x.1, x.2, !x.2, (hng x.1 x.2).mpr hx, by simpa using hc, by cases x.2 <;> simp⟩
    rw [hmm]
    by_cases c2 : pairs.any (fun x => pget acc x.1 == some (!x.2)) = true
    · rw [if_pos c2, if_pos c2]
    · rw [if_neg c2, if_neg c2]
      congr 1
      have hcompat : PairsCompat acc pairs := by
        intro x hx w hw
        have hnot : ¬ (pget acc x.1 == some (!x.2)) = true := by
          intro hh; exact c2 (List.any_eq_true.mpr ⟨x, hx, hh⟩)
        rw [hw] at hnot
        cases w <;> cases hx2 : x.2 <;> simp_all
      have hlen1 : (mergePairs acc pairs).length = n := mergePairs_length n pairs acc hpos hacc
      have hlen2 : (disjPA acc (mergePairs [] pairs)).length = n := by
        rw [disjPA_length, hacc]
        have := mergePairs_length_le n pairs [] hpos (by simp)
        omega
      apply list_ext_pget (by rw [hlen1, hlen2])
      intro i _
      apply option_ext_some
      intro v
      rw [pget_disjPA]
      have hF1 : ∀ a b, pget acc i = some a → pget (mergePairs [] pairs) i = some b → a = b :=
        fun a b ha hn => hcompat (i, b) ((hng i b).mp hn) a ha
      have hmp : ∀ v, pget (mergePairs acc pairs) i = some v ↔
          pget acc i = some v ∨ pget (mergePairs [] pairs) i = some v := by
        intro v
        constructor
        · intro h
          rcases pget_mergePairs_sub pairs acc i v h with h1 | h1
          · exact Or.inl h1
          · exact Or.inr ((hng i v).mpr h1)
        · intro h
          apply pget_mergePairs_of pairs acc i v
          · intro y hy hyi
            rcases h with h | h
            · exact (hcompat y hy v (by rw [hyi]; exact h)).symm
            · exact hcons y hy (i, v) ((hng i v).mp h) hyi
          · rcases h with h | h
            · exact Or.inl h
            · exact Or.inr ((hng i v).mp h)
      rw [hmp v]
      cases ha : pget acc i with
      | some a =>
        cases hn : pget (mergePairs [] pairs) i with
        | some b =>
          have := hF1 a b ha hn
          subst this
          simp
        | none => simp
      | none =>
        cases hn : pget (mergePairs [] pairs) i with
        | some b => simp
        | none => simp

theorem bucketStep_length {n : Nat} (interp acc r : PA) (bucket : List PA) (hacc : acc.length = n)
    (hb : ∀ g ∈ bucket, g.length = n) (h : bucketStep interp (some acc) bucket = some r) : r.length = n := by
  have hpos : ∀ x ∈ bucket.filterMap (fun g => conclude g interp), x.1 < n := by
    intro x hx
    rw [List.mem_filterMap] at hx
    obtain ⟨g, hg, hc⟩ := hx
    rw [← hb g hg]; exact conclude_pos_lt hc
  unfold bucketStep at h
  simp only at h
  generalize bucket.filterMap (fun g => conclude g interp) = pairs at *
  by_cases c1 : (pairs.isEmpty || !consistentPairs pairs) = true
  · rw [if_pos c1] at h; cases h; exact hacc
  · rw [if_neg c1] at h
    by_cases c2 : pairs.any (fun x => pget acc x.1 == some (!x.2)) = true
    · rw [if_pos c2] at h; cases h
    · rw [if_neg c2] at h; cases h
      exact mergePairs_length n pairs acc hpos hacc

theorem foldR_eq {n : Nat} (interp : PA) : ∀ (bs : List (List PA)), (∀ b ∈ bs, ∀ g ∈ b, g.length = n) →
    ∀ (acc : Option PA), (∀ a, acc = some a → a.length = n) →
    bs.foldl (bucketStepR interp) acc = bs.foldl (bucketStep interp) acc := by
  intro bs
  induction bs with
  | nil => intro _ acc _; rfl
  | cons b bs ih =>
    intro hb acc hacc
    simp only [List.foldl_cons]
    have hbs : ∀ b' ∈ bs, ∀ g ∈ b', g.length = n := fun b' hb' => hb b' (List.mem_cons_of_mem _ hb')
    cases acc with
    | none =>
      have h1 : bucketStepR interp none b = none := rfl
      have h2 : bucketStep interp none b = none := rfl
      rw [h1, h2]
      exact ih hbs none (fun a ha => by cases ha)
    | some a =>
      have ha := hacc a rfl
      have hbb := hb b (List.mem_cons_self ..)
      rw [bucketStepR_eq interp a b ha hbb]
      apply ih hbs
      intro r hr
      exact bucketStep_length interp a r b ha hbb hr

/-- **the line-by-line `conclusions` is the function the laws are proved for**, whenever the
stored nogoods and the interpretation are vectors of one width -/
theorem conclusionsR_eq {n : Nat} (store : List (List PA)) (interp : PA)
    (hs : ∀ b ∈ store, ∀ g ∈ b, g.length = n) (hi : interp.length = n) :
    conclusionsR store interp = conclusions store interp := by
  unfold conclusionsR conclusions
  rw [relevant_eq_filter]
  rw [foldR_eq (n := n) interp (relevant store interp) (fun b hb => hs b (relevant_sub hb)) (some interp)
    (fun a ha => by cases ha; exact hi)]
  rfl

theorem conclusions_length {n : Nat} (store : List (List PA)) (interp r : PA)
    (hs : ∀ b ∈ store, ∀ g ∈ b, g.length = n) (hi : interp.length = n)
    (h : conclusions store interp = some r) : r.length = n := by
  have hfold : ∀ (bs : List (List PA)), (∀ b ∈ bs, ∀ g ∈ b, g.length = n) → ∀ (acc r : PA), acc.length = n →
      bs.foldl (bucketStep interp) (some acc) = some r → r.length = n := by
    intro bs
    induction bs with
    | nil => intro _ acc r ha h; simp only [List.foldl_nil] at h; cases h; exact ha
    | cons b bs ih =>
      intro hb acc r ha h
      simp only [List.foldl_cons] at h
      cases hstep : bucketStep interp (some acc) b with
      | none =>
        rw [hstep] at h
        have hnone : ∀ (l : List (List PA)), l.foldl (bucketStep interp) none = none := by
          intro l; induction l with
          | nil => rfl
          | cons _ _ ih' => simp only [List.foldl_cons]; exact ih'
        rw [hnone] at h; cases h
      | some r1 =>
        rw [hstep] at h
        exact ih (fun b' hb' => hb b' (List.mem_cons_of_mem _ hb')) r1 r
          (bucketStep_length interp acc r1 b ha (hb b (List.mem_cons_self ..)) hstep) h
  unfold conclusions at h
  cases hf : (relevant store interp).foldl (bucketStep interp) (some interp) with
  | none => rw [hf] at h; cases h
  | some result =>
    rw [hf] at h
    simp only at h
    split at h
    · cases h
    · cases h
      exact hfold _ (fun b hb => hs b (relevant_sub hb)) interp _ hi hf

theorem closureLoopR_eq {n : Nat} (store : List (List PA)) (hs : ∀ b ∈ store, ∀ g ∈ b, g.length = n) :
    ∀ (fuel : Nat) (r : PA), r.length = n → closureLoopR store fuel r = closureLoop store fuel r := by
  intro fuel
  induction fuel with
  | zero => intro r _; rfl
  | succ f ih =>
    intro r hr
    unfold closureLoopR closureLoop
    rw [conclusionsR_eq store r hs hr]
    cases hc : conclusions store r with
    | none => rfl
    | some val =>
      simp only
      rw [ih _ (by rw [updateVec_length]; exact hr)]

/-- the line-by-line `conclusion_closure` is the function the laws are proved for -/
theorem closureR_eq {n : Nat} (store : List (List PA)) (interp : PA)
    (hs : ∀ b ∈ store, ∀ g ∈ b, g.length = n) (hi : interp.length = n) :
    closureR store interp = conclusionClosure store interp := by
  unfold closureR conclusionClosure
  rw [conclusionsR_eq store interp hs hi]
  cases hc : conclusions store interp with
  | none => rfl
  | some val =>
    simp only
    rw [closureLoopR_eq store hs _ _ (by rw [updateVec_length]; exact hi)]

theorem NgInv.lengths {n : Nat} {bs : List (List PA)} (hi : NgInv n bs) : ∀ b ∈ bs, ∀ g ∈ b, g.length = n := by
  intro b hb g hg
  obtain ⟨k, hk⟩ := List.getElem?_of_mem hb
  exact (hi.shape k b hk g hg).1

namespace NgStore

/-- on a reachable store: avoiding the added nogoods is avoiding the stored ones -/
theorem run_avoids {n : Nat} {cs : List Cmd} (hs : ∀ g ∈ added cs, g.length = n) {σ : Asg}
    (ha : AvoidsL (added cs) σ) : AvoidsAll (run (new n) cs).buckets σ := by
  rw [avoidsAll_iff, (run_spec n cs hs).excl σ, ← avoidsL_iff]; exact ha

theorem run_conclusions_eq {n : Nat} {cs : List Cmd} (hs : ∀ g ∈ added cs, g.length = n) {A : PA}
    (hA : A.length = n) :
    (run (new n) cs).conclusions A = _root_.conclusions (run (new n) cs).buckets A :=
  conclusionsR_eq _ A (run_spec n cs hs).inv.lengths hA

theorem run_closure_eq {n : Nat} {cs : List Cmd} (hs : ∀ g ∈ added cs, g.length = n) {A : PA}
    (hA : A.length = n) :
    (run (new n) cs).closure A = conclusionClosure (run (new n) cs).buckets A :=
  closureR_eq _ A (run_spec n cs hs).inv.lengths hA

end NgStore

/-! ### decidable versions of the semantic notions (for the concrete witnesses and the
executable specification) -/

def matchesB (g : PA) (σ : Asg) : Bool :=
  (List.range g.length).all (fun i => match pget g i with | none => true | some b => σ i == b)

theorem matchesB_iff (g : PA) (σ : Asg) : matchesB g σ = true ↔ Matches g σ := by
  unfold matchesB Matches
  rw [List.all_eq_true]
  constructor
  · intro h i b hi
    have := h i (List.mem_range.mpr (pget_lt hi))
    simp only [hi] at this
    simpa using this
  · intro h i _
    cases hg : pget g i with
    | none => rfl
    | some b => simp [h i b hg]

def excludedB (bs : List (List PA)) (σ : Asg) : Bool := bs.any (fun b => b.any (fun g => matchesB g σ))

theorem excludedB_iff (bs : List (List PA)) (σ : Asg) : excludedB bs σ = true ↔ Excluded bs σ := by
  unfold excludedB Excluded
  rw [List.any_eq_true]
  constructor
  · rintro ⟨b, hb, h⟩
    rw [List.any_eq_true] at h
    obtain ⟨g, hg, hm⟩ := h
    exact ⟨g, stored_iff_mem.mpr ⟨b, hb, hg⟩, (matchesB_iff g σ).mp hm⟩
  · rintro ⟨g, hs, hm⟩
    obtain ⟨b, hb, hg⟩ := stored_iff_mem.mp hs
    exact ⟨b, hb, List.any_eq_true.mpr ⟨g, hg, (matchesB_iff g σ).mpr hm⟩⟩

/-! ### the pinned, unrepaired code (defects D8a, D8b, D10) -/

namespace NgOrig

/-- unrepaired `NoGoodStore::new`: `size` buckets, bucket `k` for the nogoods of size `k + 1` -/
def new (n : Nat) : NgStore := ⟨List.replicate n [], .equiv⟩

/-- unrepaired per-bucket function; `idx = size g - 1` -/
def addFn (m : DupMode) (g : PA) (i : Nat) (b : List PA) : List PA :=
  let idx := size g - 1
  match m with
  | .none => if i == idx then b ++ [g] else b
  | .equiv => if i == idx then (if b.contains g then b else b ++ [g]) else b
  | .subsume =>
    -- D8b: `if idx >= cur_idx { ng_vec.retain(|ng| !ng.is_violating(&nogood)) }`, then push: the
    -- stored nogoods CONTAINED IN the new one are removed and the new, weaker one is kept
    let b' := if i ≤ idx then b.filter (fun h => !violating h g) else b
    if i == idx then b' ++ [g] else b'

/-- unrepaired `add_ng`: D10 — `if idx > 0 { idx -= 1; … }` drops the empty nogood -/
def addNg (st : NgStore) (g : PA) : NgStore :=
  if size g == 0 then st else { st with buckets := st.buckets.mapIdx (addFn st.mode g) }

/-- unrepaired fold step: D8a — `if ng.is_violating(acc)` (agreement instead of contradiction) -/
def bucketStep (interp : PA) (acc : Option PA) (bucket : List PA) : Option PA :=
  match acc with
  | none => none
  | some acc =>
    match tryFromPairs (bucket.filterMap (fun g => conclude g interp)) with
    | none => some acc
    | some ng => if violating ng acc then none else some (disjPA acc ng)

/-- unrepaired bucket selection `*len <= nogood.len()` -/
def relevant (store : List (List PA)) (interp : PA) : List (List PA) :=
  (store.zipIdx.filter (fun p => p.2 ≤ size interp)).map Prod.fst

def conclusions (store : List (List PA)) (interp : PA) : Option PA :=
  match (relevant store interp).foldl (bucketStep interp) (some interp) with
  | none => none
  | some result =>
    if (relevant store interp).any (fun b => b.any (fun e => violating e result || violating e interp))
    then none else some result

def step (st : NgStore) : NgStore.Cmd → NgStore
  | .add g => addNg st g
  | .mode m => st.setMode m

def run (st : NgStore) (cs : List NgStore.Cmd) : NgStore := cs.foldl step st

end NgOrig

/-- the repaired code with only the D8a fix reverted (the contradiction test of the fold) -/
def bucketStepD8a (interp : PA) (acc : Option PA) (bucket : List PA) : Option PA :=
  match acc with
  | none => none
  | some acc =>
    match tryFromPairs (bucket.filterMap (fun g => conclude g interp)) with
    | none => some acc
    | some ng => if violating ng acc then none else some (disjPA acc ng)

def conclusionsD8a (store : List (List PA)) (interp : PA) : Option PA :=
  match (relevantR store interp).foldl (bucketStepD8a interp) (some interp) with
  | none => none
  | some result =>
    if (relevantR store interp).any (fun b => b.any (fun e => violating e result || violating e interp))
    then none else some result
