import AdfObdd.FeatureTables
import AdfObdd.FeatureIte
/-! C12, the store with its feature-dependent tables: the invariant `FInv c z` (`z` = nothing
    was imported yet, which is when the exception configuration has all-zero model entries),
    its preservation by `nodeC` / `restrictC` / `iteCfg`, the exact simulation of these by the
    bare-store operations `mkNode` / `restrictS (scOf c)` / `iteS (scOf c)`, establishment by
    `newC` and `fixImportC`, and the query lemmas. -/

structure TabInv (c : Cfg) (z : Bool) (fs : FStore) : Prop where
  deps : c.variablelist = true → DepsOK fs.base fs.deps
  cnt : CntOK c.exactModels fs.base fs.cnt
  full : c.adhoccounting = true → CntFull fs.base fs.cnt
  zero : z = true → c.exc = true → CntZero fs.base fs.cnt

structure FInv (c : Cfg) (z : Bool) (fs : FStore) : Prop where
  wf : WF fs.base
  tab : TabInv c z fs

theorem CntOK_congr {em : Bool} {s s' : Store} {c : CntCache} (h : TableWF s.nodes) (he : s'.nodes = s.nodes)
    (hc : CntOK em s c) : CntOK em s' c :=
  CntOK_ext h (ExtN_of_eq he) (by rw [he]; exact Nat.le_refl _) hc

theorem TabInv_congr {c : Cfg} {z : Bool} {fs fs' : FStore} (h : TableWF fs.base.nodes)
    (hn : fs'.base.nodes = fs.base.nodes) (hd : fs'.deps = fs.deps) (hc : fs'.cnt = fs.cnt)
    (ti : TabInv c z fs) : TabInv c z fs' := by
  constructor
  · intro hv; rw [hd]; exact DepsOK_congr h hn (ti.deps hv)
  · rw [hc]; exact CntOK_congr h hn ti.cnt
  · intro ha t ht; rw [hc]; rw [hn] at ht; exact ti.full ha t ht
  · intro hz he t ht2 ht; rw [hc]; rw [hn] at ht; exact ti.zero hz he t ht2 ht

/-! ### `node` -/

theorem nodeC_base (c : Cfg) (fs : FStore) (v lo hi : Nat) :
    (nodeC c fs v lo hi).1.base = (mkNode fs.base v lo hi).1 ∧
    (nodeC c fs v lo hi).2 = (mkNode fs.base v lo hi).2 := by
  unfold nodeC mkNode
  by_cases h : lo = hi
  · rw [if_pos h, if_pos h]; exact ⟨rfl, rfl⟩
  · rw [if_neg h, if_neg h]
    cases fs.base.uniq[(⟨v, lo, hi⟩ : Node)]? <;> exact ⟨rfl, rfl⟩

theorem Cfg.exact_of_adhoc {c : Cfg} (ha : c.adhoccounting = true) : c.exactModels = c.adhoccountmodels := by
  simp [Cfg.exactModels, Cfg.exc, ha]

/-- the bookkeeping of `node` keeps every table exact -/
theorem nodeC_tab (c : Cfg) (z : Bool) (fs : FStore) (v lo hi : Nat) (h : TableWF fs.base.nodes)
    (ti : TabInv c z fs) (hlo : lo < fs.base.nodes.size) (hhi : hi < fs.base.nodes.size) :
    TabInv c z (nodeC c fs v lo hi).1 := by
  unfold nodeC
  by_cases hne : lo = hi
  · rw [if_pos hne]; exact ti
  rw [if_neg hne]
  cases fs.base.uniq[(⟨v, lo, hi⟩ : Node)]? with
  | some t => exact ti
  | none =>
    simp only
    have hext : ExtN fs.base.nodes (fs.base.nodes.push ⟨v, lo, hi⟩) := ExtN_push _ _
    -- abbreviations for the new base store
    generalize hs' : Store.mk (fs.base.nodes.push ⟨v, lo, hi⟩)
        (fs.base.uniq.insert ⟨v, lo, hi⟩ fs.base.nodes.size) fs.base.resC fs.base.iteC = s'
    have hsn : s'.nodes = fs.base.nodes.push ⟨v, lo, hi⟩ := by rw [← hs']
    have hsz : s'.nodes.size = fs.base.nodes.size + 1 := by rw [hsn]; simp
    have hext' : ExtN fs.base.nodes s'.nodes := by rw [hsn]; exact hext
    have hold : CntOK c.exactModels s' fs.cnt := CntOK_ext h hext' (by omega) ti.cnt
    by_cases ha : c.adhoccounting = true
    · obtain ⟨l, hl⟩ := ti.full ha lo hlo
      obtain ⟨hh, hhh⟩ := ti.full ha hi hhi
      have hnew : CN.agree c.exactModels (CN.adhoc c.adhoccountmodels l hh) (naive s' fs.base.nodes.size) := by
        rw [naive_push fs.base s' v lo hi h hsn hlo hhi]
        exact CN.agree_adhoc (by rw [Cfg.exact_of_adhoc ha]; exact id) (ti.cnt lo l hl).2 (ti.cnt hi hh hhh).2
      constructor
      · intro hv; simp only [hv, if_true]
        exact DepsOK_push fs.base s' fs.deps v lo hi h hsn hlo hhi (ti.deps hv)
      · simp only [ha, if_true, hl, hhh]
        exact CntOK_insert hold _ _ (by omega) hnew
      · intro _ t ht
        simp only [ha, if_true, hl, hhh]
        rw [Std.HashMap.getElem?_insert]
        by_cases hk : (fs.base.nodes.size == t) = true
        · rw [if_pos hk]; exact ⟨_, rfl⟩
        · rw [if_neg hk]
          have : fs.base.nodes.size ≠ t := by simpa using hk
          exact ti.full ha t (by simp only at ht; omega)
      · intro hz he t ht2 ht
        have hcm : c.adhoccountmodels = false := by
          simp only [Cfg.exc, Bool.and_eq_true, Bool.not_eq_true'] at he; exact he.2
        simp only [ha, if_true, hl, hhh]
        rw [Std.HashMap.getElem?_insert]
        by_cases hk : (fs.base.nodes.size == t) = true
        · rw [if_pos hk, hcm]
          exact ⟨_, rfl, (CN.adhoc_false_models l hh).1, (CN.adhoc_false_models l hh).2⟩
        · rw [if_neg hk]
          have : fs.base.nodes.size ≠ t := by simpa using hk
          exact ti.zero hz he t ht2 (by simp only at ht; omega)
    · have hexc : c.exc = false := by simp [Cfg.exc, ha]
      constructor
      · intro hv; simp only [hv, if_true]
        exact DepsOK_push fs.base s' fs.deps v lo hi h hsn hlo hhi (ti.deps hv)
      · simp only [ha]; exact hold
      · intro ha'; exact absurd ha' ha
      · intro _ he; rw [hexc] at he; cases he

/-! ### `restrict` -/

theorem scC_eq (c : Cfg) (z : Bool) (fs : FStore) (ti : TabInv c z fs) (t v : Nat) (ht : t < fs.base.nodes.size) :
    (c.variablelist && !(fs.deps.getD t []).contains v) = scOf c fs.base t v := by
  unfold scOf scDeps
  cases hv : c.variablelist with
  | false => rfl
  | true => rw [DepsOK_contains (ti.deps hv) t v ht]

theorem insRes_tab {c : Cfg} {z : Bool} {fs : FStore} (h : TableWF fs.base.nodes) (ti : TabInv c z fs)
    (k : Nat × Nat × Bool) (r : Nat) : TabInv c z (fs.insRes k r) :=
  TabInv_congr h rfl rfl rfl ti
theorem insIte_tab {c : Cfg} {z : Bool} {fs : FStore} (h : TableWF fs.base.nodes) (ti : TabInv c z fs)
    (k : Nat × Nat × Nat) (r : Nat) : TabInv c z (fs.insIte k r) :=
  TabInv_congr h rfl rfl rfl ti

/-- `restrictC c` is, on the base store, exactly `restrictS (scOf c)`, and it keeps the tables exact -/
theorem restrictC_sim (c : Cfg) (z : Bool) : ∀ (fuel : Nat) (fs : FStore) (t v : Nat) (b : Bool),
    FInv c z fs → t < fs.base.nodes.size → t < fuel →
    (restrictC c fuel fs t v b).1.base = (restrictS (scOf c) fuel fs.base t v b).1 ∧
    (restrictC c fuel fs t v b).2 = (restrictS (scOf c) fuel fs.base t v b).2 ∧
    TabInv c z (restrictC c fuel fs t v b).1 := by
  intro fuel
  induction fuel with
  | zero => intro fs t v b _ _ h; omega
  | succ f ih =>
    intro fs t v b inv ht hf
    have w := inv.wf
    obtain ⟨n, hn⟩ := get_of_lt ht
    rw [restrictC, restrictS]
    cases hm : fs.base.resC[(t, v, b)]? with
    | some r => exact ⟨rfl, rfl, inv.tab⟩
    | none =>
      simp only [hn]
      rw [scC_eq c z fs inv.tab t v ht]
      by_cases hs : scOf c fs.base t v = true
      · rw [if_pos hs, if_pos hs]; exact ⟨rfl, rfl, inv.tab⟩
      rw [if_neg hs, if_neg hs]
      by_cases hc1 : n.var > v ∨ n.var ≥ VBOT
      · rw [if_pos hc1, if_pos hc1]; exact ⟨rfl, rfl, inv.tab⟩
      rw [if_neg hc1, if_neg hc1]
      have ht2 : 2 ≤ t := inner_of_not_const w hn (by omega)
      have ⟨_, hlo, hhi, _, _, _⟩ := w.inner t n ht2 hn
      by_cases hc2 : n.var < v
      · rw [if_pos hc2, if_pos hc2]
        simp only
        have hmk := restrictS_mk_table (scOf c) (scOf_sound c) f fs.base t v b n w ht hf hn hm hs hc1 hc2
        have ⟨e1, q1, t1⟩ := ih fs n.lo v b inv (by omega) (by omega)
        have ⟨w1, x1, l1, _, _⟩ := restrictS_spec (scOf c) (scOf_sound c) f fs.base n.lo v b w (by omega) (by omega)
        generalize restrictC c f fs n.lo v b = r1 at *
        generalize restrictS (scOf c) f fs.base n.lo v b = R1 at *
        rw [q1]
        have inv1 : FInv c z r1.1 := ⟨by rw [e1]; exact w1, t1⟩
        have hhi1 : n.hi < R1.1.nodes.size := by have := x1.1; omega
        have ⟨e2, q2, t2⟩ := ih r1.1 n.hi v b inv1 (by rw [e1]; exact hhi1) (by omega)
        rw [e1] at e2 q2
        have ⟨w2, x2, l2, _, _⟩ := restrictS_spec (scOf c) (scOf_sound c) f R1.1 n.hi v b w1 hhi1 (by omega)
        generalize restrictC c f r1.1 n.hi v b = r2 at *
        generalize restrictS (scOf c) f R1.1 n.hi v b = R2 at *
        rw [q2]
        have ⟨e3, q3⟩ := nodeC_base c r2.1 n.var R1.2 R2.2
        have t3 := nodeC_tab c z r2.1 n.var R1.2 R2.2 (by rw [e2]; exact w2.table) t2
          (by rw [e2]; have := x2.1; omega) (by rw [e2]; exact l2)
        rw [e2] at e3 q3
        generalize nodeC c r2.1 n.var R1.2 R2.2 = r3 at *
        refine ⟨?_, q3, ?_⟩
        · simp only [FStore.insRes, e3, q3]
        · exact insRes_tab (by rw [e3]; exact hmk) t3 _ _
      · rw [if_neg hc2, if_neg hc2]
        simp only
        have key : ∀ ch, ch < t →
            ((restrictC c f fs ch v b).1.insRes (t, v, b) (restrictC c f fs ch v b).2).base =
              { (restrictS (scOf c) f fs.base ch v b).1 with
                resC := (restrictS (scOf c) f fs.base ch v b).1.resC.insert (t, v, b) (restrictS (scOf c) f fs.base ch v b).2 } ∧
            (restrictC c f fs ch v b).2 = (restrictS (scOf c) f fs.base ch v b).2 ∧
            TabInv c z ((restrictC c f fs ch v b).1.insRes (t, v, b) (restrictC c f fs ch v b).2) := by
          intro ch hch
          have ⟨e1, q1, t1⟩ := ih fs ch v b inv (by omega) (by omega)
          have ⟨w1, _, _, _, _⟩ := restrictS_spec (scOf c) (scOf_sound c) f fs.base ch v b w (by omega) (by omega)
          refine ⟨by simp only [FStore.insRes, e1, q1], q1, insRes_tab (by rw [e1]; exact w1.table) t1 _ _⟩
        cases b with
        | true => simp only [if_true]; exact key n.hi hhi
        | false => simp only [Bool.false_eq_true, if_false]; exact key n.lo hlo

theorem restrictC_inv (c : Cfg) (z : Bool) (fuel : Nat) (fs : FStore) (t v : Nat) (b : Bool)
    (inv : FInv c z fs) (ht : t < fs.base.nodes.size) (hf : t < fuel) : FInv c z (restrictC c fuel fs t v b).1 := by
  have ⟨e, _, ti⟩ := restrictC_sim c z fuel fs t v b inv ht hf
  have ⟨w1, _, _, _, _⟩ := restrictS_spec (scOf c) (scOf_sound c) fuel fs.base t v b inv.wf ht hf
  exact ⟨by rw [e]; exact w1, ti⟩

/-! ### `if_then_else` -/

/-- `iteCfg c` is, on the base store, exactly `iteS (scOf c)`, and it keeps the tables exact -/
theorem iteCfg_sim (c : Cfg) (z : Bool) : ∀ (fuel : Nat) (fs : FStore) (i t e : Nat),
    FInv c z fs → i < fs.base.nodes.size → t < fs.base.nodes.size → e < fs.base.nodes.size → i + t + e < fuel →
    (iteCfg c fuel fs i t e).1.base = (iteS (scOf c) fuel fs.base i t e).1 ∧
    (iteCfg c fuel fs i t e).2 = (iteS (scOf c) fuel fs.base i t e).2 ∧
    TabInv c z (iteCfg c fuel fs i t e).1 := by
  intro fuel
  induction fuel with
  | zero => intro fs i t e _ _ _ _ h; omega
  | succ f ih =>
    intro fs i t e inv hi ht he hf
    have w := inv.wf
    have hsc := scOf_sound c
    have ⟨mi, mt, me⟩ := minVar_le fs.base i t e
    rw [iteCfg, iteS]
    by_cases c1 : i = 1
    · rw [if_pos c1, if_pos c1]; exact ⟨rfl, rfl, inv.tab⟩
    rw [if_neg c1, if_neg c1]
    by_cases c0 : i = 0
    · rw [if_pos c0, if_pos c0]; exact ⟨rfl, rfl, inv.tab⟩
    rw [if_neg c0, if_neg c0]
    by_cases c2 : t = e
    · rw [if_pos c2, if_pos c2]; exact ⟨rfl, rfl, inv.tab⟩
    rw [if_neg c2, if_neg c2]
    by_cases c3 : t = 1 ∧ e = 0
    · rw [if_pos c3, if_pos c3]; exact ⟨rfl, rfl, inv.tab⟩
    rw [if_neg c3, if_neg c3]
    have hi2 : 2 ≤ i := by omega
    obtain ⟨ni, hni⟩ := get_of_lt hi
    have hvb : minVar fs.base i t e < VBOT := by
      have := (w.inner i ni hi2 hni).1
      have : topVar fs.base i = ni.var := by simp [topVar, hni]
      omega
    cases hm : fs.base.iteC[(i, t, e)]? with
    | some r => exact ⟨rfl, rfl, inv.tab⟩
    | none =>
    simp only
    have hmk := iteS_mk_table (scOf c) hsc f fs.base i t e w hi ht he hf c1 c0 c2 c3 hm
    dsimp only at hmk
    generalize hmv : minVar fs.base i t e = mv at *
    -- six cofactors
    have step : ∀ (gs : FStore) (x : Nat) (b : Bool), FInv c z gs → gs.base.nodes = fs.base.nodes →
        x < fs.base.nodes.size → mv ≤ topVar fs.base x →
        (restrictC c (x+1) gs x mv b).1.base = (restrictS (scOf c) (x+1) gs.base x mv b).1 ∧
        (restrictC c (x+1) gs x mv b).2 = (restrictS (scOf c) (x+1) gs.base x mv b).2 ∧
        FInv c z (restrictC c (x+1) gs x mv b).1 ∧
        (restrictC c (x+1) gs x mv b).1.base.nodes = fs.base.nodes ∧
        (restrictC c (x+1) gs x mv b).2 ≤ x ∧
        (mv = topVar fs.base x → (restrictC c (x+1) gs x mv b).2 < x) := by
      intro gs x b ginv gn hx hle
      have ⟨a1, a2, _⟩ := restrictC_sim c z (x+1) gs x mv b ginv (by rw [gn]; exact hx) (Nat.lt_succ_self _)
      have a3 := restrictC_inv c z (x+1) gs x mv b ginv (by rw [gn]; exact hx) (Nat.lt_succ_self _)
      have tv : ∀ y, topVar gs.base y = topVar fs.base y := topVar_congr gn
      have ⟨_, n1, b1, c1, _, _⟩ := cofS (scOf c) hsc gs.base ginv.wf x mv b (by rw [gn]; exact hx) (by rw [tv]; exact hle) hvb
      rw [tv] at c1
      exact ⟨a1, a2, a3, by rw [a1, n1, gn], by rw [a2]; exact b1, by rw [a2]; exact c1⟩
    have ⟨e1, q1, v1, n1, b1, d1⟩ := step fs i true inv rfl hi mi
    generalize restrictC c (i+1) fs i mv true = r1 at *
    generalize restrictS (scOf c) (i+1) fs.base i mv true = R1 at *
    rw [q1] at b1 d1 ⊢
    have ⟨e2, q2, v2, n2, b2, d2⟩ := step r1.1 t true v1 n1 ht mt
    rw [e1] at e2 q2
    generalize restrictC c (t+1) r1.1 t mv true = r2 at *
    generalize restrictS (scOf c) (t+1) R1.1 t mv true = R2 at *
    rw [q2] at b2 d2 ⊢
    have ⟨e3, q3, v3, n3, b3, d3⟩ := step r2.1 e true v2 n2 he me
    rw [e2] at e3 q3
    generalize restrictC c (e+1) r2.1 e mv true = r3 at *
    generalize restrictS (scOf c) (e+1) R2.1 e mv true = R3 at *
    rw [q3] at b3 d3 ⊢
    have ⟨e4, q4, v4, n4, b4, d4⟩ := step r3.1 i false v3 n3 hi mi
    rw [e3] at e4 q4
    generalize restrictC c (i+1) r3.1 i mv false = r4 at *
    generalize restrictS (scOf c) (i+1) R3.1 i mv false = R4 at *
    rw [q4] at b4 d4 ⊢
    have ⟨e5, q5, v5, n5, b5, d5⟩ := step r4.1 t false v4 n4 ht mt
    rw [e4] at e5 q5
    generalize restrictC c (t+1) r4.1 t mv false = r5 at *
    generalize restrictS (scOf c) (t+1) R4.1 t mv false = R5 at *
    rw [q5] at b5 d5 ⊢
    have ⟨e6, q6, v6, n6, b6, d6⟩ := step r5.1 e false v5 n5 he me
    rw [e5] at e6 q6
    generalize restrictC c (e+1) r5.1 e mv false = r6 at *
    generalize restrictS (scOf c) (e+1) R5.1 e mv false = R6 at *
    rw [q6] at b6 d6 ⊢
    have sz6 : r6.1.base.nodes.size = fs.base.nodes.size := by rw [n6]
    have dec1 : R1.2 + R2.2 + R3.2 < f := by
      rcases minVar_eq fs.base i t e with h | h | h <;> rw [hmv] at h
      · have := d1 h; omega
      · have := d2 h; omega
      · have := d3 h; omega
    have dec2 : R4.2 + R5.2 + R6.2 < f := by
      rcases minVar_eq fs.base i t e with h | h | h <;> rw [hmv] at h
      · have := d4 h; omega
      · have := d5 h; omega
      · have := d6 h; omega
    have ⟨eT, qT, tT⟩ := ih r6.1 R1.2 R2.2 R3.2 v6 (by omega) (by omega) (by omega) dec1
    have ⟨wT, xT, lT, _, _⟩ := iteS_spec (scOf c) hsc f r6.1.base R1.2 R2.2 R3.2 v6.wf (by omega) (by omega) (by omega) dec1
    rw [e6] at eT qT wT xT lT
    generalize iteCfg c f r6.1 R1.2 R2.2 R3.2 = top at *
    generalize iteS (scOf c) f R6.1 R1.2 R2.2 R3.2 = T at *
    rw [qT]
    have invT : FInv c z top.1 := ⟨by rw [eT]; exact wT, tT⟩
    have szT : fs.base.nodes.size ≤ T.1.nodes.size := by
      have := xT.1; rw [← e6] at this; omega
    have ⟨eB, qB, tB⟩ := ih top.1 R4.2 R5.2 R6.2 invT (by rw [eT]; omega) (by rw [eT]; omega) (by rw [eT]; omega) dec2
    have ⟨wB, xB, lB, _, _⟩ := iteS_spec (scOf c) hsc f top.1.base R4.2 R5.2 R6.2 invT.wf
      (by rw [eT]; omega) (by rw [eT]; omega) (by rw [eT]; omega) dec2
    rw [eT] at eB qB wB xB lB
    generalize iteCfg c f top.1 R4.2 R5.2 R6.2 = bot at *
    generalize iteS (scOf c) f T.1 R4.2 R5.2 R6.2 = B at *
    rw [qB]
    have ⟨eM, qM⟩ := nodeC_base c bot.1 mv B.2 T.2
    have tM := nodeC_tab c z bot.1 mv B.2 T.2 (by rw [eB]; exact wB.table) tB
      (by rw [eB]; exact lB) (by rw [eB]; have := xB.1; omega)
    rw [eB] at eM qM
    generalize nodeC c bot.1 mv B.2 T.2 = m at *
    refine ⟨?_, qM, ?_⟩
    · simp only [FStore.insIte, eM, qM]
    · exact insIte_tab (by rw [eM]; exact hmk) tM _ _

theorem iteCfg_inv (c : Cfg) (z : Bool) (fuel : Nat) (fs : FStore) (i t e : Nat) (inv : FInv c z fs)
    (hi : i < fs.base.nodes.size) (ht : t < fs.base.nodes.size) (he : e < fs.base.nodes.size)
    (hf : i + t + e < fuel) : FInv c z (iteCfg c fuel fs i t e).1 := by
  have ⟨e1, _, ti⟩ := iteCfg_sim c z fuel fs i t e inv hi ht he hf
  have ⟨w1, _, _, _, _⟩ := iteS_spec (scOf c) (scOf_sound c) fuel fs.base i t e inv.wf hi ht he hf
  exact ⟨by rw [e1]; exact w1, ti⟩

#print axioms nodeC_tab
#print axioms restrictC_sim
#print axioms iteCfg_sim
