import AdfObdd.ServerProofs
import AdfObdd.ServerCred
/-! C17: requests that merely MENTION an account name are harmless to that account.

`actor` = the identity a request acts for (session cookie; temporary account of an unauthenticated
`add`); `reqNames` = the account names in the payload. A request of somebody else can carry `v`'s
name: `register v …` (taken: 409), `login v …` (a credential check; a wrong password changes
nothing), `update v …` (taken: 409), or an authenticated `add` whose unused random-name proposal
happens to be `v`. None of them changes anything that belongs to an EXISTING account `v`. -/
namespace ServerM
section
variable {T H A R : Type} [DecidableEq T]

/-- `v` is a registered (or temporary) account -/
def hasAccount (v : T) (db : Db T H A R) : Prop := db.users.any (isUser v) = true

/-- everything the database holds under the account name `v`: its user record (credential), its
problems, its entries of the running set -/
abbrev ViewOf (v : T) (d a : Db T H A R) : Prop := DbSim (fun x => decide (x = v)) (fun _ => false) d a

theorem find_of_any {v : T} {l : List (User T H)} (h : l.any (isUser v) = true) :
    ∃ x, l.find? (isUser v) = some x := by
  cases hf : l.find? (isUser v) with
  | some x => exact ⟨x, rfl⟩
  | none =>
    rw [List.find?_eq_none] at hf
    rw [List.any_eq_true] at h
    obtain ⟨x, hx, hp⟩ := h
    exact absurd hp (hf x hx)

theorem any_isUser_filter (v : T) (l : List (User T H)) :
    l.any (isUser v) = (l.filter (fun u => decide (u.username = v))).any (isUser v) := by
  induction l with
  | nil => rfl
  | cons x xs ih =>
    simp only [List.any_cons, List.filter_cons]
    by_cases hx : x.username = v
    · simp [hx, isUser]
    · simp [hx, isUser, ih]

theorem ViewOf.hasAccount {v : T} {d a : Db T H A R} (h : ViewOf v d a) (ha : hasAccount v a) : hasAccount v d := by
  unfold ServerM.hasAccount at *
  rw [any_isUser_filter] at ha ⊢
  rw [h.users]; exact ha

theorem ViewOf.find {v : T} {d a : Db T H A R} (h : ViewOf v d a) :
    d.users.find? (isUser v) = a.users.find? (isUser v) :=
  find_view (fun u : User T H => decide (u.username = v)) _
    (fun x hx => by simpa [isUser] using hx) h.users

theorem ViewOf.problems {v : T} {d a : Db T H A R} (h : ViewOf v d a) :
    d.problems.filter (ownedP v) = a.problems.filter (ownedP v) := h.probs

/-! ### the three requests that name somebody else's account -/

theorem run_reply (s : Nat) (m : Msg T) (db : Db T H A R) :
    run (reply s m : P T H A R) db = (db, ⟨s, .keep, .msg m⟩, []) := rfl

/-- a request whose atomic run returns to the same database -/
theorem step_of_run (E : Env T H A R) (st : State T H A R) (rq : Request T) (r : Resp T R)
    (cs : List (Cmd T H A R))
    (hr : run (handler E rq.jar (st.sess rq.jar) rq.req) st.db = (st.db, r, cs)) :
    (step E st rq).1.db = st.db ∧ (step E st rq).2 = r ∧
    (r.cookie = .keep → (step E st rq).1.sess = st.sess) := by
  have h1 : (step E st rq).1.db = (run (handler E rq.jar (st.sess rq.jar) rq.req) st.db).1 := rfl
  have h2 : (step E st rq).2 = (run (handler E rq.jar (st.sess rq.jar) rq.req) st.db).2.1 := rfl
  have h3 : (step E st rq).1.sess = fun j => if j = rq.jar then
      applyCookie (st.sess rq.jar) (run (handler E rq.jar (st.sess rq.jar) rq.req) st.db).2.1.cookie
      else st.sess j := rfl
  rw [h1, h2, h3, hr]
  refine ⟨rfl, rfl, fun hc => ?_⟩
  funext j
  simp only [hc, applyCookie]
  split
  · rename_i h; rw [h]
  · rfl

/-- `register v …` while `v` exists: nothing happens; with non-empty fields the answer is 409 "name taken" -/
theorem register_taken (E : Env T H A R) (st : State T H A R) (jar : Nat) (v p : T) (salt : Nat)
    (hv : hasAccount v st.db) :
    (step E st ⟨jar, .register v p salt⟩).1.db = st.db ∧
    (step E st ⟨jar, .register v p salt⟩).1.sess = st.sess ∧
    (v ≠ E.emp → p ≠ E.emp → (step E st ⟨jar, .register v p salt⟩).2 = ⟨409, .keep, .msg .nameTaken⟩) := by
  obtain ⟨x, hx⟩ := find_of_any hv
  have key : ∃ r cs, run (handler E jar (st.sess jar) (.register v p salt)) st.db = (st.db, r, cs) ∧
      r.cookie = .keep ∧ (v ≠ E.emp → p ≠ E.emp → r = ⟨409, .keep, .msg .nameTaken⟩) := by
    simp only [handler, hRegister]
    by_cases he : v = E.emp ∨ p = E.emp
    · rw [if_pos he, run_reply]
      exact ⟨_, _, rfl, rfl, fun a b => absurd he (by simp [a, b])⟩
    · rw [if_neg he]
      simp only [run, exec, hx, reply]
      exact ⟨_, _, rfl, rfl, fun _ _ => rfl⟩
  obtain ⟨r, cs, hr, hc, h409⟩ := key
  have ⟨a, b, c⟩ := step_of_run E st ⟨jar, .register v p salt⟩ r cs hr
  exact ⟨a, c hc, fun h1 h2 => by rw [b]; exact h409 h1 h2⟩

/-- `update v …` by a session of another account while `v` exists: nothing happens; with non-empty
fields and a session the answer is 409 "name taken" -/
theorem update_taken (E : Env T H A R) (st : State T H A R) (jar : Nat) (v p : T) (salt : Nat)
    (hv : hasAccount v st.db) (hU : st.sess jar ≠ some v) :
    (step E st ⟨jar, .update v p salt⟩).1.db = st.db ∧
    (step E st ⟨jar, .update v p salt⟩).1.sess = st.sess ∧
    (v ≠ E.emp → p ≠ E.emp → st.sess jar ≠ none →
      (step E st ⟨jar, .update v p salt⟩).2 = ⟨409, .keep, .msg .nameTaken⟩) := by
  obtain ⟨x, hx⟩ := find_of_any hv
  have key : ∃ r cs, run (handler E jar (st.sess jar) (.update v p salt)) st.db = (st.db, r, cs) ∧
      r.cookie = .keep ∧ (v ≠ E.emp → p ≠ E.emp → st.sess jar ≠ none → r = ⟨409, .keep, .msg .nameTaken⟩) := by
    simp only [handler, hUpdate]
    by_cases he : v = E.emp ∨ p = E.emp
    · rw [if_pos he, run_reply]
      exact ⟨_, _, rfl, rfl, fun a b => absurd he (by simp [a, b])⟩
    · rw [if_neg he]
      cases hs : st.sess jar with
      | none =>
        simp only [run_reply]
        exact ⟨_, _, rfl, rfl, fun _ _ h => absurd rfl h⟩
      | some u =>
        have hne : v ≠ u := fun e => hU (by rw [hs, e])
        simp only [if_pos hne, run, exec, hx, reply]
        exact ⟨_, _, rfl, rfl, fun _ _ _ => rfl⟩
  obtain ⟨r, cs, hr, hc, h409⟩ := key
  have ⟨a, b, c⟩ := step_of_run E st ⟨jar, .update v p salt⟩ r cs hr
  exact ⟨a, c hc, fun h1 h2 h3 => by rw [b]; exact h409 h1 h2 h3⟩

/-- `login v …` (from any jar): a credential check only. The database is never changed; unless the
check succeeds (status 200) no session changes either, and it succeeds only with a password that
verifies against `v`'s stored credential -/
theorem login_harmless (E : Env T H A R) (st : State T H A R) (jar : Nat) (v p : T) :
    (step E st ⟨jar, .login v p⟩).1.db = st.db ∧
    ((step E st ⟨jar, .login v p⟩).2.status ≠ 200 → (step E st ⟨jar, .login v p⟩).1.sess = st.sess) ∧
    ((step E st ⟨jar, .login v p⟩).2.status = 200 →
      ∃ x h, st.db.users.find? (isUser v) = some x ∧ x.password = some h ∧ E.verify h p = true) := by
  have key : ∃ r cs, run (handler E jar (st.sess jar) (.login v p)) st.db = (st.db, r, cs) ∧
      (r.status ≠ 200 → r.cookie = .keep) ∧
      (r.status = 200 → ∃ x h, st.db.users.find? (isUser v) = some x ∧ x.password = some h ∧ E.verify h p = true) := by
    simp only [handler, hLogin]
    by_cases he : v = E.emp ∨ p = E.emp
    · rw [if_pos he, run_reply]
      exact ⟨_, _, rfl, fun _ => rfl, fun h => by simp at h⟩
    · rw [if_neg he]
      simp only [run, exec]
      cases hf : st.db.users.find? (isUser v) with
      | none =>
        simp only [run_reply]
        exact ⟨_, _, rfl, fun _ => rfl, fun h => by simp at h⟩
      | some x =>
        simp only
        cases hp : x.password with
        | none =>
          simp only [run_reply]
          exact ⟨_, _, rfl, fun _ => rfl, fun h => by simp at h⟩
        | some h =>
          simp only
          by_cases hver : E.verify h p = true
          · simp only [hver, if_true, run]
            exact ⟨_, _, rfl, fun hne => absurd rfl hne, fun _ => ⟨x, h, rfl, hp, hver⟩⟩
          · have hv' : E.verify h p = false := by simpa using hver
            simp only [hv', Bool.false_eq_true, if_false, run_reply]
            exact ⟨_, _, rfl, fun _ => rfl, fun h => by simp at h⟩
  obtain ⟨r, cs, hr, hc, h200⟩ := key
  have ⟨a, b, c⟩ := step_of_run E st ⟨jar, .login v p⟩ r cs hr
  exact ⟨a, fun h => c (hc (by rw [← b]; exact h)), fun h => h200 (by rw [← b]; exact h)⟩

/-! ### any request that does not act for `v` -/

/-- **a request that does not ACT for `v` — whether or not it mentions `v`'s name — leaves
everything filed under the existing account `v` as it is**: `v`'s user record (so its credential),
`v`'s problems, `v`'s running entries; and `v` still exists afterwards -/
theorem request_not_acting_view (E : Env T H A R) (st : State T H A R) (rq : Request T) (v : T)
    (hv : hasAccount v st.db) (hU : actor (st.sess rq.jar) rq.req ≠ some v) :
    ViewOf v (step E st rq).1.db st.db := by
  by_cases hn : v ∈ reqNames rq.req
  · obtain ⟨jar, req⟩ := rq
    cases req with
    | register u p salt =>
      have : v = u := by simpa [reqNames] using hn
      subst this
      rw [(register_taken E st jar v p salt hv).1]; exact DbSim.refl ..
    | login u p =>
      rw [(login_harmless E st jar u p).1]; exact DbSim.refl ..
    | update u p salt =>
      have : v = u := by simpa [reqNames] using hn
      subst this
      rw [(update_taken E st jar v p salt hv (by simpa [actor] using hU)).1]; exact DbSim.refl ..
    | add name code file parsing fu fp =>
      have hfu : v = fu := by simpa [reqNames] using hn
      subst hfu
      cases hs : st.sess jar with
      | none => exact absurd (by simp [actor, addUser, hs]) hU
      | some u =>
        have huv : u ≠ v := fun e => hU (by simp [actor, addUser, hs, e])
        have h := (handler_shape E jar (st.sess jar) (.add name code file parsing v fp)).mono
          (Q' := CmdIn (fun x => !decide (x = v)) (fun j => !(fun _ => false) j)) (P' := fun _ => True)
          (by
            intro c hc
            simp only [hs, Shape, addUser] at hc
            rcases hc with ⟨h0, _⟩ | ⟨n, h⟩ | ⟨p, h, hp⟩ | ⟨t, h, ht, _⟩
            · cases h0
            · subst h; simp [CmdIn, huv]
            · subst h; simp [CmdIn, hp, huv]
            · subst h; simp [CmdIn, ht, huv])
          (fun _ _ => trivial)
        exact run_out (S := fun x => decide (x = v)) (J := fun _ => false) h st.db
    | _ => simp [reqNames] at hn
  · have h := (handler_owned E rq.jar (st.sess rq.jar) rq.req).mono
      (Q' := CmdIn (fun x => !decide (x = v)) (fun j => !(fun _ => false) j)) (P' := fun _ => True)
      (Owned.cmdIn (S := fun x => !decide (x = v)) (J := fun j => !(fun _ => false) j)
        (by intro u hu; simp only [Bool.not_eq_true', decide_eq_false_iff_not]; intro huv; exact hU (by rw [hu, huv]))
        (by intro n hn'; simp only [Bool.not_eq_true', decide_eq_false_iff_not]; intro hnv; exact hn (hnv ▸ hn'))
        (by rfl))
      (fun _ _ => trivial)
    exact run_out (S := fun x => decide (x = v)) (J := fun _ => false) h st.db

/-! ### events -/

/-- the event acts for `v`: a request whose identity is `v`, or a background-task event of a task
that `v` started -/
def actsFor (v : T) (st : State T H A R) : Event T → Prop
  | .req rq => actor (st.sess rq.jar) rq.req = some v
  | .finish j n => ∃ t, nthOf j n st.db.tasks = some t ∧ t.username = v
  | .write j n => ∃ t, nthOf j n st.db.tasks = some t ∧ t.username = v
  | .timeout j n => ∃ t, nthOf j n st.db.tasks = some t ∧ t.username = v

/-- the event is a request whose payload carries the account name `v` -/
def mentions (v : T) : Event T → Prop
  | .req rq => v ∈ reqNames rq.req
  | _ => False

theorem filter_erase_other (v : T) (i : RInfo T) (hi : i.username ≠ v) (l : List (RInfo T)) :
    (eraseInfo i l).filter (fun x => decide (x.username = v)) = l.filter (fun x => decide (x.username = v)) := by
  unfold eraseInfo
  induction l with
  | nil => rfl
  | cons x xs ih =>
    simp only [List.filter_cons]
    by_cases hx : x.username = v
    · have : isInfo i x = false := by
        simp only [isInfo, Bool.and_eq_false_imp, Bool.and_eq_true, decide_eq_true_eq]
        intro ⟨h1, _⟩; exact absurd (h1 ▸ hx) hi
      simp [this, hx, ih]
    · cases hinfo : isInfo i x <;> simp [hx, ih]

theorem filter_none {α : Type} (l : List α) : l.filter (fun _ => false) = [] := by
  induction l with
  | nil => rfl
  | cons x xs ih => simpa using ih

theorem pSet_view (db : Db T H A R) (u n : T) (w : Write A R) (v : T) (hu : u ≠ v) :
    ViewOf v (exec db (.pSet u n w)).1 db :=
  exec_out (S := fun x => decide (x = v)) (J := fun _ => false) db (.pSet u n w) (by simp [CmdIn, hu])

theorem event_not_acting_view (E : Env T H A R) (st : State T H A R) (e : Event T) (v : T)
    (hv : hasAccount v st.db) (h : ¬ actsFor v st e) : ViewOf v (stepEv E st e).1.db st.db := by
  cases e with
  | req rq => exact request_not_acting_view E st rq v hv h
  | finish j n =>
    simp only [stepEv, dbEv]
    cases ht : nthOf j n st.db.tasks with
    | none => exact DbSim.refl ..
    | some t =>
      simp only
      split
      · exact DbSim.refl ..
      · have hne : t.info.username ≠ v := fun hv' => h ⟨t, ht, hv'⟩
        exact ⟨rfl, rfl, filter_erase_other v t.info hne _, (filter_none _).trans (filter_none _).symm⟩
  | write j n =>
    simp only [stepEv, dbEv]
    cases ht : nthOf j n st.db.tasks with
    | none => exact DbSim.refl ..
    | some t =>
      simp only
      split
      · have hne : t.username ≠ v := fun hv' => h ⟨t, ht, hv'⟩
        have := pSet_view st.db t.username t.name (taskWrite E t.input) v hne
        exact ⟨this.users, this.probs, this.running, (filter_none _).trans (filter_none _).symm⟩
      · exact DbSim.refl ..
  | timeout j n =>
    simp only [stepEv, dbEv]
    cases ht : nthOf j n st.db.tasks with
    | none => exact DbSim.refl ..
    | some t =>
      simp only
      split
      · have hne : t.username ≠ v := fun hv' => h ⟨t, ht, hv'⟩
        have := pSet_view st.db t.username t.name (timeoutWrite t.input) v hne
        exact ⟨this.users, this.probs, this.running, (filter_none _).trans (filter_none _).symm⟩
      · exact DbSim.refl ..

/-- no event of the history ACTS for `v` (events that only mention `v`'s name are allowed) -/
def QuietA (E : Env T H A R) (v : T) : State T H A R → List (Event T) → Prop
  | _, [] => True
  | st, e :: es => ¬ actsFor v st e ∧ QuietA E v (stepEv E st e).1 es

theorem isolation_view (E : Env T H A R) (v : T) : ∀ (es : List (Event T)) (st : State T H A R),
    hasAccount v st.db → QuietA E v st es → ViewOf v (runAll E st es).1.db st.db := by
  intro es
  induction es with
  | nil => intro st _ _; exact DbSim.refl ..
  | cons e es ih =>
    intro st hv h
    simp only [runAll]
    have h1 := event_not_acting_view E st e v hv h.1
    exact (ih _ (h1.hasAccount hv) h.2).trans h1

/-! ### salts -/

/-- a successful `register` stores exactly `hash salt p` for the salt drawn for THAT request -/
theorem register_stores (E : Env T H A R) (st : State T H A R) (jar : Nat) (u p : T) (salt : Nat)
    (h : (step E st ⟨jar, .register u p salt⟩).2.status = 200) :
    (step E st ⟨jar, .register u p salt⟩).1.db.users = st.db.users ++ [⟨u, some (E.hash salt p)⟩] := by
  revert h
  simp only [step, stepT, handler, hRegister]
  split
  · simp [run_reply]
  · simp only [run, exec]
    cases hf : st.db.users.find? (isUser u) with
    | some x => simp [run_reply]
    | none =>
      have hany : st.db.users.any (isUser u) = false := by
        rw [List.any_eq_false]
        intro x hx
        exact List.find?_eq_none.mp hf x hx
      have he : exec st.db (.uInsert ⟨u, some (E.hash salt p)⟩ : Cmd T H A R) =
          ({ st.db with users := st.db.users ++ [⟨u, some (E.hash salt p)⟩] }, true) := by
        simp [exec, hany]
      simp only [run]
      rw [he]
      intro _; rfl

/-- a successful `update` replaces the session's record by `(u', hash salt p')` for the salt drawn
for THAT request -/
theorem update_stores (E : Env T H A R) (st : State T H A R) (jar : Nat) (u' p' : T) (salt : Nat)
    (h : (step E st ⟨jar, .update u' p' salt⟩).2.status = 200) :
    ∃ u, st.sess jar = some u ∧
      (step E st ⟨jar, .update u' p' salt⟩).1.db.users =
        updFirst (isUser u) (fun _ => ⟨u', some (E.hash salt p')⟩) st.db.users := by
  revert h
  simp only [step, stepT, handler, hUpdate]
  split
  · simp [run_reply]
  · cases hs : st.sess jar with
    | none => simp [run_reply]
    | some u =>
      intro h
      refine ⟨u, rfl, ?_⟩
      revert h
      have go : ∀ db : Db T H A R,
          (run (Prog.cmd (Cmd.uReplace u ⟨u', some (E.hash salt p')⟩) fun m =>
            match m with
            | none => (reply 500 .dbError : P T H A R)
            | some 0 => reply 500 .accountNotUpdated
            | some _ => .cmd (.pRename u u') fun _ => .ret ⟨200, .login u', .userInfo u' false⟩) db).2.1.status = 200 →
          (run (Prog.cmd (Cmd.uReplace u ⟨u', some (E.hash salt p')⟩) fun m =>
            match m with
            | none => (reply 500 .dbError : P T H A R)
            | some 0 => reply 500 .accountNotUpdated
            | some _ => .cmd (.pRename u u') fun _ => .ret ⟨200, .login u', .userInfo u' false⟩) db).1.users =
            updFirst (isUser u) (fun _ => ⟨u', some (E.hash salt p')⟩) db.users := by
        intro db
        have hx : exec db (.uReplace u ⟨u', some (E.hash salt p')⟩ : Cmd T H A R) = (db, none) ∨
            exec db (.uReplace u ⟨u', some (E.hash salt p')⟩ : Cmd T H A R) =
              ({ db with users := updFirst (isUser u) (fun _ => ⟨u', some (E.hash salt p')⟩) db.users }, some 1) ∨
            exec db (.uReplace u ⟨u', some (E.hash salt p')⟩ : Cmd T H A R) =
              ({ db with users := updFirst (isUser u) (fun _ => ⟨u', some (E.hash salt p')⟩) db.users }, some 0) := by
          simp only [exec]
          by_cases hc : (decide (u' ≠ u) && db.users.any (isUser u')) = true
          · left; rw [if_pos hc]
          · right
            rw [if_neg hc]
            by_cases ha : db.users.any (isUser u) = true
            · left; rw [if_pos ha]
            · right; rw [if_neg ha]
        simp only [run]
        rcases hx with h | h | h <;> rw [h]
        · simp [run_reply]
        · intro _; rfl
        · simp [run_reply]
      simp only
      split
      · simp only [run, exec]
        cases hf : st.db.users.find? (isUser u') with
        | some x => simp [run_reply]
        | none => exact go st.db
      · exact go st.db

end
end ServerM
