import AdfObdd.FeatureRestrict
/-! C12, `if_then_else`: built on the restrict body with a (sound) shortcut or on the body
    without, it returns the same handle and produces the same node table, from any two
    well-formed stores with the same node table whose ite memos agree (the restrict memos may
    differ arbitrarily — they do, because the shortcut body records fewer entries). -/

/-- the cofactor facts of `cof`, for every sound shortcut (via `restrictS_indep`) -/
theorem cofS (sc : Store → Nat → Nat → Bool) (hsc : ScSound sc) (s : Store) (w : WF s) (t mv : Nat) (b : Bool)
    (ht : t < s.nodes.size) (hv : mv ≤ topVar s t) (hvb : mv < VBOT) :
    WF (restrictS sc (t+1) s t mv b).1 ∧ (restrictS sc (t+1) s t mv b).1.nodes = s.nodes ∧
    (restrictS sc (t+1) s t mv b).2 ≤ t ∧
    (mv = topVar s t → (restrictS sc (t+1) s t mv b).2 < t) ∧ mv < topVar s (restrictS sc (t+1) s t mv b).2 ∧
    (∀ σ, eval s (restrictS sc (t+1) s t mv b).2 σ = eval s t (upd σ mv b)) := by
  have ⟨_, n0, b0, c0, d0, e0⟩ := cof s w t mv b ht hv hvb
  have ⟨hn, hh⟩ := restrictS_indep sc scNone hsc scNone_sound (t+1) s s t mv b w w rfl ht (Nat.lt_succ_self _)
  rw [restrictS_none] at hn hh
  have ⟨w1, _, _, _, _⟩ := restrictS_spec sc hsc (t+1) s t mv b w ht (Nat.lt_succ_self _)
  rw [hh]
  exact ⟨w1, hn.trans n0, b0, c0, d0, e0⟩

theorem iteS_spec (sc : Store → Nat → Nat → Bool) (hsc : ScSound sc) : ∀ (fuel : Nat) (s : Store) (i t e : Nat), WF s →
    i < s.nodes.size → t < s.nodes.size → e < s.nodes.size → i + t + e < fuel →
    WF (iteS sc fuel s i t e).1 ∧ Ext s (iteS sc fuel s i t e).1 ∧
    (iteS sc fuel s i t e).2 < (iteS sc fuel s i t e).1.nodes.size ∧
    minVar s i t e ≤ topVar (iteS sc fuel s i t e).1 (iteS sc fuel s i t e).2 ∧
    (∀ σ, eval (iteS sc fuel s i t e).1 (iteS sc fuel s i t e).2 σ =
      if eval s i σ then eval s t σ else eval s e σ) := by
  intro fuel
  induction fuel with
  | zero => intro s i t e _ _ _ _ h; omega
  | succ f ih =>
    intro s i t e w hi ht he hf
    have ⟨mi, mt, me⟩ := minVar_le s i t e
    rw [iteS]
    by_cases c1 : i = 1
    · rw [if_pos c1]; subst c1
      exact ⟨w, Ext.refl _, ht, mt, fun σ => by simp [eval_one]⟩
    rw [if_neg c1]
    by_cases c0 : i = 0
    · rw [if_pos c0]; subst c0
      exact ⟨w, Ext.refl _, he, me, fun σ => by simp [eval_zero]⟩
    rw [if_neg c0]
    by_cases c2 : t = e
    · rw [if_pos c2]; subst c2
      exact ⟨w, Ext.refl _, ht, mt, fun σ => by split <;> rfl⟩
    rw [if_neg c2]
    by_cases c3 : t = 1 ∧ e = 0
    · rw [if_pos c3]; obtain ⟨rfl, rfl⟩ := c3
      refine ⟨w, Ext.refl _, hi, mi, fun σ => ?_⟩
      simp only [eval_one, eval_zero]; cases eval s i σ <;> rfl
    rw [if_neg c3]
    have hi2 : 2 ≤ i := by omega
    obtain ⟨ni, hni⟩ := get_of_lt hi
    have hvb : minVar s i t e < VBOT := by
      have := (w.inner i ni hi2 hni).1
      have : topVar s i = ni.var := by simp [topVar, hni]
      omega
    cases hm : s.iteC[(i, t, e)]? with
    | some r =>
      simp only
      have ⟨_, _, _, a, g, b⟩ := w.iteOK i t e r hm
      exact ⟨w, Ext.refl _, a, g, b⟩
    | none =>
    simp only
    generalize hmv : minVar s i t e = mv at *
    -- six cofactors; the node table never changes
    have ⟨w1, n1, b1, c1', d1, e1⟩ := cofS sc hsc s w i mv true hi mi hvb
    generalize hs1 : restrictS sc (i+1) s i mv true = R1 at *
    have tv1 : ∀ x, topVar R1.1 x = topVar s x := topVar_congr n1
    have ⟨w2, n2, b2, c2', d2, e2⟩ := cofS sc hsc R1.1 w1 t mv true (by rw [n1]; exact ht) (by rw [tv1]; exact mt) hvb
    generalize hs2 : restrictS sc (t+1) R1.1 t mv true = R2 at *
    have n2' : R2.1.nodes = s.nodes := n2.trans n1
    have tv2 : ∀ x, topVar R2.1 x = topVar s x := topVar_congr n2'
    have ⟨w3, n3, b3, c3', d3, e3⟩ := cofS sc hsc R2.1 w2 e mv true (by rw [n2']; exact he) (by rw [tv2]; exact me) hvb
    generalize hs3 : restrictS sc (e+1) R2.1 e mv true = R3 at *
    have n3' : R3.1.nodes = s.nodes := n3.trans n2'
    have tv3 : ∀ x, topVar R3.1 x = topVar s x := topVar_congr n3'
    have ⟨w4, n4, b4, c4', d4, e4⟩ := cofS sc hsc R3.1 w3 i mv false (by rw [n3']; exact hi) (by rw [tv3]; exact mi) hvb
    generalize hs4 : restrictS sc (i+1) R3.1 i mv false = R4 at *
    have n4' : R4.1.nodes = s.nodes := n4.trans n3'
    have tv4 : ∀ x, topVar R4.1 x = topVar s x := topVar_congr n4'
    have ⟨w5, n5, b5, c5', d5, e5⟩ := cofS sc hsc R4.1 w4 t mv false (by rw [n4']; exact ht) (by rw [tv4]; exact mt) hvb
    generalize hs5 : restrictS sc (t+1) R4.1 t mv false = R5 at *
    have n5' : R5.1.nodes = s.nodes := n5.trans n4'
    have tv5 : ∀ x, topVar R5.1 x = topVar s x := topVar_congr n5'
    have ⟨w6, n6, b6, c6', d6, e6⟩ := cofS sc hsc R5.1 w5 e mv false (by rw [n5']; exact he) (by rw [tv5]; exact me) hvb
    generalize hs6 : restrictS sc (e+1) R5.1 e mv false = R6 at *
    have n6' : R6.1.nodes = s.nodes := n6.trans n5'
    have tv6 : ∀ x, topVar R6.1 x = topVar s x := topVar_congr n6'
    have ev6 : ∀ x σ, eval R6.1 x σ = eval s x σ := fun x σ => eval_congr n6' x σ
    -- transport every fact to `s`
    rw [tv1] at c2' d2; rw [tv2] at c3' d3; rw [tv3] at c4' d4; rw [tv4] at c5' d5; rw [tv5] at c6' d6
    have e2' : ∀ σ, eval s R2.2 σ = eval s t (upd σ mv true) := fun σ => by
      rw [← eval_congr n1, e2, eval_congr n1]
    have e3' : ∀ σ, eval s R3.2 σ = eval s e (upd σ mv true) := fun σ => by
      rw [← eval_congr n2', e3, eval_congr n2']
    have e4' : ∀ σ, eval s R4.2 σ = eval s i (upd σ mv false) := fun σ => by
      rw [← eval_congr n3', e4, eval_congr n3']
    have e5' : ∀ σ, eval s R5.2 σ = eval s t (upd σ mv false) := fun σ => by
      rw [← eval_congr n4', e5, eval_congr n4']
    have e6' : ∀ σ, eval s R6.2 σ = eval s e (upd σ mv false) := fun σ => by
      rw [← eval_congr n5', e6, eval_congr n5']
    have sz6 : R6.1.nodes.size = s.nodes.size := by rw [n6']
    have dec1 : R1.2 + R2.2 + R3.2 < f := by
      rcases minVar_eq s i t e with h | h | h <;> rw [hmv] at h
      · have := c1' h; omega
      · have := c2' h; omega
      · have := c3' h; omega
    have dec2 : R4.2 + R5.2 + R6.2 < f := by
      rcases minVar_eq s i t e with h | h | h <;> rw [hmv] at h
      · have := c4' h; omega
      · have := c5' h; omega
      · have := c6' h; omega
    have ⟨wT, eT, lT, vT, evT⟩ := ih R6.1 R1.2 R2.2 R3.2 w6 (by omega) (by omega) (by omega) dec1
    generalize hT : iteS sc f R6.1 R1.2 R2.2 R3.2 = T at *
    have eTl := eT.1
    have ⟨wB, eB, lB, vB, evB⟩ := ih T.1 R4.2 R5.2 R6.2 wT (by omega) (by omega) (by omega) dec2
    generalize hB : iteS sc f T.1 R4.2 R5.2 R6.2 = B at *
    have eBl := eB.1
    have hvT : mv < topVar B.1 T.2 := by
      rw [topVar_ext eB _ lT]
      have : mv < minVar R6.1 R1.2 R2.2 R3.2 := by simp only [minVar, tv6]; omega
      omega
    have hvB : mv < topVar B.1 B.2 := by
      have h4 : topVar T.1 R4.2 = topVar s R4.2 := by rw [topVar_ext eT _ (by omega), tv6]
      have h5 : topVar T.1 R5.2 = topVar s R5.2 := by rw [topVar_ext eT _ (by omega), tv6]
      have h6 : topVar T.1 R6.2 = topVar s R6.2 := by rw [topVar_ext eT _ (by omega), tv6]
      have : mv < minVar T.1 R4.2 R5.2 R6.2 := by simp only [minVar, h4, h5, h6]; omega
      omega
    have ⟨wM, eM, lM, vM, evM⟩ := mkNode_spec B.1 wB mv B.2 T.2 lB (by omega) hvb hvB hvT
    generalize hM : mkNode B.1 mv B.2 T.2 = M at *
    have e6s : Ext s R6.1 := Ext_of_nodes n6'
    have eAll : Ext s M.1 := ((e6s.trans eT).trans eB).trans eM
    have evR : ∀ σ, eval M.1 M.2 σ = if eval s i σ then eval s t σ else eval s e σ := by
      intro σ
      rw [evM]
      cases hσ : σ mv with
      | true =>
        simp only [if_true]
        rw [eval_ext wT eB _ σ lT, evT, ev6, ev6, ev6, e1, e2', e3', upd_self hσ]
      | false =>
        simp only [Bool.false_eq_true, if_false]
        rw [evB, eval_ext w6 eT _ σ (by omega), eval_ext w6 eT _ σ (by omega),
            eval_ext w6 eT _ σ (by omega), ev6, ev6, ev6, e4', e5', e6', upd_self hσ]
    have sM := eAll.1
    have ⟨w7, e7⟩ := WF_insert_ite M.1 wM i t e M.2 (by omega) (by omega) (by omega) lM
      (by simp only [minVar]; rw [topVar_ext eAll i hi, topVar_ext eAll t ht, topVar_ext eAll e he]
          have := hmv; simp only [minVar] at this; omega)
      (by intro σ; rw [evR σ, eval_ext w eAll i σ hi, eval_ext w eAll t σ ht, eval_ext w eAll e σ he])
    exact ⟨w7, eAll.trans e7, lM, vM, evR⟩


/-- the node table just before the final memo insertion of a missed `ite` call is structurally
well formed (read off the specification of the whole call) -/
theorem iteS_mk_table (sc : Store → Nat → Nat → Bool) (hsc : ScSound sc) (f : Nat) (s : Store) (i t e : Nat)
    (w : WF s) (hi : i < s.nodes.size) (ht : t < s.nodes.size) (he : e < s.nodes.size) (hf : i + t + e < f + 1)
    (c1 : ¬ i = 1) (c0 : ¬ i = 0) (c2 : ¬ t = e) (c3 : ¬ (t = 1 ∧ e = 0)) (hm : s.iteC[(i, t, e)]? = none) :
    let mv := minVar s i t e
    let r1 := restrictS sc (i+1) s i mv true
    let r2 := restrictS sc (t+1) r1.1 t mv true
    let r3 := restrictS sc (e+1) r2.1 e mv true
    let r4 := restrictS sc (i+1) r3.1 i mv false
    let r5 := restrictS sc (t+1) r4.1 t mv false
    let r6 := restrictS sc (e+1) r5.1 e mv false
    let top := iteS sc f r6.1 r1.2 r2.2 r3.2
    let bot := iteS sc f top.1 r4.2 r5.2 r6.2
    TableWF (mkNode bot.1 mv bot.2 top.2).1.nodes := by
  intro mv r1 r2 r3 r4 r5 r6 top bot
  have hfin := (iteS_spec sc hsc (f+1) s i t e w hi ht he hf).1
  rw [iteS, if_neg c1, if_neg c0, if_neg c2, if_neg c3, hm] at hfin
  exact hfin.table

/-! ### independence -/

/-- the two ite memos answer every lookup alike -/
def IteAgree (s s' : Store) : Prop := ∀ k : Nat × Nat × Nat, s.iteC[k]? = s'.iteC[k]?

theorem IteAgree.refl (s : Store) : IteAgree s s := fun _ => rfl

theorem mkNode_iteC (s : Store) (v lo hi : Nat) : (mkNode s v lo hi).1.iteC = s.iteC := by
  unfold mkNode; split
  · rfl
  · split <;> rfl

/-- one cofactor step on a pair of stores that share the node table of `s0` -/
theorem cof_pair (sc sc' : Store → Nat → Nat → Bool) (hsc : ScSound sc) (hsc' : ScSound sc')
    (s s' s0 : Store) (w : WF s) (w' : WF s') (hn : s.nodes = s0.nodes) (hn' : s'.nodes = s0.nodes)
    (t mv : Nat) (b : Bool) (ht : t < s0.nodes.size) (hv : mv ≤ topVar s0 t) (hvb : mv < VBOT) :
    WF (restrictS sc (t+1) s t mv b).1 ∧ WF (restrictS sc' (t+1) s' t mv b).1 ∧
    (restrictS sc (t+1) s t mv b).1.nodes = s0.nodes ∧ (restrictS sc' (t+1) s' t mv b).1.nodes = s0.nodes ∧
    (restrictS sc (t+1) s t mv b).1.iteC = s.iteC ∧ (restrictS sc' (t+1) s' t mv b).1.iteC = s'.iteC ∧
    (restrictS sc' (t+1) s' t mv b).2 = (restrictS sc (t+1) s t mv b).2 ∧
    (restrictS sc (t+1) s t mv b).2 ≤ t ∧
    (mv = topVar s0 t → (restrictS sc (t+1) s t mv b).2 < t) ∧
    mv < topVar s0 (restrictS sc (t+1) s t mv b).2 := by
  have tv : ∀ x, topVar s x = topVar s0 x := topVar_congr hn
  have tv' : ∀ x, topVar s' x = topVar s0 x := topVar_congr hn'
  have ⟨w1, n1, b1, c1, d1, _⟩ := cofS sc hsc s w t mv b (by rw [hn]; exact ht) (by rw [tv]; exact hv) hvb
  have ⟨w1', n1', _, _, _, _⟩ := cofS sc' hsc' s' w' t mv b (by rw [hn']; exact ht) (by rw [tv']; exact hv) hvb
  have ⟨_, q⟩ := restrictS_indep sc sc' hsc hsc' (t+1) s s' t mv b w w' (hn.trans hn'.symm)
    (by rw [hn]; exact ht) (Nat.lt_succ_self _)
  rw [tv] at c1 d1
  exact ⟨w1, w1', n1.trans hn, n1'.trans hn', restrictS_iteC sc _ _ _ _ _, restrictS_iteC sc' _ _ _ _ _,
    q.symm, b1, c1, d1⟩

theorem iteS_indep (sc sc' : Store → Nat → Nat → Bool) (hsc : ScSound sc) (hsc' : ScSound sc') :
    ∀ (fuel : Nat) (s s' : Store) (i t e : Nat), WF s → WF s' → s.nodes = s'.nodes → IteAgree s s' →
    i < s.nodes.size → t < s.nodes.size → e < s.nodes.size → i + t + e < fuel →
    (iteS sc fuel s i t e).1.nodes = (iteS sc' fuel s' i t e).1.nodes ∧
    (iteS sc fuel s i t e).2 = (iteS sc' fuel s' i t e).2 ∧
    IteAgree (iteS sc fuel s i t e).1 (iteS sc' fuel s' i t e).1 := by
  intro fuel
  induction fuel with
  | zero => intro s s' i t e _ _ _ _ _ _ _ h; omega
  | succ f ih =>
    intro s s' i t e w w' hnn hag hi ht he hf
    have ⟨mi, mt, me⟩ := minVar_le s i t e
    rw [iteS, iteS]
    by_cases c1 : i = 1
    · rw [if_pos c1, if_pos c1]; exact ⟨hnn, rfl, hag⟩
    rw [if_neg c1, if_neg c1]
    by_cases c0 : i = 0
    · rw [if_pos c0, if_pos c0]; exact ⟨hnn, rfl, hag⟩
    rw [if_neg c0, if_neg c0]
    by_cases c2 : t = e
    · rw [if_pos c2, if_pos c2]; exact ⟨hnn, rfl, hag⟩
    rw [if_neg c2, if_neg c2]
    by_cases c3 : t = 1 ∧ e = 0
    · rw [if_pos c3, if_pos c3]; exact ⟨hnn, rfl, hag⟩
    rw [if_neg c3, if_neg c3]
    have hi2 : 2 ≤ i := by omega
    obtain ⟨ni, hni⟩ := get_of_lt hi
    have hvb : minVar s i t e < VBOT := by
      have := (w.inner i ni hi2 hni).1
      have : topVar s i = ni.var := by simp [topVar, hni]
      omega
    rw [← hag (i, t, e)]
    cases hm : s.iteC[(i, t, e)]? with
    | some r => exact ⟨hnn, rfl, hag⟩
    | none =>
    simp only
    have hmv' : minVar s' i t e = minVar s i t e := by
      simp only [minVar, topVar_congr hnn.symm]
    rw [hmv']
    generalize hmv : minVar s i t e = mv at *
    have ⟨w1, w1', n1, n1', i1, i1', q1, b1, c1', d1⟩ :=
      cof_pair sc sc' hsc hsc' s s' s w w' rfl hnn.symm i mv true hi mi hvb
    generalize restrictS sc (i+1) s i mv true = R1 at *
    generalize restrictS sc' (i+1) s' i mv true = R1' at *
    have ⟨w2, w2', n2, n2', i2, i2', q2, b2, c2', d2⟩ :=
      cof_pair sc sc' hsc hsc' R1.1 R1'.1 s w1 w1' n1 n1' t mv true ht mt hvb
    generalize restrictS sc (t+1) R1.1 t mv true = R2 at *
    generalize restrictS sc' (t+1) R1'.1 t mv true = R2' at *
    have ⟨w3, w3', n3, n3', i3, i3', q3, b3, c3', d3⟩ :=
      cof_pair sc sc' hsc hsc' R2.1 R2'.1 s w2 w2' n2 n2' e mv true he me hvb
    generalize restrictS sc (e+1) R2.1 e mv true = R3 at *
    generalize restrictS sc' (e+1) R2'.1 e mv true = R3' at *
    have ⟨w4, w4', n4, n4', i4, i4', q4, b4, c4', d4⟩ :=
      cof_pair sc sc' hsc hsc' R3.1 R3'.1 s w3 w3' n3 n3' i mv false hi mi hvb
    generalize restrictS sc (i+1) R3.1 i mv false = R4 at *
    generalize restrictS sc' (i+1) R3'.1 i mv false = R4' at *
    have ⟨w5, w5', n5, n5', i5, i5', q5, b5, c5', d5⟩ :=
      cof_pair sc sc' hsc hsc' R4.1 R4'.1 s w4 w4' n4 n4' t mv false ht mt hvb
    generalize restrictS sc (t+1) R4.1 t mv false = R5 at *
    generalize restrictS sc' (t+1) R4'.1 t mv false = R5' at *
    have ⟨w6, w6', n6, n6', i6, i6', q6, b6, c6', d6⟩ :=
      cof_pair sc sc' hsc hsc' R5.1 R5'.1 s w5 w5' n5 n5' e mv false he me hvb
    generalize restrictS sc (e+1) R5.1 e mv false = R6 at *
    generalize restrictS sc' (e+1) R5'.1 e mv false = R6' at *
    rw [q1, q2, q3, q4, q5, q6]
    have hag6 : IteAgree R6.1 R6'.1 := by
      intro k
      rw [i6, i5, i4, i3, i2, i1, i6', i5', i4', i3', i2', i1']; exact hag k
    have sz6 : R6.1.nodes.size = s.nodes.size := by rw [n6]
    have sz6' : R6'.1.nodes.size = s.nodes.size := by rw [n6']
    have dec1 : R1.2 + R2.2 + R3.2 < f := by
      rcases minVar_eq s i t e with h | h | h <;> rw [hmv] at h
      · have := c1' h; omega
      · have := c2' h; omega
      · have := c3' h; omega
    have dec2 : R4.2 + R5.2 + R6.2 < f := by
      rcases minVar_eq s i t e with h | h | h <;> rw [hmv] at h
      · have := c4' h; omega
      · have := c5' h; omega
      · have := c6' h; omega
    have ⟨nT, qT, aT⟩ := ih R6.1 R6'.1 R1.2 R2.2 R3.2 w6 w6' (n6.trans n6'.symm) hag6
      (by omega) (by omega) (by omega) dec1
    have ⟨wT, eT, _, _, _⟩ := iteS_spec sc hsc f R6.1 R1.2 R2.2 R3.2 w6 (by omega) (by omega) (by omega) dec1
    have ⟨wT', _, _, _, _⟩ := iteS_spec sc' hsc' f R6'.1 R1.2 R2.2 R3.2 w6' (by omega) (by omega) (by omega) dec1
    generalize iteS sc f R6.1 R1.2 R2.2 R3.2 = T at *
    generalize iteS sc' f R6'.1 R1.2 R2.2 R3.2 = T' at *
    have eTl := eT.1
    have szT' : T'.1.nodes.size = T.1.nodes.size := by rw [nT]
    have ⟨nB, qB, aB⟩ := ih T.1 T'.1 R4.2 R5.2 R6.2 wT wT' nT aT (by omega) (by omega) (by omega) dec2
    have ⟨wB, _, _, _, _⟩ := iteS_spec sc hsc f T.1 R4.2 R5.2 R6.2 wT (by omega) (by omega) (by omega) dec2
    have ⟨wB', _, _, _, _⟩ := iteS_spec sc' hsc' f T'.1 R4.2 R5.2 R6.2 wT' (by omega) (by omega) (by omega) dec2
    generalize iteS sc f T.1 R4.2 R5.2 R6.2 = B at *
    generalize iteS sc' f T'.1 R4.2 R5.2 R6.2 = B' at *
    rw [← qT, ← qB]
    have ⟨nM, qM⟩ := mkNode_congr wB wB' nB mv B.2 T.2
    refine ⟨nM, qM, ?_⟩
    intro k
    simp only [Std.HashMap.getElem?_insert, mkNode_iteC, qM]
    split
    · rfl
    · exact aB k

#print axioms iteS_spec
#print axioms iteS_indep
