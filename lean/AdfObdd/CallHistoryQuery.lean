import AdfObdd.CallHistoryProofs
import AdfObdd.Props.C13
import AdfObdd.NgOrder
/-! # Call histories: what a QUERY answers, and ORDER of the enumerations across histories (C11)

* `CallH.Exact … (.query _ _) := True` says nothing about queries.  `ExactQuery` gives the content: the
  numbers of `models / paths / max_depth / var_dependencies` of the condition of statement `i` are the
  truth-table-level numbers (`TT.sat / TT.unsat / TT.depth / TT.paths / TT.deps`, Spec/TT.lean) of ANY truth
  table `tt` over ANY `nv` variables that represents the condition's FUNCTION (`TT.Rep`), provided the function
  looks at the variables below `nv` only (`TT.DetBy`) - via the C13 exactness theorems.
* `stable` / `stable_with_prefilter` enumerate `TwoValuedInterpretationsIterator` over the grounded vector and
  keep the candidates that pass a test; both the candidates (vectors of the handles 0 / 1, a function of the
  DECIDED part of the grounded vector) and the verdict (a function of the conditions' functions) are
  independent of the diagrams: the ANSWER LISTS of two objects whose conditions denote the same functions are
  EQUAL (same vectors, same order) - `stable_order_independent`. -/
namespace CallH

/-! ## queries -/

/-- what the numbers of a query must be, in terms of a truth table `tt` over `nv` variables -/
def QuerySpec (nv tt : Nat) : Query → List Nat → Prop
  | .models, l => ∃ cm m, l = [cm, m] ∧ m * 2 ^ nv = TT.sat nv tt * 2 ^ TT.depth nv tt ∧
      cm * 2 ^ nv = TT.unsat nv tt * 2 ^ TT.depth nv tt
  | .paths, l => l = [(TT.paths nv tt).1, (TT.paths nv tt).2]
  | .depth, l => l = [TT.depth nv tt]
  | .deps, l => ∀ x, x ∈ l ↔ x ∈ TT.deps nv tt

theorem deps_lt_of_detBy (s : Store) (w : WF s) (t nv : Nat) (ht : t < s.nodes.size)
    (hdet : TT.DetBy nv (eval s t)) : ∀ x ∈ depsF s (t+1) t, x < nv := by
  intro x hx
  obtain ⟨σ, hσ⟩ := (deps_exact s w t x ht).mp hx
  false_or_by_contra
  rename_i hge
  apply hσ
  apply hdet
  intro y hy
  have : y ≠ x := by omega
  simp [upd, this]

/-- a query on a valid handle answers the truth-table-level numbers of the handle's function -/
theorem runQuery_exact (s : Store) (w : WF s) (t : Nat) (ht : t < s.nodes.size) (nv tt : Nat)
    (hrep : TT.Rep nv tt (eval s t)) (hdet : TT.DetBy nv (eval s t)) (q : Query) :
    QuerySpec nv tt q (runQuery s t q) := by
  have hdeps := deps_lt_of_detBy s w t nv ht hdet
  have ⟨c1, c2, c3⟩ := C13.counts_vs_truth_table s w t ht nv tt hrep hdeps
  have hd := C13.depth_vs_truth_table s w t ht nv tt hrep hdeps
  have hp := (C13.paths_vs_truth_table s w t ht nv tt hrep hdeps).2
  cases q with
  | models => exact ⟨_, _, rfl, by rw [hd]; exact c1, by rw [hd]; exact c2⟩
  | paths => simp only [QuerySpec, runQuery]; rw [hp]
  | depth => simp only [QuerySpec, runQuery]; rw [hd]
  | deps => exact c3

/-- **what the answer of a query must be**, as a function of the functions `D` of the conditions: a list of
numbers that meets `QuerySpec` for every truth table representing `D[i]`; a statement index out of range is
rejected -/
def ExactQuery (D : List BoolFn) (i : Nat) (q : Query) : Answer → Prop
  | .nums l => i < D.length ∧ ∀ nv tt, TT.Rep nv tt (D.getD i (fun _ => false)) →
      TT.DetBy nv (D.getD i (fun _ => false)) → QuerySpec nv tt q l
  | .rejected => ¬ i < D.length
  | _ => False

theorem query_exact (st : AdfState) (hi : Inv st) (i : Nat) (q : Query) :
    ExactQuery (st.ac.map (eval st.s)) i q (runCall st (.query i q)).2 := by
  simp only [runCall]
  by_cases hlt : i < st.ac.length
  · rw [if_pos hlt]
    have hv : st.ac.getD i 0 < st.s.nodes.size := by
      apply hi.ac
      rw [List.getD_eq_getElem?_getD, List.getElem?_eq_getElem hlt]
      exact List.getElem_mem hlt
    have hD : (st.ac.map (eval st.s)).getD i (fun _ => false) = eval st.s (st.ac.getD i 0) := by
      simp [List.getD_eq_getElem?_getD, List.getElem?_eq_getElem hlt]
    refine ⟨by simpa using hlt, ?_⟩
    intro nv tt hrep hdet
    rw [hD] at hrep hdet
    exact runQuery_exact st.s hi.wf _ hv nv tt hrep hdet q
  · rw [if_neg hlt]
    show ¬ i < (st.ac.map (eval st.s)).length
    simpa using hlt

/-- after any history on the freshly built object a query answers the truth-table-level numbers of the
WRITTEN condition -/
theorem query_exact_after_history_from_formulas (fms : List Fm) (hn : fms.length ≤ VBOT)
    (hv : ∀ f ∈ fms, NConc.atomsLt fms.length f) (h : List Call) (i : Nat) (q : Query) :
    ExactQuery (fms.map Fm.sem) i q (answerAfter (freshAdf fms) h (.query i q)) := by
  have hok : ∀ f ∈ fms, f.atomsOK := fun f hf => NConc.atomsOK_of_lt hn f (hv f hf)
  have ⟨hi, hd⟩ := fresh_inv fms hn hok
  have ⟨hi', stp⟩ := runCalls_inv h _ hi
  have e1 := query_exact _ hi' i q
  rw [stp.den_same hi, hd] at e1
  exact e1

/-- a written condition looks at the statements only, so `nv := number of statements` is admissible -/
theorem sem_detBy (fms : List Fm) (hv : ∀ f ∈ fms, NConc.atomsLt fms.length f) (i : Nat) :
    TT.DetBy fms.length ((fms.map Fm.sem).getD i (fun _ => false)) := by
  intro σ σ' hag
  by_cases hlt : i < fms.length
  · have : (fms.map Fm.sem).getD i (fun _ => false) = fms[i].sem := by
      simp [List.getD_eq_getElem?_getD, List.getElem?_eq_getElem hlt]
    rw [this]
    exact NConc.sem_supp _ (hv _ (List.getElem_mem hlt)) σ σ' hag
  · have : (fms.map Fm.sem).getD i (fun _ => false) = fun _ => false := by
      simp [List.getD_eq_getElem?_getD, List.getElem?_eq_none (by simpa using hlt : fms.length ≤ i)]
    rw [this]

/-! ## order of `stable` / `stable_with_prefilter` across histories -/

/-- the two-valued candidates as a function of the decided part of the grounded vector -/
def twoValOf (d : I3) : List (List Nat) :=
  let idxs := ((List.range d.length).filter (fun i => !(d.getD i (some false)).isSome)).reverse
  let start := d.map (fun o => match o with | some true => 1 | _ => 0)
  Iter2M.collectFrom idxs (2 ^ idxs.length) start

theorem isTV_eq (t : Nat) : isTV t = (storeIsConst t).isSome := by
  unfold isTV storeIsConst
  by_cases h0 : t = 0
  · subst h0; rfl
  · by_cases h1 : t = 1
    · subst h1; rfl
    · simp only [h0, h1, if_false, Option.isSome_none]
      simp; omega

theorem twoValAll_eq (v : List Nat) : twoValAll v = twoValOf (v.map storeIsConst) := by
  unfold twoValAll twoValOf
  have h1 : (fun i => !isTV (v.getD i 0)) = (fun i => !((v.map storeIsConst).getD i (some false)).isSome) := by
    funext i
    rw [isTV_eq]
    congr 2
    have : (some false : Option Bool) = storeIsConst 0 := rfl
    rw [this]
    simp only [List.getD_eq_getElem?_getD, List.getElem?_map]
    cases v[i]? <;> rfl
  have h2 : v.map (fun t => if isTV t then t else 0) =
      (v.map storeIsConst).map (fun o => match o with | some true => 1 | _ => 0) := by
    rw [List.map_map]
    apply List.map_congr_left
    intro t _
    simp only [Function.comp]
    unfold isTV storeIsConst
    by_cases h0 : t = 0
    · subst h0; rfl
    · by_cases h1 : t = 1
      · subst h1; rfl
      · simp only [h0, h1, if_false]
        have : ¬ t < 2 := by omega
        simp [this]
  simp only [List.length_map, h1, h2]

/-- **`stable` and `stable_with_prefilter` list the same vectors in the same order on every object whose
conditions denote the same functions** (e.g. after any history vs. freshly built): the answer lists are EQUAL -/
theorem stable_order_independent (s s' : Store) (n : Nat) (ac ac' : List Nat) (w : WF s) (w' : WF s')
    (hl : ac.length = n) (hl' : ac'.length = n)
    (hv : ∀ t ∈ ac, t < s.nodes.size) (hv' : ∀ t ∈ ac', t < s'.nodes.size)
    (hsame : ac.map (eval s) = ac'.map (eval s')) :
    (stableAll s n ac).2 = (stableAll s' n ac').2 ∧ (Cli.stablePre s n ac).2 = (Cli.stablePre s' n ac').2 := by
  have hg : (groundedLoop StoreRA (n + 1) s ac).2.map storeIsConst =
      (groundedLoop StoreRA (n + 1) s' ac').2.map storeIsConst := by
    have a := isLfp_of_native s n ac w hl hv
    have b := isLfp_of_native s' n ac' w' hl' hv'
    rw [← hsame] at b
    exact isLfp_unique a b
  rw [(StableExact.stableAll_filter s n ac w hl hv).2, (StableExact.stableAll_filter s' n ac' w' hl' hv').2,
    (StableExact.stablePre_filter s n ac w hl hv).2, (StableExact.stablePre_filter s' n ac' w' hl' hv').2,
    twoValAll_eq, twoValAll_eq, hg, hsame]
  exact ⟨rfl, rfl⟩

/-- on one object: the answers of `stable` / `stablePre` after ANY history are EQUAL (as lists of vectors) to
the answers before it -/
theorem stable_answers_equal_after_history (st : AdfState) (hi : Inv st) (h : List Call) :
    answerAfter st h .stable = (runCall st .stable).2 ∧ answerAfter st h .stablePre = (runCall st .stablePre).2 := by
  have ⟨hi', stp⟩ := runCalls_inv h st hi
  have hd := stp.den_same hi
  have := stable_order_independent (runCalls st h).1.s st.s st.n (runCalls st h).1.ac st.ac hi'.wf hi.wf
    (by rw [← stp.n]; exact hi'.len) hi.len hi'.ac hi.ac hd
  simp only [answerAfter, runCall, stp.n]
  exact ⟨by rw [this.1], by rw [this.2]⟩

/-! ## order of `complete` across histories -/

open CompleteExact IterFull in
/-- the list `Adf::complete` returns is the three-valued iterator over the grounded vector, filtered by
"decided part is a fixpoint of Γ" (extracted from the proof of `CompleteExact.completeAll_exact`) -/
theorem completeAll_filter (s : Store) (n : Nat) (ac : List Nat) (hw : WF s) (hn : ac.length = n)
    (hv : ∀ t ∈ ac, t < s.nodes.size) :
    ∃ p : List Nat → Bool,
      (completeAll s n ac).2.2 = (threeValAll (groundedLoop StoreRA (n + 1) s ac).2).filter p ∧
      ∀ v ∈ threeValAll (groundedLoop StoreRA (n + 1) s ac).2,
        (p v = true ↔ Gam (ac.map (eval s)) (v.map storeIsConst) = v.map storeIsConst) := by
  obtain ⟨gi, gle, gv, _⟩ := groundedLoop_sem StoreRA (n+1) s ac hw hv
  obtain ⟨gfix, gleast⟩ := grounded_native (n+1) s ac hw hv (by omega)
  generalize hg : groundedLoop StoreRA (n+1) s ac = g at gi gle gv gfix gleast
  have hglen : g.2.length = n := by
    have := congrArg List.length gfix
    simpa [Gam, hn] using this.symm
  have hac : AllValid StoreRA g.1 ac := AllValid.mono StoreRA hv gle
  have hD : ac.map (StoreRA.den g.1) = ac.map (eval s) := map_den_mono StoreRA hw gle hv
  have hvs : ∀ v ∈ threeValAll g.2, AllValid StoreRA g.1 v ∧ ac.length = v.length := by
    intro v hv'
    have hr := (mem_enum3_iff_refinement g.2 v).mp (by rw [← threeValAll_eq_enum3]; exact hv')
    exact ⟨refinement_valid g.1 gi.len g.2 v gv hr, by rw [hr.1, hglen, hn]⟩
  have key := fold_spec StoreRA g.1 ac gi hac (threeValAll g.2) (g.1, []) hvs gi (Ext.refl _)
  refine ⟨fun v => (completeCheck StoreRA g.1 v ac v).2, ?_, ?_⟩
  · have := key.2.2
    simp only [List.nil_append] at this
    rw [← this, ← hg]; rfl
  · intro v hv'
    have ⟨a, b⟩ := hvs v hv'
    have := complete_filter_iff StoreRA g.1 ac v gi hac a b
    rw [hD] at this
    exact this

/-- the decided parts of the three-valued candidates as a function of the decided part of the vector -/
def threeValOf (d : I3) : List I3 :=
  let idxs := ((List.range d.length).filter (fun i => !(d.getD i (some false)).isSome)).reverse
  let digs := Iter3M.collect3 (3 ^ idxs.length) (List.replicate idxs.length 2)
  digs.map (fun ds =>
    (ds.zip idxs).foldl (fun acc (dp : Nat × Nat) =>
      acc.set dp.2 (match dp.1 with | 0 => some false | 1 => some true | _ => d.getD dp.2 (some false))) d)

theorem getD_map_sic (v : List Nat) (i : Nat) :
    (v.map storeIsConst).getD i (some false) = storeIsConst (v.getD i 0) := by
  simp only [List.getD_eq_getElem?_getD, List.getElem?_map]
  cases v[i]? <;> rfl

theorem foldl_set_map (v : List Nat) : ∀ (l : List (Nat × Nat)) (acc : List Nat),
    (l.foldl (fun acc (dp : Nat × Nat) =>
        acc.set dp.2 (match dp.1 with | 0 => 0 | 1 => 1 | _ => v.getD dp.2 0)) acc).map storeIsConst =
    l.foldl (fun acc (dp : Nat × Nat) =>
        acc.set dp.2 (match dp.1 with | 0 => some false | 1 => some true | _ => (v.map storeIsConst).getD dp.2 (some false)))
      (acc.map storeIsConst) := by
  intro l
  induction l with
  | nil => intro acc; rfl
  | cons x xs ih =>
    intro acc
    simp only [List.foldl_cons]
    rw [ih]
    congr 1
    rw [List.map_set]
    congr 1
    obtain ⟨d, pos⟩ := x
    simp only
    match d with
    | 0 => rfl
    | 1 => rfl
    | k + 2 => simp only; rw [getD_map_sic]

theorem threeValAll_dec (v : List Nat) :
    (threeValAll v).map (fun x => x.map storeIsConst) = threeValOf (v.map storeIsConst) := by
  unfold threeValAll threeValOf
  have h1 : (fun i => !isTV (v.getD i 0)) = (fun i => !((v.map storeIsConst).getD i (some false)).isSome) := by
    funext i
    rw [isTV_eq, getD_map_sic]
  simp only [List.length_map, h1, List.map_map]
  apply List.map_congr_left
  intro ds _
  simp only [Function.comp]
  exact foldl_set_map v _ v

open Classical in
/-- **`complete` lists the same decided parts in the same order on every object whose conditions denote the
same functions** -/
theorem complete_order_independent (s s' : Store) (n : Nat) (ac ac' : List Nat) (w : WF s) (w' : WF s')
    (hl : ac.length = n) (hl' : ac'.length = n)
    (hv : ∀ t ∈ ac, t < s.nodes.size) (hv' : ∀ t ∈ ac', t < s'.nodes.size)
    (hsame : ac.map (eval s) = ac'.map (eval s')) :
    dec (completeAll s n ac).2.2 = dec (completeAll s' n ac').2.2 := by
  have hg : (groundedLoop StoreRA (n + 1) s ac).2.map storeIsConst =
      (groundedLoop StoreRA (n + 1) s' ac').2.map storeIsConst := by
    have a := isLfp_of_native s n ac w hl hv
    have b := isLfp_of_native s' n ac' w' hl' hv'
    rw [← hsame] at b
    exact isLfp_unique a b
  have key : ∀ (s : Store) (ac : List Nat), WF s → ac.length = n → (∀ t ∈ ac, t < s.nodes.size) →
      dec (completeAll s n ac).2.2 =
        (threeValOf ((groundedLoop StoreRA (n + 1) s ac).2.map storeIsConst)).filter
          (fun d => decide (Gam (ac.map (eval s)) d = d)) := by
    intro s ac w hl hv
    obtain ⟨p, e, hp⟩ := completeAll_filter s n ac w hl hv
    have hfc : (threeValAll (groundedLoop StoreRA (n + 1) s ac).2).filter p =
        (threeValAll (groundedLoop StoreRA (n + 1) s ac).2).filter
          ((fun d => decide (Gam (ac.map (eval s)) d = d)) ∘ fun x => x.map storeIsConst) := by
      apply List.filter_congr
      intro v hv'
      simp only [Function.comp]
      have := hp v hv'
      cases hpv : p v with
      | true => exact (decide_eq_true (this.mp hpv)).symm
      | false =>
        symm; apply decide_eq_false
        intro h; rw [this.mpr h] at hpv; cases hpv
    rw [← threeValAll_dec, List.filter_map, e, hfc]
    rfl
  rw [key s ac w hl hv, key s' ac' w' hl' hv', hg, hsame]

/-- on one object: the decided parts `complete` lists after ANY history are those it lists before, in the same
order -/
theorem complete_order_after_history (st : AdfState) (hi : Inv st) (h : List Call) :
    dec (completeAll (runCalls st h).1.s st.n st.ac).2.2 = dec (completeAll st.s st.n st.ac).2.2 := by
  have ⟨hi', stp⟩ := runCalls_inv h st hi
  have hd := stp.den_same hi
  rw [stp.ac] at hd
  exact complete_order_independent _ _ st.n st.ac st.ac hi'.wf hi.wf hi.len hi.len
    (by have := hi'.ac; rw [stp.ac] at this; exact this) hi.ac hd

theorem complete_answers_order_after_history (st : AdfState) (hi : Inv st) (h : List Call) :
    ∃ vs vs', answerAfter st h .complete = .vecs vs ∧ (runCall st .complete).2 = .vecs vs' ∧ dec vs = dec vs' := by
  have ⟨_, stp⟩ := runCalls_inv h st hi
  refine ⟨_, _, rfl, rfl, ?_⟩
  show dec (completeAll (runCalls st h).1.s (runCalls st h).1.n (runCalls st h).1.ac).2.2 = _
  rw [stp.n, stp.ac]
  exact complete_order_after_history st hi h

/-! ## order of the nogood-learning search across histories -/

/-- **the nogood-learning search (every built-in heuristic, both modes, every bound)**: after ANY history it hits
the bound iff it does before the history, and otherwise lists the same decided parts in the same ORDER
(`NConc.Ord.ngSearch_order`: both runs simulate the same run of the semantic machine, the heuristics read
positions, path counts and dependency sets, which are functions of the denoted functions) -/
theorem ng_answers_order_after_history (st : AdfState) (hi : Inv st) (h : List Call) (heu : SM.Heu) (fuel : Nat)
    (stable : Bool) :
    (answerAfter st h (.ng heu fuel stable) = .fuelExhausted ∧ (runCall st (.ng heu fuel stable)).2 = .fuelExhausted) ∨
    ∃ vs tr vs' tr', answerAfter st h (.ng heu fuel stable) = .ng vs tr ∧
      (runCall st (.ng heu fuel stable)).2 = .ng vs' tr' ∧ dec vs = dec vs' := by
  have ⟨hi', stp⟩ := runCalls_inv h st hi
  have hd := stp.den_same hi
  have key := NConc.Ord.ngSearch_order heu (runCalls st h).1.s st.s st.n (runCalls st h).1.ac st.ac stable hi'.wf hi.wf
    (by rw [← stp.n]; exact hi'.len) hi.len hi'.ac hi.ac hd fuel
  simp only [answerAfter, runCall, stp.n]
  cases hdn : (SM.ngSearch heu fuel st.s st.n st.ac stable).2.2.2 with
  | false =>
    left
    rw [hdn] at key
    simp [key.1]
  | true =>
    right
    rw [hdn] at key
    refine ⟨_, _, _, _, by rw [key.1]; rfl, rfl, ?_⟩
    exact key.2 key.1

end CallH
