import AdfObdd.NoGood
/-! prototype 12: the counting-guided branching search (abstract machine): complete, sound
    and duplicate-free for every selection strategy -/

abbrev Cube := List (Nat × Bool)
def InCube (c : Cube) (σ : Asg) : Prop := ∀ x ∈ c, σ x.1 = x.2

def decided (A : PA) : Nat := size A

structure CParams where
  n : Nat
  pick : PA → Option Nat
  goal : PA → Nat → Bool
  cubes : PA → Nat → Bool → List Cube
  cubeStep : PA → Nat → Bool → Cube → Option PA
  flipStep : PA → Nat → Bool → Option PA
  leaf : PA → PA

def search (P : CParams) : Nat → PA → List PA
  | 0, _ => []
  | fuel+1, A =>
    match P.pick A with
    | none => [P.leaf A]
    | some idx =>
      let g := P.goal A idx
      (P.cubes A idx g).flatMap (fun c =>
          match P.cubeStep A idx g c with
          | some A' => search P fuel A'
          | none => [])
        ++ (match P.flipStep A idx g with
            | some A' => search P fuel A'
            | none => [])

def Disj (o o' : PA) : Prop := ∀ σ, ¬ (Matches o σ ∧ Matches o' σ)

structure CSound (T : Asg → Prop) (P : CParams) : Prop where
  bound : ∀ A, P.pick A ≠ none → decided A < P.n
  leaf_law : ∀ A, P.pick A = none → ∀ σ, Matches (P.leaf A) σ ↔ Matches A σ
  cube_cover : ∀ A idx, P.pick A = some idx → ∀ σ, T σ → Matches A σ → σ idx = P.goal A idx →
      ∃ c ∈ P.cubes A idx (P.goal A idx), InCube c σ
  cube_disj : ∀ A idx, P.pick A = some idx →
      (P.cubes A idx (P.goal A idx)).Pairwise (fun c c' => ∀ σ, ¬ (InCube c σ ∧ InCube c' σ))
  cube_some : ∀ A idx c A', P.pick A = some idx → P.cubeStep A idx (P.goal A idx) c = some A' →
      decided A < decided A' ∧
      (∀ σ, Matches A' σ → Matches A σ ∧ InCube c σ ∧ σ idx = P.goal A idx) ∧
      (∀ σ, T σ → Matches A σ → InCube c σ → σ idx = P.goal A idx → Matches A' σ)
  cube_none : ∀ A idx c, P.pick A = some idx → P.cubeStep A idx (P.goal A idx) c = none →
      ∀ σ, T σ → Matches A σ → InCube c σ → σ idx = P.goal A idx → False
  flip_some : ∀ A idx A', P.pick A = some idx → P.flipStep A idx (P.goal A idx) = some A' →
      decided A < decided A' ∧
      (∀ σ, Matches A' σ → Matches A σ ∧ σ idx = !P.goal A idx) ∧
      (∀ σ, T σ → Matches A σ → σ idx = (!P.goal A idx) → Matches A' σ)
  flip_none : ∀ A idx, P.pick A = some idx → P.flipStep A idx (P.goal A idx) = none →
      ∀ σ, T σ → Matches A σ → σ idx = (!P.goal A idx) → False

variable {T : Asg → Prop} {P : CParams}

/-- pairwise disjointness of a `flatMap` whose pieces live in pairwise disjoint regions -/
theorem pairwise_flatMap_regions {α : Type} (R : α → Asg → Prop) (f : α → List PA) :
    ∀ (l : List α), l.Pairwise (fun a a' => ∀ σ, ¬ (R a σ ∧ R a' σ)) →
    (∀ a ∈ l, ∀ o ∈ f a, ∀ σ, Matches o σ → R a σ) →
    (∀ a ∈ l, (f a).Pairwise Disj) → (l.flatMap f).Pairwise Disj := by
  intro l
  induction l with
  | nil => intro _ _ _; simp
  | cons a l ih =>
    intro hp hr hd
    rw [List.flatMap_cons, List.pairwise_append]
    have ⟨hpa, hpl⟩ := List.pairwise_cons.mp hp
    refine ⟨hd a (List.mem_cons_self ..), ?_, ?_⟩
    · exact ih hpl (fun a' ha' => hr a' (List.mem_cons_of_mem _ ha')) (fun a' ha' => hd a' (List.mem_cons_of_mem _ ha'))
    · intro o ho o' ho' σ ⟨m, m'⟩
      rw [List.mem_flatMap] at ho'
      obtain ⟨a', ha', ho'⟩ := ho'
      exact hpa a' ha' σ ⟨hr a (List.mem_cons_self ..) o ho σ m, hr a' (List.mem_cons_of_mem _ ha') o' ho' σ m'⟩

/-- C04 core: complete (every target model extending `A` is matched by an output), sound
(every output extends `A`), duplicate-free (outputs pairwise disjoint) -/
theorem search_spec (hP : CSound T P) : ∀ (fuel : Nat) (A : PA), P.n - decided A < fuel →
    (∀ σ, T σ → Matches A σ → ∃ o ∈ search P fuel A, Matches o σ) ∧
    (∀ o ∈ search P fuel A, ∀ σ, Matches o σ → Matches A σ) ∧
    (search P fuel A).Pairwise Disj := by
  intro fuel
  induction fuel with
  | zero => intro A h; omega
  | succ f ih =>
    intro A hf
    unfold search
    cases hp : P.pick A with
    | none =>
      simp only
      refine ⟨?_, ?_, by simp⟩
      · intro σ _ m; exact ⟨_, List.mem_singleton.mpr rfl, (hP.leaf_law A hp σ).mpr m⟩
      · intro o ho σ m; rw [List.mem_singleton.mp ho] at m; exact (hP.leaf_law A hp σ).mp m
    | some idx =>
      simp only
      have hb := hP.bound A (by rw [hp]; simp)
      -- facts about one cube branch
      have cubeF : ∀ c,
          (∀ o ∈ (match P.cubeStep A idx (P.goal A idx) c with | some A' => search P f A' | none => []),
              ∀ σ, Matches o σ → Matches A σ ∧ InCube c σ ∧ σ idx = P.goal A idx) ∧
          (match P.cubeStep A idx (P.goal A idx) c with | some A' => search P f A' | none => []).Pairwise Disj ∧
          (∀ σ, T σ → Matches A σ → InCube c σ → σ idx = P.goal A idx →
              ∃ o ∈ (match P.cubeStep A idx (P.goal A idx) c with | some A' => search P f A' | none => []), Matches o σ) := by
        intro c
        cases hc : P.cubeStep A idx (P.goal A idx) c with
        | none =>
          simp only
          exact ⟨(fun o ho => by cases ho), by simp, fun σ t m ic hv => (hP.cube_none A idx c hp hc σ t m ic hv).elim⟩
        | some A' =>
          simp only
          have ⟨hd, h1, h2⟩ := hP.cube_some A idx c A' hp hc
          have ⟨i1, i2, i3⟩ := ih A' (by omega)
          exact ⟨fun o ho σ m => h1 σ (i2 o ho σ m), i3, fun σ t m ic hv => i1 σ t (h2 σ t m ic hv)⟩
      have flipF :
          (∀ o ∈ (match P.flipStep A idx (P.goal A idx) with | some A' => search P f A' | none => []),
              ∀ σ, Matches o σ → Matches A σ ∧ σ idx = !P.goal A idx) ∧
          (match P.flipStep A idx (P.goal A idx) with | some A' => search P f A' | none => []).Pairwise Disj ∧
          (∀ σ, T σ → Matches A σ → σ idx = (!P.goal A idx) →
              ∃ o ∈ (match P.flipStep A idx (P.goal A idx) with | some A' => search P f A' | none => []), Matches o σ) := by
        cases hc : P.flipStep A idx (P.goal A idx) with
        | none =>
          simp only
          exact ⟨(fun o ho => by cases ho), by simp, fun σ t m hv => (hP.flip_none A idx hp hc σ t m hv).elim⟩
        | some A' =>
          simp only
          have ⟨hd, h1, h2⟩ := hP.flip_some A idx A' hp hc
          have ⟨i1, i2, i3⟩ := ih A' (by omega)
          exact ⟨fun o ho σ m => h1 σ (i2 o ho σ m), i3, fun σ t m hv => i1 σ t (h2 σ t m hv)⟩
      refine ⟨?_, ?_, ?_⟩
      · intro σ t m
        by_cases hv : σ idx = P.goal A idx
        · obtain ⟨c, hc, ic⟩ := hP.cube_cover A idx hp σ t m hv
          obtain ⟨o, ho, mo⟩ := (cubeF c).2.2 σ t m ic hv
          exact ⟨o, List.mem_append_left _ (List.mem_flatMap.mpr ⟨c, hc, ho⟩), mo⟩
        · have hv' : σ idx = !P.goal A idx := by
            cases h1 : σ idx <;> cases h2 : P.goal A idx <;> simp_all
          obtain ⟨o, ho, mo⟩ := flipF.2.2 σ t m hv'
          exact ⟨o, List.mem_append_right _ ho, mo⟩
      · intro o ho σ m
        rcases List.mem_append.mp ho with h | h
        · obtain ⟨c, _, hoc⟩ := List.mem_flatMap.mp h
          exact ((cubeF c).1 o hoc σ m).1
        · exact (flipF.1 o h σ m).1
      · rw [List.pairwise_append]
        refine ⟨?_, flipF.2.1, ?_⟩
        · exact pairwise_flatMap_regions (fun c σ => InCube c σ) _ _ (hP.cube_disj A idx hp)
            (fun c _ o ho σ m => ((cubeF c).1 o ho σ m).2.1) (fun c _ => (cubeF c).2.1)
        · intro o ho o' ho' σ ⟨m, m'⟩
          obtain ⟨c, _, hoc⟩ := List.mem_flatMap.mp ho
          have h1 := ((cubeF c).1 o hoc σ m).2.2
          have h2 := (flipF.1 o' ho' σ m').2
          rw [h1] at h2
          cases hg : P.goal A idx <;> simp [hg] at h2
#print axioms search_spec
