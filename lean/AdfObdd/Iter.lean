
namespace Iter2M
/-! prototype 10: the two-valued interpretation odometer enumerates every completion once -/

/-- terms as handles: 0 = ⊥, 1 = ⊤, ≥ 2 undecided -/
abbrev Vec := List Nat

/-- pure successor used by `TwoValuedInterpretationsIterator::next` once started:
`idxs` lists the undecided positions, fastest first -/
def succ2 : (idxs : List Nat) → Vec → Option Vec
  | [], _ => none
  | i :: rest, cur =>
    if cur[i]? = some 0 then some (cur.set i 1)
    else (succ2 rest (cur.set i 0))   -- carry: reset this digit and continue

/-- reference enumeration, slowest digit first -/
def enum2 : (slow : List Nat) → Vec → List Vec
  | [], base => [base]
  | i :: rest, base => enum2 rest (base.set i 0) ++ enum2 rest (base.set i 1)

/-- iterate the successor -/
def collectFrom (idxs : List Nat) : Nat → Vec → List Vec
  | 0, _ => []
  | fuel+1, cur => cur :: (match succ2 idxs cur with | none => [] | some nxt => collectFrom idxs fuel nxt)

def zeros (sl : List Nat) (base : Vec) : Vec := sl.foldl (fun b i => b.set i 0) base

theorem zeros_cons (i : Nat) (rest : List Nat) (base : Vec) :
    zeros (i :: rest) base = zeros rest (base.set i 0) := rfl

theorem zeros_length (sl : List Nat) (base : Vec) : (zeros sl base).length = base.length := by
  induction sl generalizing base with
  | nil => rfl
  | cons i rest ih => rw [zeros_cons, ih]; simp

theorem zeros_set_comm (sl : List Nat) (base : Vec) (i v : Nat) (h : i ∉ sl) :
    (zeros sl base).set i v = zeros sl (base.set i v) := by
  induction sl generalizing base with
  | nil => rfl
  | cons j rest ih =>
    have hj : i ≠ j := fun e => h (e ▸ List.mem_cons_self ..)
    have hr : i ∉ rest := fun m => h (List.mem_cons_of_mem _ m)
    rw [zeros_cons, zeros_cons, ih _ hr, List.set_comm _ _ (Ne.symm hj)]

theorem zeros_get_notin (sl : List Nat) (base : Vec) (i : Nat) (h : i ∉ sl) :
    (zeros sl base)[i]? = base[i]? := by
  induction sl generalizing base with
  | nil => rfl
  | cons j rest ih =>
    have hj : i ≠ j := fun e => h (e ▸ List.mem_cons_self ..)
    have hr : i ∉ rest := fun m => h (List.mem_cons_of_mem _ m)
    rw [zeros_cons, ih _ hr, List.getElem?_set_ne (Ne.symm hj)]

theorem enum2_length (sl : List Nat) (base : Vec) : (enum2 sl base).length = 2 ^ sl.length := by
  induction sl generalizing base with
  | nil => rfl
  | cons i rest ih => simp [enum2, ih, Nat.pow_succ]; omega

/-- the chain lemma: running the odometer over the inner digits `sl` (fastest last in `sl`)
followed by slower digits `outer` first produces the reference enumeration of the inner digits
and then carries into `outer`. -/
theorem collect_chain : ∀ (sl : List Nat) (outer : List Nat) (base : Vec) (fuel : Nat),
    sl.Nodup → (∀ i ∈ sl, i < base.length) → 2 ^ sl.length ≤ fuel →
    collectFrom (sl.reverse ++ outer) fuel (zeros sl base) =
      enum2 sl base ++
        (match succ2 outer (zeros sl base) with
         | none => []
         | some y => collectFrom (sl.reverse ++ outer) (fuel - 2 ^ sl.length) y) := by
  intro sl
  induction sl with
  | nil =>
    intro outer base fuel _ _ hf
    cases fuel with
    | zero => simp at hf
    | succ f => simp [collectFrom, enum2, zeros]
  | cons i rest ih =>
    intro outer base fuel hnd hlt hf
    have hi : i ∉ rest := (List.nodup_cons.mp hnd).1
    have hnr : rest.Nodup := (List.nodup_cons.mp hnd).2
    have hil : i < base.length := hlt i (List.mem_cons_self ..)
    have hrl : ∀ (b : Vec), b.length = base.length → ∀ j ∈ rest, j < b.length :=
      fun b hb j hj => hb ▸ hlt j (List.mem_cons_of_mem _ hj)
    have hpow : 2 ^ (i :: rest).length = 2 ^ rest.length + 2 ^ rest.length := by
      simp [Nat.pow_succ]; omega
    have hidx : (i :: rest).reverse ++ outer = rest.reverse ++ (i :: outer) := by simp
    rw [hidx, zeros_cons]
    -- first half: digit i = 0
    rw [ih (i :: outer) (base.set i 0) fuel hnr (hrl _ (by simp)) (by omega)]
    have hget0 : (zeros rest (base.set i 0))[i]? = some 0 := by
      rw [zeros_get_notin _ _ _ hi]; simp [hil]
    have hs1 : succ2 (i :: outer) (zeros rest (base.set i 0)) = some (zeros rest (base.set i 1)) := by
      simp only [succ2, hget0, if_true]
      rw [zeros_set_comm _ _ _ _ hi]; simp
    simp only [hs1]
    -- second half: digit i = 1
    rw [ih (i :: outer) (base.set i 1) (fuel - 2 ^ rest.length) hnr (hrl _ (by simp)) (by omega)]
    have hget1 : (zeros rest (base.set i 1))[i]? = some 1 := by
      rw [zeros_get_notin _ _ _ hi]; simp [hil]
    have hs2 : succ2 (i :: outer) (zeros rest (base.set i 1)) = succ2 outer (zeros rest (base.set i 0)) := by
      simp only [succ2, hget1]
      rw [if_neg (by simp), zeros_set_comm _ _ _ _ hi]; simp
    rw [hs2]
    simp only [enum2, List.append_assoc]
    congr 2
    have : fuel - 2 ^ rest.length - 2 ^ rest.length = fuel - 2 ^ (i :: rest).length := by omega
    rw [this]

/-- C20 (two-valued): the odometer started at the all-⊥ completion yields exactly the
reference enumeration of all `2^k` completions, in order. -/
theorem collect2_eq (sl : List Nat) (base : Vec) (fuel : Nat) (hnd : sl.Nodup)
    (hlt : ∀ i ∈ sl, i < base.length) (hf : 2 ^ sl.length ≤ fuel) :
    collectFrom sl.reverse fuel (zeros sl base) = enum2 sl base := by
  have := collect_chain sl [] base fuel hnd hlt hf
  simpa [succ2] using this
#print axioms collect2_eq

end Iter2M
