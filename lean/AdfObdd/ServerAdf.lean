import AdfObdd.ServerModel
import AdfObdd.SearchModel
import AdfObdd.CountModel
import AdfObdd.NgModel
import AdfObdd.Rebuild
import AdfObdd.Parser4
import AdfObdd.WfCheck
import AdfObdd.Graph
import AdfObdd.Spec.WebSem
/-! The library as the web service uses it (C16): parse + `Adf::from_parser` (naive parsing),
    the stored `SimplifiedAdf`, the rebuilt ADF and the six strategies, and the graph DTO builder
    `DoubleLabeledGraph::from_adf_and_ac` verbatim — all on the executable models of the library —
    plus the specification-level checks of stored ADFs, answers and graphs against the brute-force
    semantics `WebSem`.  Core + Std only. -/
namespace ServerAdf
open ServerM

/-- `SimplifiedAdf` (ordering, node list, acceptance conditions); `key` names the submission -/
structure SAdf where
  key : String := ""
  names : List String := []
  nodes : Array Node := #[]
  ac : List Nat := []

/-- a node of `DoubleLabeledGraph`: id, `node_labels[id]`, `tree_root_labels[id]` -/
structure GNodeD where
  id : Nat
  label : String
  roots : List String
deriving DecidableEq

structure GraphD where
  nodes : List GNodeD := []
  lo : List (Nat × Nat) := []
  hi : List (Nat × Nat) := []
deriving DecidableEq

/-- `AcAndGraph` -/
structure AcG where
  ac : List Nat
  graph : GraphD

abbrev SRes := List AcG

/-! ### text forms shared with the harness -/

def hexDigit (n : Nat) : Char := if n < 10 then Char.ofNat (48 + n) else Char.ofNat (87 + n)
def hexOf (s : String) : String :=
  if s.isEmpty then "00" else
  String.ofList (s.toUTF8.toList.flatMap (fun b => [hexDigit (b.toNat / 16), hexDigit (b.toNat % 16)]))

def hexVal (c : Char) : Option Nat :=
  if '0' ≤ c ∧ c ≤ '9' then some (c.toNat - '0'.toNat)
  else if 'a' ≤ c ∧ c ≤ 'f' then some (c.toNat - 'a'.toNat + 10)
  else none

def unhexBytes : List Char → Option (List UInt8)
  | [] => some []
  | [_] => none
  | a :: b :: r => do
    let x ← hexVal a
    let y ← hexVal b
    let rest ← unhexBytes r
    pure (UInt8.ofNat (x * 16 + y) :: rest)

def unhex (w : String) : Option String :=
  if w == "00" then some "" else do
    let bs ← unhexBytes w.toList
    String.fromUTF8? (ByteArray.mk bs.toArray)

def joinW (sep : String) (xs : List String) : String := sep.intercalate xs
def natsW (xs : List Nat) : String := joinW "," (xs.map toString)
def dashIfEmpty (s : String) : String := if s.isEmpty then "-" else s
def splitNE (s sep : String) : List String := if s.isEmpty || s == "-" then [] else s.splitOn sep

/-- `names|table|ac`: hex names, `var,lo,hi` rows -/
def adfText (a : SAdf) : String :=
  dashIfEmpty (joinW "," (a.names.map hexOf)) ++ "|" ++
  joinW ";" (a.nodes.toList.map (fun n => s!"{n.var},{n.lo},{n.hi}")) ++ "|" ++ dashIfEmpty (natsW a.ac)

def parseAdfText (key w : String) : Option SAdf :=
  match w.splitOn "|" with
  | [nw, tw, aw] => do
    let names ← (splitNE nw ",").mapM unhex
    let nodes ← (splitNE tw ";").mapM (fun r => match r.splitOn "," with
      | [a, b, c] => do pure (⟨← a.toNat?, ← b.toNat?, ← c.toNat?⟩ : Node)
      | _ => none)
    let ac ← (splitNE aw ",").mapM (fun x => x.toNat?)
    pure { key := key, names := names, nodes := nodes.toArray, ac := ac }
  | _ => none

def graphText (g : GraphD) : String :=
  let nodes := g.nodes.map (fun n => s!"{n.id}:{hexOf n.label}:{dashIfEmpty (joinW "+" (n.roots.map hexOf))}")
  let edges := fun (es : List (Nat × Nat)) => dashIfEmpty (joinW "," (es.map (fun e => s!"{e.1}>{e.2}")))
  "nodes=" ++ dashIfEmpty (joinW "," nodes) ++ "/lo=" ++ edges g.lo ++ "/hi=" ++ edges g.hi

/-! ### parsing the submitted code (parser model of C08) and `Adf::from_parser` -/

def indexOf (x : String) : List String → Option Nat
  | [] => none
  | y :: ys => if x == y then some 0 else (indexOf x ys).map (· + 1)

/-- `Formula` with statement labels to `Fm` with statement indices; `none`: undeclared atom -/
def toFm (names : List String) : ParserM.Fml → Option Fm
  | .top => some .top
  | .bot => some .bot
  | .atom l => (indexOf (String.ofList l) names).map Fm.atom
  | .not f => (toFm names f).map Fm.not
  | .and a b => do pure (.and (← toFm names a) (← toFm names b))
  | .or a b => do pure (.or (← toFm names a) (← toFm names b))
  | .imp a b => do pure (.imp (← toFm names a) (← toFm names b))
  | .xor a b => do pure (.xor (← toFm names a) (← toFm names b))
  | .iff a b => do pure (.iff (← toFm names a) (← toFm names b))

/-- what the parser leaves behind: `namelist`, and the `ac` facts in file order -/
structure Parsed where
  names : List String
  acs : List (String × ParserM.Fml)

def parseText (code : String) : Option Parsed :=
  match ParserM.parseFile (code.length + 1) code.toList with
  | none => none
  | some facts =>
    some (facts.foldl (fun (p : Parsed) f => match f with
      | .stmt l => let n := String.ofList l; if p.names.contains n then p else { p with names := p.names ++ [n] }
      | .ac l f => { p with acs := p.acs ++ [(String.ofList l, f)] }) ⟨[], []⟩)

/-- statement index and condition of every `ac` fact, in file order; `panic`: an `ac` for an
undeclared statement (`formula_order`) or an undeclared atom (`Adf::term`) -/
def resolve (p : Parsed) : Except Err (List (Nat × Fm)) :=
  match p.acs.mapM (fun (x : String × ParserM.Fml) => do
      let i ← indexOf x.1 p.names
      let f ← toFm p.names x.2
      pure (i, f)) with
  | some l => .ok l
  | none => .error .panic

/-- names and, per statement, the condition that counts (the last `ac` fact; falsum without one) -/
def conditions (code : String) : Except Err (List String × List Fm) :=
  match parseText code with
  | none => .error .parseError
  | some p =>
    match resolve p with
    | .error e => .error e
    | .ok l =>
      .ok (p.names, (List.range p.names.length).map (fun i =>
        match (l.filter (fun x => x.1 == i)).getLast? with
        | some x => x.2
        | none => Fm.bot))

def parseOutcome (code : String) : Except Err Unit :=
  match conditions code with
  | .ok _ => .ok ()
  | .error e => .error e

/-! ### the graph DTO builder, verbatim -/

def gnodes (ns : Array Node) : List GraphM.GNode := ns.toList.map (fun n => ⟨n.lo, n.hi⟩)

def nameOfVar (names : List String) (v : Nat) : String :=
  if v = VTOP then "TOP" else if v = VBOT then "BOT" else names.getD v "?"

/-- the node set of `DoubleLabeledGraph::from_adf_and_ac`: the expansion loop from the roots -/
def nodeSet (ns : Array Node) (ac : List Nat) : List Nat :=
  (GraphM.expandD (gnodes ns) (ns.size + 2) [] (GraphM.dedupN ac)).getD []

/-- `![Var::TOP, Var::BOT].contains(&node.var())` -/
def isInner (ns : Array Node) (i : Nat) : Bool :=
  match ns[i]? with
  | some n => n.var != VTOP && n.var != VBOT
  | none => false

def rootsOf (names : List String) (ac : List Nat) (i : Nat) : List String :=
  ((List.range ac.length).filter (fun s => ac.getD s 0 == i)).map (fun s => names.getD s "?")

/-- `DoubleLabeledGraph::from_adf_and_ac` on a node table, the ordering's names and the roots `ac` -/
def graphOf (names : List String) (ns : Array Node) (ac : List Nat) : GraphD :=
  let set := nodeSet ns ac
  let ids := (List.range ns.size).filter (fun i => set.contains i)
  let inner := ids.filter (isInner ns)
  { nodes := ids.map (fun i => ⟨i, nameOfVar names ((ns.getD i ⟨VTOP, 0, 0⟩).var), rootsOf names ac i⟩),
    lo := inner.map (fun i => (i, (ns.getD i ⟨0, 0, 0⟩).lo)),
    hi := inner.map (fun i => (i, (ns.getD i ⟨0, 0, 0⟩).hi)) }

/-! ### naive parsing, rebuilt ADF, strategies -/

/-- `Adf::from_parser`: all variables first, then every `ac` fact in file order -/
def fromParser (n : Nat) (acs : List (Nat × Fm)) : Store × List Nat :=
  let s0 := (List.range n).foldl (fun s v => (mkNode s v 0 1).1) Store.init
  acs.foldl (fun (acc : Store × List Nat) x =>
    let r := compile acc.1 x.2
    (r.1, acc.2.set x.1 r.2)) (s0, List.replicate n 0)

def parseNaive (key code : String) : Except Err (SAdf × SRes) :=
  match parseText code with
  | none => .error .parseError
  | some p =>
    match resolve p with
    | .error e => .error e
    | .ok l =>
      let r := fromParser p.names.length l
      let a : SAdf := { key := key, names := p.names, nodes := r.1.nodes, ac := r.2 }
      .ok (a, [⟨r.2, graphOf p.names r.1.nodes r.2⟩])

/-- the blocking part of `solve_adf_problem` on the ADF rebuilt from the stored node list -/
def solveAdf (a : SAdf) (s : Strategy) : Except Err SRes :=
  let st := rebuild a.nodes
  let n := a.ac.length
  let r : Store × List (List Nat) :=
    match s with
    | .ground => let g := groundedLoop StoreRA (n + 1) st a.ac; (g.1, [g.2])
    | .complete => let c := completeAll st n a.ac; (c.1, c.2.2)
    | .stable => stableAll st n a.ac
    | .stableCountingA => countAll st n a.ac true
    | .stableCountingB => countAll st n a.ac false
    | .stableNogood => let g := SM.ngSearch .simple 1000000 st n a.ac true; (g.1, g.2.1)
  .ok (r.2.map (fun ac => ⟨ac, graphOf a.names r.1.nodes ac⟩))

/-! ### specification-level checks -/

def tfu (ac : List Nat) : String :=
  String.ofList (ac.map (fun t => if t == 1 then 'T' else if t == 0 then 'F' else 'u'))

def insertStr (x : String) : List String → List String
  | [] => [x]
  | y :: ys => if x ≤ y then x :: y :: ys else y :: insertStr x ys
def sortStrs (xs : List String) : List String := xs.foldr insertStr []

/-- the stored ADF denotes the submitted code: well-formed table, names as parsed, and every root
evaluates like its condition under every total assignment -/
def storedAdfOKC (cond : Except Err (List String × List Fm)) (a : SAdf) : String :=
  match cond with
  | .error _ => "violated stored-adf-for-unparseable-code"
  | .ok (names, fs) =>
    if !wfCheck a.nodes then "violated table-not-wellformed"
    else if a.names != names then "violated names"
    else if a.ac.length != fs.length then "violated ac-length"
    else
      let n := fs.length
      let bad := (List.range n).find? (fun s =>
        (List.range (2 ^ n)).any (fun m =>
          evalF a.nodes (a.nodes.size + 1) (a.ac.getD s 0) (WebSem.asgOf m) != (fs.getD s Fm.bot).sem (WebSem.asgOf m)))
      match bad with
      | some s => s!"violated condition-of-statement {s}"
      | none => "ok"

/-- the answer of a strategy by the definitions, as sorted T/F/u patterns -/
def storedAdfOK (code : String) (a : SAdf) : String := storedAdfOKC (conditions code) a

def specAnswerC (cond : Except Err (List String × List Fm)) (key : String) : String :=
  match cond with
  | .error _ => "error"
  | .ok (_, fs) =>
    let n := fs.length
    let pats : List WebSem.I3 :=
      if key == "parse_only" then
        [WebSem.gamma fs (List.replicate n none)]
      else if key == "ground" then [WebSem.grounded fs]
      else if key == "complete" then WebSem.completeOf fs
      else WebSem.stableOf fs
    dashIfEmpty (joinW " " (sortStrs (pats.map WebSem.showI3)))

def parseGraphText (w : String) : Option GraphD :=
  match w.splitOn "/" with
  | [nw, lw, hw] =>
    if !(nw.startsWith "nodes=" && lw.startsWith "lo=" && hw.startsWith "hi=") then none else do
    let nodes ← (splitNE (nw.drop 6).toString ",").mapM (fun it => match it.splitOn ":" with
      | [i, lab, roots] => do
        let rs ← (splitNE roots "+").mapM unhex
        pure (⟨← i.toNat?, ← unhex lab, rs⟩ : GNodeD)
      | _ => none)
    let edges := fun (s : String) => (splitNE s ",").mapM (fun e => match e.splitOn ">" with
      | [a, b] => do pure ((← a.toNat?), (← b.toNat?))
      | _ => none)
    pure { nodes := nodes, lo := ← edges (lw.drop 3).toString, hi := ← edges (hw.drop 3).toString }
  | _ => none

/-- nodes reachable from the roots, by the definition: close the root set `size` times -/
def reachSpec (ns : Array Node) (roots : List Nat) : List Nat :=
  let stepS := fun (s : List Nat) =>
    (s ++ s.flatMap (fun i => match ns[i]? with | some n => [n.lo, n.hi] | none => [])).eraseDups
  let closed := (List.range (ns.size + 1)).foldl (fun s _ => stepS s) roots.eraseDups
  (List.range ns.size).filter (fun i => closed.contains i)

def sortPairs (es : List (Nat × Nat)) : List (Nat × Nat) :=
  let ins := fun (x : Nat × Nat) (l : List (Nat × Nat)) =>
    (l.filter (fun y => y.1 < x.1 || (y.1 == x.1 && y.2 ≤ x.2))) ++ [x] ++
    (l.filter (fun y => !(y.1 < x.1 || (y.1 == x.1 && y.2 ≤ x.2))))
  es.foldr ins []

/-- follow lo/hi edges of the DTO from `x`; a node without outgoing edge is a terminal (id 1 = true);
the variable tested at an inner node is the statement its label names -/
def walk (g : GraphD) (names : List String) (σ : Asg) : Nat → Nat → Option Bool
  | 0, _ => none
  | fuel+1, x =>
    match g.lo.find? (fun e => e.1 == x), g.hi.find? (fun e => e.1 == x) with
    | none, none => if x == 1 then some true else if x == 0 then some false else none
    | some l, some h =>
      match g.nodes.find? (fun n => n.id == x) with
      | none => none
      | some nd =>
        match indexOf nd.label names with
        | none => none
        | some v => walk g names σ fuel (if σ v then h.2 else l.2)
    | _, _ => none

/-- enough fuel for `walk`: more than every node id (children have smaller ids in an ordered table) -/
def walkFuel (g : GraphD) : Nat := (g.nodes.map (·.id)).foldl max 0 + 2

/-- nodes reachable from the roots along the DTO's own edges -/
def reachGraph (g : GraphD) (roots : List Nat) : List Nat :=
  let stepS := fun (s : List Nat) =>
    (s ++ s.flatMap (fun i => ((g.lo ++ g.hi).filter (fun e => e.1 == i)).map (·.2))).eraseDups
  (List.range (g.nodes.length + 1)).foldl (fun s _ => stepS s) roots.eraseDups

def strictlyIncreasing : List Nat → Bool
  | a :: b :: r => a < b && strictlyIncreasing (b :: r)
  | _ => true

/-- the graph is a faithful picture: its node set is exactly what is reachable from the roots along
lo/hi edges (no dangling edge, no unreachable node, every node an inner node with one lo and one hi
edge or one of the terminals `0`/`1`), it agrees with the stored node table wherever that table has
the node (nodes created while solving are beyond it), root labels are right, and walking from the
root labelled `s` evaluates `s`'s condition under every total assignment that extends the shown model -/
def specAnswer (code key : String) : String := specAnswerC (conditions code) key

def graphOKC (cond : Except Err (List String × List Fm)) (a : SAdf) (ac : List Nat) (g : GraphD) : String :=
  match cond with
  | .error _ => "violated graph-for-unparseable-code"
  | .ok (names, fs) =>
    let ns := a.nodes
    let n := fs.length
    let ids := g.nodes.map (·.id)
    if ac.length != n then "violated ac-length"
    else if !strictlyIncreasing ids then "violated node-ids-not-distinct"
    else
    let reach := reachGraph g ac
    if !(ids.all (fun i => reach.contains i) && reach.all (fun i => ids.contains i)) then
      s!"violated node-set {natsW ids} reachable {natsW reach}"
    else
    match g.nodes.find? (fun nd =>
        let los := g.lo.filter (fun e => e.1 == nd.id)
        let his := g.hi.filter (fun e => e.1 == nd.id)
        let terminal := los.isEmpty && his.isEmpty
        let inner := los.length == 1 && his.length == 1
        !((terminal && ((nd.id == 0 && nd.label == "BOT") || (nd.id == 1 && nd.label == "TOP"))) ||
          (inner && nd.id ≥ 2 && names.contains nd.label))) with
    | some nd => s!"violated shape-of-node {nd.id}"
    | none =>
    match g.nodes.find? (fun nd =>
        nd.roots != ((List.range n).filter (fun s => ac.getD s 0 == nd.id)).map (fun s => names.getD s "?")) with
    | some nd => s!"violated root-labels-of-node {nd.id}"
    | none =>
    match g.nodes.find? (fun nd =>
        match ns[nd.id]? with
        | none => false
        | some t =>
          nd.label != nameOfVar names t.var ||
          (nd.id ≥ 2 && (g.lo.find? (fun e => e.1 == nd.id) != some (nd.id, t.lo) ||
                         g.hi.find? (fun e => e.1 == nd.id) != some (nd.id, t.hi)))) with
    | some nd => s!"violated differs-from-stored-table-at-node {nd.id}"
    | none =>
      -- the shown model as a three-valued interpretation
      let w : WebSem.I3 := ac.map (fun t => if t == 1 then some true else if t == 0 then some false else none)
      let cs := WebSem.completions n w
      let bad := (List.range n).find? (fun s =>
        match g.nodes.find? (fun nd => nd.roots.contains (names.getD s "?")) with
        | none => true
        | some root =>
          cs.any (fun m =>
            walk g names (WebSem.asgOf m) (walkFuel g) root.id != some ((fs.getD s Fm.bot).sem (WebSem.asgOf m))))
      match bad with
      | some s => s!"violated walk-from-root-of-statement {s}"
      | none => "ok"

def graphOK (code : String) (a : SAdf) (ac : List Nat) (g : GraphD) : String := graphOKC (conditions code) a ac g

/-! ### the strengthened check of a stored ADF (implies `SrvA.Denotes`, see `ServerHybrid.lean`) -/

/-- every inner node of the table tests one of the `n` declared statements -/
def varsBelow (ns : Array Node) (n : Nat) : Bool :=
  (List.range ns.size).all (fun i => decide (i < 2) ||
    (match ns[i]? with | some nd => decide (nd.var < n) | none => true))

/-- every root is an index of the table -/
def rootsValid (ns : Array Node) (ac : List Nat) : Bool := ac.all (fun t => decide (t < ns.size))

/-- `storedAdfOKC` as a Boolean, with two more conjuncts: the roots are indices of the table and every
inner node of the table tests a declared statement (so comparing on the `2^n` assignments of the
declared statements decides equality of the functions) -/
def storedAdfChk (cond : Except Err (List String × List Fm)) (a : SAdf) : Bool :=
  match cond with
  | .error _ => false
  | .ok (names, fs) =>
    wfCheck a.nodes && (a.names == names) && (a.ac.length == fs.length) &&
    rootsValid a.nodes a.ac && varsBelow a.nodes fs.length &&
    (List.range fs.length).all (fun s =>
      (List.range (2 ^ fs.length)).all (fun m =>
        evalF a.nodes (a.nodes.size + 1) (a.ac.getD s 0) (WebSem.asgOf m) == (fs.getD s Fm.bot).sem (WebSem.asgOf m)))

/-- the run-time check of a stored ADF the driver reports: `ok` iff `storedAdfChk` holds; otherwise the
message of `storedAdfOK` if that one objects, else the new objection -/
def storedAdfOK' (code : String) (a : SAdf) : String :=
  if storedAdfChk (conditions code) a then "ok"
  else if storedAdfOK code a != "ok" then storedAdfOK code a
  else "violated variable-or-root-out-of-range"

end ServerAdf
