import AdfObdd.Channel
/-! # The receiver is dropped before the last result was sent: the producer panics

`Chan.send_after_drop_panics` is about ONE producer step with a message pending.  Here the consequence over
whole schedules: if the receiver is gone while fewer results have been handed to the channel than the loop
emits in total, then every continuation of the schedule with enough producer steps (at most the remaining
loop iterations + 1) ends in the panic of `expect` (`adf.rs:922`); the consumer receives nothing more. -/
namespace Chan
variable {σ α : Type}

theorem dstep_panicked_stays (P : Producer σ α) (cap : Option Nat) (c : DCfg σ α) (e : DEv)
    (h : c.panicked = true) : (dstep P cap c e).panicked = true := by
  cases e with
  | prod => simp [dstep, h]
  | cons =>
    simp only [dstep]
    split <;> exact h
  | dropRecv => exact h

theorem drun_panicked_stays (P : Producer σ α) (cap : Option Nat) (sched : List DEv) :
    ∀ c : DCfg σ α, c.panicked = true → (drun P cap sched c).panicked = true := by
  induction sched with
  | nil => intro c h; exact h
  | cons e es ih => intro c h; exact ih _ (dstep_panicked_stays P cap c e h)

/-- once the receiver is gone the consumer's list does not change any more -/
theorem drun_got_frozen (P : Producer σ α) (cap : Option Nat) (sched : List DEv) :
    ∀ c : DCfg σ α, c.recvGone = true →
      (drun P cap sched c).base.got = c.base.got ∧ (drun P cap sched c).recvGone = true := by
  induction sched with
  | nil => intro c h; exact ⟨rfl, h⟩
  | cons e es ih =>
    intro c h
    have key : (dstep P cap c e).base.got = c.base.got ∧ (dstep P cap c e).recvGone = true := by
      cases e with
      | prod =>
        simp only [dstep]
        split
        · exact ⟨rfl, h⟩
        · split
          · exact ⟨rfl, h⟩
          · refine ⟨?_, h⟩
            show (prodStep P cap c.base).got = c.base.got
            unfold prodStep
            split
            · rfl
            · split
              · split <;> rfl
              · split <;> rfl
      | cons => simp [dstep, h]
      | dropRecv => exact ⟨rfl, rfl⟩
    have ⟨a, b⟩ := ih _ key.2
    exact ⟨a.trans key.1, b⟩

/-- **receiver dropped before the last result: panic.** `c` is any configuration reachable with the
invariant in which the receiver is gone and fewer results were handed to the channel than the loop emits in
total.  Then every schedule containing more than `N - iters` producer steps leaves the producer panicked. -/
theorem recv_dropped_panics {P : Producer σ α} (hm : Mono P) {cap : Option Nat} {p0 : σ} {N : Nat}
    (hN : P.done (runG P N p0) = true) (sched : List DEv) :
    ∀ c : DCfg σ α, Inv P cap p0 c.base → c.recvGone = true →
      c.base.sent < (P.out (runG P N p0)).length → N - c.base.iters < sched.count DEv.prod →
      (drun P cap sched c).panicked = true := by
  induction sched with
  | nil => intro c _ _ _ h; simp at h
  | cons e es ih =>
    intro c hi hg hlt hcnt
    show (drun P cap es (dstep P cap c e)).panicked = true
    cases hpk : c.panicked with
    | true => exact drun_panicked_stays P cap es _ (dstep_panicked_stays P cap c e hpk)
    | false =>
      -- the sender has not been dropped: that would mean everything was sent
      have hcl : c.base.closed = false := by
        cases hc : c.base.closed with
        | false => rfl
        | true =>
          have ⟨hd, hs⟩ := hi.hc hc
          rw [hi.hp] at hd
          have := done_final hN hd
          rw [hs, hi.hp, this] at hlt
          omega
      cases e with
      | cons =>
        have : dstep P cap c .cons = c := by simp [dstep, hg]
        rw [this]
        exact ih c hi hg hlt (by simpa using hcnt)
      | dropRecv =>
        have : dstep P cap c .dropRecv = c := by
          show ({ c with recvGone := true } : DCfg σ α) = c
          cases c; simp_all
        rw [this]
        exact ih c hi hg hlt (by simpa using hcnt)
      | prod =>
        cases hv : (P.out c.base.p)[c.base.sent]? with
        | some v =>
          exact drun_panicked_stays P cap es _ (send_after_drop_panics P cap c v hg hpk hcl hv).1
        | none =>
          rw [no_pending_no_panic P cap c hpk hv]
          have hge : (P.out c.base.p).length ≤ c.base.sent := by
            rcases Nat.lt_or_ge c.base.sent (P.out c.base.p).length with x | x
            · rw [List.getElem?_eq_getElem x] at hv; cases hv
            · exact x
          have hnd : P.done c.base.p = false := by
            cases hd : P.done c.base.p with
            | false => rfl
            | true =>
              rw [hi.hp] at hd
              have := done_final hN hd
              rw [hi.hp, this] at hge
              omega
          have hit : c.base.iters < N := by
            apply not_done_lt hN
            rw [← hi.hp]; exact hnd
          have hps : prodStep P cap c.base = { c.base with p := P.iter c.base.p, iters := c.base.iters + 1 } := by
            unfold prodStep
            rw [if_neg (by rw [hcl]; decide)]; simp only [Bool.false_eq_true, if_false, hv, hnd]
          apply ih
          · exact prodStep_inv hm hi
          · exact hg
          · show (prodStep P cap c.base).sent < _
            rw [hps]; exact hlt
          · show N - (prodStep P cap c.base).iters < _
            rw [hps]
            simp at hcnt
            show N - (c.base.iters + 1) < _
            omega

/-- the toy producer: the receiver is dropped after the first of three results; three more producer steps
and the thread has panicked, the consumer keeps `[0]` -/
example :
    let c := drun toy (some 1) [.prod, .prod, .cons, .dropRecv, .cons, .prod, .prod, .cons] ⟨init 0, false, false⟩
    c.panicked = true ∧ c.base.got = [0] := by decide

end Chan
