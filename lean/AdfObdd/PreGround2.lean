import AdfObdd.PreGround
/-! prototype 39: the least fixpoint lies below every *pre*-fixpoint of Γ; with a meet on
    interpretations this gives: every fixpoint of the reduct's operator lies above the grounded
    interpretation — the lemma behind "pre-grounding does not change the stable models" -/

/-- one semantic round stays below a pre-fixpoint -/
theorem round_le_prefix {D V : List BoolFn} (r : Reach D V) {w' : I3} (hw' : Le3 (Gam D w') w')
    (hle : Le3 (cv V) w') : Le3 (cv (semRound V)) w' := by
  intro i b h
  simp only [cv, List.getElem?_map, semRound_get] at h
  cases hv : V[i]? with
  | none => simp [hv] at h
  | some f0 =>
    simp only [hv, Option.map_some, Option.some.injEq] at h
    rw [constOf_some] at h
    have hlen : i < D.length := by
      rw [← r.len]
      rcases Nat.lt_or_ge i V.length with h' | h'
      · exact h'
      · simp [List.getElem?_eq_none h'] at hv
    have hg : D[i]? = some D[i] := List.getElem?_eq_getElem hlen
    have hG : (Gam D (cv V))[i]? = some (some b) := by
      simp only [Gam, List.getElem?_map, hg, Option.map_some, Option.some.injEq]
      rw [constOf_some]
      intro σ
      rw [← r.res i f0 D[i] hv hg _ (agree_over σ (cv V))]
      exact h σ
    exact hw' i b (Gam_mono D hle i b hG)

theorem semLoop_le_prefix (D : List BoolFn) {w' : I3} (hw' : Le3 (Gam D w') w') :
    ∀ (fuel : Nat) (V : List BoolFn), Reach D V → Le3 (cv V) w' → Le3 (cv (semLoop fuel V)) w' := by
  intro fuel
  induction fuel with
  | zero => intro V _ h; exact h
  | succ f ih =>
    intro V r hle
    unfold semLoop
    have rr := reach_round r
    have step := round_le_prefix r hw' hle
    by_cases hc : countSome ((semRound V).map constOf) = countSome (V.map constOf)
    · rw [if_pos hc]; exact step
    · rw [if_neg hc]; exact ih _ rr step

theorem Le3_antisymm {w w' : I3} (hl : w.length = w'.length) (h1 : Le3 w w') (h2 : Le3 w' w) : w = w' := by
  apply List.ext_getElem?
  intro i
  rcases Nat.lt_or_ge i w.length with hi | hi
  · have hi' : i < w'.length := by omega
    rw [List.getElem?_eq_getElem hi, List.getElem?_eq_getElem hi']
    congr 1
    cases ha : w[i] with
    | some b =>
      have := h1 i b (by rw [List.getElem?_eq_getElem hi, ha])
      rw [List.getElem?_eq_getElem hi'] at this
      simp only [Option.some.injEq] at this; exact this.symm
    | none =>
      cases hb : w'[i] with
      | none => rfl
      | some b =>
        have := h2 i b (by rw [List.getElem?_eq_getElem hi', hb])
        rw [List.getElem?_eq_getElem hi] at this
        simp only [Option.some.injEq] at this; rw [ha] at this; cases this
  · rw [List.getElem?_eq_none hi, List.getElem?_eq_none (by omega)]

/-- the least fixpoint is the least pre-fixpoint -/
theorem lfp_le_prefix (D : List BoolFn) (g : I3) (hg : IsLfp D g) {w' : I3} (hw' : Le3 (Gam D w') w') :
    Le3 g w' := by
  have ⟨fx, least⟩ := grounded_sem D (D.length + 1) (by omega)
  have r0 : Reach D D := by
    apply reach_init
    intro w hw i b h
    simp only [cv, List.getElem?_map] at h
    cases hd : D[i]? with
    | none => simp [hd] at h
    | some f =>
      simp only [hd, Option.map_some, Option.some.injEq] at h
      rw [constOf_some] at h
      rw [← hw]
      simp only [Gam, List.getElem?_map, hd, Option.map_some, Option.some.injEq]
      rw [constOf_some]
      intro σ; exact h _
  -- the loop result is below the pre-fixpoint …
  have h0 : Le3 (cv D) w' := by
    intro i b h
    apply hw' i b
    simp only [cv, List.getElem?_map] at h
    cases hd : D[i]? with
    | none => simp [hd] at h
    | some f =>
      simp only [hd, Option.map_some, Option.some.injEq] at h
      rw [constOf_some] at h
      simp only [Gam, List.getElem?_map, hd, Option.map_some, Option.some.injEq]
      rw [constOf_some]
      intro σ; exact h _
  have hle := semLoop_le_prefix D hw' (D.length + 1) D r0 h0
  -- … and equals `g`
  have e : g = cv (semLoop (D.length + 1) D) := by
    apply Le3_antisymm
    · have a := congrArg List.length hg.1
      have b := congrArg List.length fx
      rw [Gam_length] at a b; omega
    · exact hg.2 _ fx
    · exact least g hg.1
  rw [e]; exact hle

/-! ### meet of two interpretations -/
def meet3 : I3 → I3 → I3
  | a :: w, b :: w' => (if a = b then a else none) :: meet3 w w'
  | _, _ => []

theorem meet3_get : ∀ (w w' : I3) (i : Nat) (b : Bool),
    (meet3 w w')[i]? = some (some b) ↔ (w[i]? = some (some b) ∧ w'[i]? = some (some b)) := by
  intro w
  induction w with
  | nil => intro w' i b; simp [meet3]
  | cons a w ih =>
    intro w' i b
    cases w' with
    | nil => simp [meet3]
    | cons a' w' =>
      cases i with
      | zero =>
        simp only [meet3, List.getElem?_cons_zero, Option.some.injEq]
        by_cases e : a = a'
        · rw [if_pos e]; subst e; simp
        · rw [if_neg e]
          constructor
          · intro h; cases h
          · intro ⟨h1, h2⟩; rw [h1] at e; rw [h2] at e; exact absurd rfl e
      | succ i => simp only [meet3, List.getElem?_cons_succ]; exact ih w' i b

/-- every fixpoint of the reduct's operator lies above the grounded interpretation of the
original conditions (for a total `v` above it) -/
theorem lfp_le_reduct_fix (D : List BoolFn) (g v w : I3) (hg : IsLfp D g) (hgv : Le3 g v)
    (hw : Gam (redu D v) w = w) : Le3 g w := by
  -- `m = g ⊓ w` is a pre-fixpoint of Γ_D
  have hm : Le3 (Gam D (meet3 g w)) (meet3 g w) := by
    intro i b h
    rw [meet3_get]
    have mg : Le3 (meet3 g w) g := fun j c hj => ((meet3_get g w j c).mp hj).1
    have mw : Le3 (meet3 g w) w := fun j c hj => ((meet3_get g w j c).mp hj).2
    refine ⟨?_, ?_⟩
    · have := Gam_mono D mg i b h; rwa [hg.1] at this
    · -- forced under `m` in `D` ⇒ forced under `w` in the reduct
      simp only [Gam, List.getElem?_map] at h
      cases hd : D[i]? with
      | none => simp [hd] at h
      | some f =>
        simp only [hd, Option.map_some, Option.some.injEq] at h
        rw [constOf_some] at h
        rw [← hw]
        have hr : (redu D v)[i]? = some (fun σ => f (over σ 0 (falsePart v))) := by simp [redu, hd]
        rw [Gam_get _ _ _ _ hr]
        congr 1
        rw [constOf_some]
        intro σ
        -- the argument agrees with `m`
        have ag : Agree (over (over σ 0 w) 0 (falsePart v)) (meet3 g w) := by
          intro j c hj
          have ⟨hjg, hjw⟩ := (meet3_get g w j c).mp hj
          rw [over_apply]
          simp only [Nat.zero_le, if_true, Nat.sub_zero]
          have hjv := hgv j c hjg
          rw [falsePart_get, hjv]
          cases c with
          | false => simp
          | true =>
            simp only [Option.map_some]
            have := agree_over σ w j true hjw
            simpa using this
        have := h (over (over σ 0 w) 0 (falsePart v))
        rw [over_of_agree ag] at this
        exact this
  have := lfp_le_prefix D g hg hm
  exact fun i b h => ((meet3_get g w i b).mp (this i b h)).2
#print axioms lfp_le_prefix
#print axioms lfp_le_reduct_fix
