import AdfObdd.CountInstanceProofs
import AdfObdd.PreGround2
/-! End to end: `countAll` (grounded start vector, the counting-guided search, the stability filter)
    returns exactly the stable models, each once. -/
namespace CI

/-! ### the start vector -/

/-- pointwise two-valued models of the conditions -/
def TM (D : List BoolFn) (σ : Asg) : Prop := ∀ (i : Nat) (f : BoolFn), D[i]? = some f → f σ = σ i

theorem reach_semLoop (D : List BoolFn) (fuel : Nat) (hf : D.length < fuel) : Reach D (semLoop fuel D) := by
  have r0 : Reach D D := by
    apply reach_init
    intro w' hw' i b h
    simp only [cv, List.getElem?_map] at h
    cases hd : D[i]? with
    | none => simp [hd] at h
    | some f =>
      simp only [hd, Option.map_some, Option.some.injEq] at h
      rw [constOf_some] at h
      rw [← hw']
      simp only [Gam, List.getElem?_map, hd, Option.map_some, Option.some.injEq]
      rw [constOf_some]
      intro σ; exact h _
  exact (semLoop_spec D fuel D r0 (by omega)).1

theorem d3_eq_asg3 (v : List Nat) : d3 v = asg3 StoreRA v := rfl

/-- the grounded vector satisfies the invariant of the search, for the target set `TM D` -/
theorem start_inv (s : Store) (n : Nat) (ac : List Nat) (w : WF s) (hn : ac.length = n)
    (hv : ∀ t ∈ ac, t < s.nodes.size) :
    CInv n ac (TM (ac.map (eval s))) (groundedLoop StoreRA (n + 1) s ac).1
      ((groundedLoop StoreRA (n + 1) s ac).2, List.replicate n 2) ∧
    Ext s (groundedLoop StoreRA (n + 1) s ac).1 := by
  have ⟨w1, e1, v1, d1⟩ := groundedLoop_sem StoreRA (n + 1) s ac w hv
  have w1 : WF (groundedLoop StoreRA (n + 1) s ac).1 := w1
  have e1 : Ext s (groundedLoop StoreRA (n + 1) s ac).1 := e1
  have d1 : (groundedLoop StoreRA (n + 1) s ac).2.map (eval (groundedLoop StoreRA (n + 1) s ac).1) =
      semLoop (n + 1) (ac.map (eval s)) := d1
  have hr := reach_semLoop (ac.map (eval s)) (n + 1) (by simp [hn])
  have hcv : d3 (groundedLoop StoreRA (n + 1) s ac).2 = cv (semLoop (n + 1) (ac.map (eval s))) := by
    rw [d3_eq_asg3, asg3_eq StoreRA w1 v1]
    show ((groundedLoop StoreRA (n + 1) s ac).2.map (eval (groundedLoop StoreRA (n + 1) s ac).1)).map constOf = _
    rw [d1]
  have hlen : (groundedLoop StoreRA (n + 1) s ac).2.length = n := by
    have := congrArg List.length d1
    rw [List.length_map, hr.len, List.length_map, hn] at this
    exact this
  refine ⟨⟨w1, hlen, by simp, hn, v1, fun t ht => Nat.lt_of_lt_of_le (hv t ht) e1.1, ?_, ?_⟩, e1⟩
  · intro σ ht ha j t hj
    have hV : (semLoop (n + 1) (ac.map (eval s)))[j]? = some (eval (groundedLoop StoreRA (n + 1) s ac).1 t) := by
      rw [← d1, List.getElem?_map, hj]; rfl
    have hjn : j < (ac.map (eval s)).length := by
      rw [List.length_map, hn, ← hlen]; exact get_lt hj
    have hD : (ac.map (eval s))[j]? = some (ac.map (eval s))[j] := List.getElem?_eq_getElem hjn
    have := hr.res j _ _ hV hD σ (by rw [← hcv]; exact ha)
    show eval (groundedLoop StoreRA (n + 1) s ac).1 t σ = σ j
    rw [this]
    exact ht j _ hD
  · intro j t hj ht
    rw [List.getElem?_replicate] at hj
    split at hj
    · cases hj; cases ht
    · cases hj

/-! ### the stability filter -/

theorem all_sameInfo_iff : ∀ (a b : List Nat), a.length = b.length →
    ((a.zip b).all (fun (x : Nat × Nat) => sameInfo x.1 x.2) = true ↔ d3 a = d3 b) := by
  intro a
  induction a with
  | nil => intro b h; cases b with | nil => simp [d3] | cons _ _ => simp at h
  | cons x xs ih =>
    intro b h
    cases b with
    | nil => simp at h
    | cons y ys =>
      have := ih ys (by simpa using h)
      simp only [List.zip_cons_cons, List.all_cons, Bool.and_eq_true, this, d3, List.map_cons, List.cons.injEq,
        sameInfo_iff]

theorem IsLfp_unique {D : List BoolFn} {a b : I3} (ha : IsLfp D a) (hb : IsLfp D b) : a = b := by
  have la : a.length = D.length := by have := congrArg List.length ha.1; rw [Gam_length] at this; omega
  have lb : b.length = D.length := by have := congrArg List.length hb.1; rw [Gam_length] at this; omega
  exact Le3_antisymm (by omega) (ha.2 b hb.1) (hb.2 a ha.1)

/-- what the filter tests, independently of the store -/
def Chk (D : List BoolFn) (v : List Nat) : Prop := IsLfp (redu D (d3 v)) (d3 v)

theorem stabilityCheckC_spec (s : Store) (n : Nat) (ac cand : List Nat) (w : WF s) (hn : ac.length = n)
    (hv : ∀ t ∈ ac, t < s.nodes.size) (hc : cand.length = n) :
    WF (stabilityCheckC s n ac cand).1 ∧ Ext s (stabilityCheckC s n ac cand).1 ∧
    ((stabilityCheckC s n ac cand).2 = true ↔ Chk (ac.map (eval s)) cand) := by
  unfold stabilityCheckC
  simp only
  rw [mapFalse_eq]
  have ⟨w1, e1, l1, d1⟩ := mapS_spec (computes_restrictFalse cand) ac s w hv
  generalize mapS (fun s t => restrictFalse s t 0 cand) s ac = red at *
  have hv1 : ∀ t ∈ red.2, t < red.1.nodes.size := by
    intro t ht
    obtain ⟨j, hj⟩ := List.mem_iff_getElem?.mp ht
    have hjl : j < ac.length := by rw [← l1]; exact get_lt hj
    obtain ⟨t', h1, h2, _⟩ := d1 j ac[j] (List.getElem?_eq_getElem hjl)
    rw [h1] at hj; cases hj; exact h2
  have hred : red.2.map (eval red.1) = redu (ac.map (eval s)) (d3 cand) := by
    apply List.ext_getElem?
    intro j
    simp only [redu, List.getElem?_map]
    cases hj : ac[j]? with
    | none =>
      have : red.2[j]? = none := by
        apply List.getElem?_eq_none
        rw [l1]
        rcases Nat.lt_or_ge j ac.length with h' | h'
        · rw [List.getElem?_eq_getElem h'] at hj; cases hj
        · exact h'
      simp [this]
    | some t =>
      obtain ⟨t', h1, _, h3⟩ := d1 j t hj
      simp only [h1, Option.map_some, Option.some.injEq]
      funext σ; exact h3 σ
  have ⟨w2, e2, _, _⟩ := groundedLoop_sem StoreRA (n + 1) red.1 red.2 w1 hv1
  have hg := grounded_native (n + 1) red.1 red.2 w1 hv1 (by omega)
  simp only at hg
  rw [hred] at hg
  generalize groundedLoop StoreRA (n + 1) red.1 red.2 = grd at *
  have hL : IsLfp (redu (ac.map (eval s)) (d3 cand)) (d3 grd.2) := hg
  have hlen : grd.2.length = cand.length := by
    have := congrArg List.length hL.1
    rw [Gam_length] at this
    simp only [redu, List.length_map, d3] at this
    omega
  refine ⟨w2, Ext.trans e1 e2, ?_⟩
  rw [all_sameInfo_iff _ _ hlen]
  constructor
  · intro h; unfold Chk; have hL' := hL; rw [h] at hL'; exact hL'
  · intro h; exact IsLfp_unique hL h

theorem map_eval_ext {s s' : Store} (w : WF s) (e : Ext s s') {ac : List Nat} (hv : ∀ t ∈ ac, t < s.nodes.size) :
    ac.map (eval s') = ac.map (eval s) := by
  apply List.map_congr_left
  intro t ht; funext σ; exact eval_ext w e t σ (hv t ht)

/-- the filter keeps exactly the candidates that pass the (store-independent) test, in order -/
theorem stableFilter_spec (s0 : Store) (n : Nat) (ac : List Nat) (w0 : WF s0) (hn : ac.length = n)
    (hv : ∀ t ∈ ac, t < s0.nodes.size) :
    ∀ (cands : List (List Nat)) (acc : Store × List (List Nat)), WF acc.1 → Ext s0 acc.1 →
      (∀ v ∈ cands, v.length = n) →
      ∃ l', (cands.foldl (fun (acc : Store × List (List Nat)) v =>
              let chk := stabilityCheckC acc.1 n ac v
              (chk.1, if chk.2 then acc.2 ++ [v] else acc.2)) acc).2 = acc.2 ++ l' ∧
        l'.Sublist cands ∧ ∀ v, v ∈ l' ↔ v ∈ cands ∧ Chk (ac.map (eval s0)) v := by
  intro cands
  induction cands with
  | nil => intro acc _ _ _; exact ⟨[], by simp, List.Sublist.refl _, by simp⟩
  | cons c cs ih =>
    intro acc wa ea hl
    have hva : ∀ t ∈ ac, t < acc.1.nodes.size := fun t ht => Nat.lt_of_lt_of_le (hv t ht) ea.1
    have ⟨w1, e1, h1⟩ := stabilityCheckC_spec acc.1 n ac c wa hn hva (hl c (List.mem_cons_self ..))
    rw [map_eval_ext w0 ea hv] at h1
    simp only [List.foldl_cons]
    obtain ⟨l', a1, a2, a3⟩ := ih ((stabilityCheckC acc.1 n ac c).1,
        if (stabilityCheckC acc.1 n ac c).2 then acc.2 ++ [c] else acc.2) w1 (Ext.trans ea e1)
        (fun v hv' => hl v (List.mem_cons_of_mem _ hv'))
    rw [a1]
    by_cases hc : (stabilityCheckC acc.1 n ac c).2 = true
    · rw [if_pos hc]
      refine ⟨c :: l', by simp, a2.cons_cons c, ?_⟩
      intro v
      simp only [List.mem_cons, a3]
      constructor
      · rintro (rfl | ⟨h, h'⟩)
        · exact ⟨Or.inl rfl, h1.mp hc⟩
        · exact ⟨Or.inr h, h'⟩
      · rintro ⟨rfl | h, h'⟩
        · exact Or.inl rfl
        · exact Or.inr ⟨h, h'⟩
    · rw [if_neg hc]
      refine ⟨l', rfl, a2.cons c, ?_⟩
      intro v
      simp only [List.mem_cons, a3]
      constructor
      · rintro ⟨h, h'⟩; exact ⟨Or.inr h, h'⟩
      · rintro ⟨rfl | h, h'⟩
        · exact absurd (h1.mpr h') hc
        · exact ⟨h, h'⟩

/-! ### total vectors and their assignments -/

/-- the assignment of a (total) interpretation, `false` elsewhere -/
def asgOf (v : I3) : Asg := fun x => match v[x]? with | some (some b) => b | _ => false

theorem agree_asgOf (v : I3) : Agree (asgOf v) v := by
  intro i b h; simp [asgOf, h]

theorem regI_asgOf {n : Nat} {v : I3} (hl : v.length = n) : RegI n v (asgOf v) :=
  ⟨agree_asgOf v, fun x hx => by simp [asgOf, List.getElem?_eq_none (by omega : v.length ≤ x)]⟩

theorem total_of_good {n : Nat} {o : List Nat} (h : GoodO n o) : (d3 o).length = n ∧ TotalI (d3 o) := by
  refine ⟨by rw [d3_length]; exact h.1, ?_⟩
  intro i hi
  rw [d3_length] at hi
  obtain ⟨b, hb⟩ := isTV_iff.mp (h.2 o[i] (List.getElem_mem hi))
  exact ⟨b, by rw [d3_get, List.getElem?_eq_getElem hi]; simp [hb]⟩

/-- a total vector is determined by any assignment agreeing with it -/
theorem total_eq_of_agree {n : Nat} {v v' : I3} (hl : v.length = n) (hl' : v'.length = n) (ht : TotalI v)
    (ht' : TotalI v') {σ : Asg} (ha : Agree σ v) (ha' : Agree σ v') : v = v' := by
  apply List.ext_getElem?
  intro i
  rcases Nat.lt_or_ge i n with hi | hi
  · obtain ⟨b, hb⟩ := ht i (by omega)
    obtain ⟨b', hb'⟩ := ht' i (by omega)
    rw [hb, hb', ← ha i b hb, ← ha' i b' hb']
  · rw [List.getElem?_eq_none (by omega), List.getElem?_eq_none (by omega)]

theorem disj_ne {n : Nat} {ac : List Nat} {T : Asg → Prop} {o o' : List Nat} (hg : GoodO n o)
    (hd : GK.DisjO (view n ac T) o o') : d3 o ≠ d3 o' := by
  intro e
  apply hd (asgOf (d3 o))
  have := regI_asgOf (total_of_good hg).1
  refine ⟨this, ?_⟩
  show RegI n (d3 o') (asgOf (d3 o))
  rw [← e]; exact this

/-- a two-valued model (as a fixpoint of Γ) gives a pointwise model -/
theorem tm_of_fix {D : List BoolFn} {v : I3} (hfix : Gam D v = v) (ht : TotalI v) (hl : v.length = D.length) :
    TM D (asgOf v) := by
  intro i f hf
  have hi : i < v.length := by rw [hl]; exact get_lt' hf
  obtain ⟨b, hb⟩ := ht i hi
  have h1 : (Gam D v)[i]? = some (some b) := by rw [hfix]; exact hb
  rw [Gam_get D v i f hf] at h1
  have h2 : constOf (fun σ => f (over σ 0 v)) = some b := by simpa using h1
  have := (constOf_some.mp h2) (asgOf v)
  rw [over_of_agree (agree_asgOf v)] at this
  rw [this]; exact (agree_asgOf v i b hb).symm
where
  get_lt' {α : Type} {l : List α} {j : Nat} {t : α} (h : l[j]? = some t) : j < l.length := by
    rcases Nat.lt_or_ge j l.length with h' | h'
    · exact h'
    · rw [List.getElem?_eq_none h'] at h; cases h

/-! ### the theorem -/

/-- `v` is a stable model of `D` (interpretations of length `n`): a two-valued model whose true
statements are true in the least fixpoint of its reduct -/
def IsStable (n : Nat) (D : List BoolFn) (v : I3) : Prop :=
  v.length = n ∧ TotalI v ∧ Gam D v = v ∧
    ∀ w : I3, IsLfp (redu D v) w → ∀ i : Nat, v[i]? = some (some true) → w[i]? = some (some true)

/-- the store-independent content of the filter is the definition of a stable model -/
theorem chk_iff_stable {D : List BoolFn} {v : I3} (hl : v.length = D.length) (ht : TotalI v) :
    IsLfp (redu D v) v ↔
      (Gam D v = v ∧ ∀ w : I3, IsLfp (redu D v) w → ∀ i : Nat, v[i]? = some (some true) → w[i]? = some (some true)) := by
  constructor
  · intro hw
    refine ⟨((stable_check_iff D v v hl ht hw).mp rfl).1, ?_⟩
    intro w' hw' i hi
    rw [IsLfp_unique hw' hw]; exact hi
  · intro ⟨hfix, htrue⟩
    have hL : IsLfp (redu D v) (cv (semLoop (D.length + 1) (redu D v))) :=
      grounded_sem (redu D v) (D.length + 1) (by simp [redu])
    have := (stable_check_iff D v _ hl ht hL).mpr ⟨hfix, htrue _ hL⟩
    rw [this] at hL; exact hL

/-- C04 for the concrete model: `countAll` returns each stable model exactly once -/
theorem countAll_exact (s : Store) (n : Nat) (ac : List Nat) (useA : Bool) (w : WF s) (hn : ac.length = n)
    (hv : ∀ t ∈ ac, t < s.nodes.size) :
    ((countAll s n ac useA).2.map d3).Nodup ∧
    ∀ v : I3, v ∈ (countAll s n ac useA).2.map d3 ↔ IsStable n (ac.map (eval s)) v := by
  have ⟨hinv, e0⟩ := start_inv s n ac w hn hv
  have sp := countLogic_spec useA hinv
  have hgr := grounded_native (n + 1) s ac w hv (by omega)
  simp only at hgr
  unfold countAll stableFilter
  simp only
  generalize groundedLoop StoreRA (n + 1) s ac = g at *
  generalize countLogic ac useA (n + 1) g.1 g.2 (List.replicate n 2) = c at *
  have hle : SLe g.1 c.1 := sp.le
  have hgood : ∀ o ∈ c.2, GoodO n o := sp.good
  have hD : (ac.map (eval s)).length = n := by rw [List.length_map, hn]
  obtain ⟨l', a1, a2, a3⟩ := stableFilter_spec s n ac w hn hv c.2 (c.1, []) (hle.2 hinv.wf)
    (Ext.trans e0 hle.1) (fun v hv' => (hgood v hv').1)
  rw [a1, List.nil_append]
  have hchk : ∀ o ∈ c.2, (Chk (ac.map (eval s)) o ↔
      (Gam (ac.map (eval s)) (d3 o) = d3 o ∧ ∀ w : I3, IsLfp (redu (ac.map (eval s)) (d3 o)) w →
        ∀ i : Nat, (d3 o)[i]? = some (some true) → w[i]? = some (some true))) := by
    intro o ho
    have ⟨h1, h2⟩ := total_of_good (hgood o ho)
    exact chk_iff_stable (by rw [h1, hD]) h2
  constructor
  · -- each model once
    have hpw : c.2.Pairwise (fun a b => d3 a ≠ d3 b) :=
      List.Pairwise.imp_of_mem (fun {a b} ha _ hd => disj_ne (hgood a ha) hd) sp.disj
    exact List.pairwise_map.mpr (hpw.sublist a2)
  · intro v
    rw [List.mem_map]
    constructor
    · rintro ⟨o, ho, rfl⟩
      have ⟨hoc, hck⟩ := (a3 o).mp ho
      have ⟨h1, h2⟩ := total_of_good (hgood o hoc)
      have ⟨h3, h4⟩ := (hchk o hoc).mp hck
      exact ⟨h1, h2, h3, h4⟩
    · intro ⟨h1, h2, h3, h4⟩
      -- the model as an assignment inside the start region
      have hT : TM (ac.map (eval s)) (asgOf v) := tm_of_fix h3 h2 (by rw [h1, hD])
      have hreg : RegI n (d3 g.2) (asgOf v) :=
        (regI_asgOf h1).mono (hgr.2 v h3)
      obtain ⟨o, ho, hro⟩ := sp.cover (asgOf v) hT hreg
      have ⟨g1, g2⟩ := total_of_good (hgood o ho)
      have hov : d3 o = v := total_eq_of_agree g1 h1 g2 h2 hro.1 (agree_asgOf v)
      refine ⟨o, (a3 o).mpr ⟨ho, (hchk o ho).mpr ?_⟩, hov⟩
      rw [hov]; exact ⟨h3, h4⟩

end CI
#print axioms CI.countAll_exact
