import AdfObdd.PersistAnswers
import AdfObdd.CallHistoryMemoFull
/-! # C14, residual rows of the second review (2026-09-28)

(a) `C14.*_after_roundtrip` state `SameAnswers` (no duplicates + same members). After BOTH round
trips the NODE TABLE is the original's (`import_fix`, `rebuildP_ok`), and C11's
`CallH.answers_depend_on_node_table` says every answer — order included — is a function of the
node table, `n`, `ac`: composed here to LIST EQUALITY for every history of calls and for each
search separately.
(b) a two-statement object (`a ↦ ¬b`, `b ↦ ¬a`; two stable models) for non-vacuity instead of the
one-statement `x0Adf`.
(c) `scope_notes`: what the C14 theorems do NOT cover. -/
namespace C14More
open Persist CallH

/-- the object as a call-history state (nothing issued yet) -/
def stateOf (st : Store) (ac : List Nat) : AdfState := { s := st, n := ac.length, ac := ac, issued := [] }

theorem inv_of_sameFns {s s' : Store} {ac : List Nat} (h : SameFns s s' ac) :
    Inv (stateOf s ac) ∧ Inv (stateOf s' ac) :=
  ⟨⟨h.w, rfl, h.hv, fun _ ht => by cases ht⟩, ⟨h.w', rfl, h.hv', fun _ ht => by cases ht⟩⟩

/-- **every history, both round trips, list equality**: any sequence of calls (grounded, complete,
stable, stable with pre-filter, both counting searches, the nogood search in both modes with any
heuristic and bound, queries, extra formulas) run on the object after `export → import →
fix_import` resp. after `Bdd::from(nodes)` returns the SAME LIST of answers — same vectors in the
same order, same handle numbers — as on the never-exported original, and leaves the same node
table. No halting or support hypothesis. -/
theorem history_after_roundtrip (a : PAdf) (w : WF a.bdd.st) (hv : ∀ t ∈ a.ac, t < a.bdd.st.nodes.size)
    (h : List Call) :
    let j := fixImportA (importA (exportA a))
    let r := rebuildP a.bdd.st.nodes
    ((runCalls (stateOf j.bdd.st j.ac) h).2 = (runCalls (stateOf a.bdd.st a.ac) h).2 ∧
      (runCalls (stateOf j.bdd.st j.ac) h).1.s.nodes = (runCalls (stateOf a.bdd.st a.ac) h).1.s.nodes) ∧
    ((runCalls (stateOf r.st a.ac) h).2 = (runCalls (stateOf a.bdd.st a.ac) h).2 ∧
      (runCalls (stateOf r.st a.ac) h).1.s.nodes = (runCalls (stateOf a.bdd.st a.ac) h).1.s.nodes) := by
  intro j r
  have ⟨hj, hr⟩ := roundtrip_sameFns a w hv
  have nj : j.bdd.st.nodes = a.bdd.st.nodes := (import_fix a.bdd w).1
  have nr : r.st.nodes = a.bdd.st.nodes := (rebuildP_ok a.bdd.st w).2.1
  have ⟨i0, ij⟩ := inv_of_sameFns hj
  have ⟨_, ir⟩ := inv_of_sameFns hr
  have A := answers_depend_on_node_table h (stateOf a.bdd.st a.ac) (stateOf j.bdd.st j.ac) i0 ij nj rfl rfl rfl
  have B := answers_depend_on_node_table h (stateOf a.bdd.st a.ac) (stateOf r.st a.ac) i0 ir nr rfl rfl rfl
  exact ⟨⟨A.1, A.2.1⟩, ⟨B.1, B.2.1⟩⟩

/-- generic form: any two well-formed stores with the same node table in which `ac` is valid -/
theorem call_same_nodes {s s' : Store} {ac : List Nat} (w : WF s) (w' : WF s') (hn : s'.nodes = s.nodes)
    (hv : ∀ t ∈ ac, t < s.nodes.size) (c : Call) :
    (runCall (stateOf s' ac) c).2 = (runCall (stateOf s ac) c).2 := by
  have h := SameFns.ofNodes (ac := ac) w w' hn hv
  have ⟨i0, i1⟩ := inv_of_sameFns h
  have A := (answers_depend_on_node_table [c] (stateOf s ac) (stateOf s' ac) i0 i1 hn rfl rfl rfl).1
  simp only [runCalls] at A
  exact (List.cons.inj A).1

/-- **each search separately, list equality** (what `SameAnswers` left open: the ORDER): on two
well-formed stores with the same node table — in particular the original and either round trip —
complete, stable, stable with pre-filter, both counting searches return the same list of vectors,
and the nogood search (any heuristic, mode and bound) the same emitted list and the same verdict
on the bound -/
theorem searches_same_nodes {s s' : Store} {ac : List Nat} (w : WF s) (w' : WF s') (hn : s'.nodes = s.nodes)
    (hv : ∀ t ∈ ac, t < s.nodes.size) :
    (completeAll s' ac.length ac).2.2 = (completeAll s ac.length ac).2.2 ∧
    (stableAll s' ac.length ac).2 = (stableAll s ac.length ac).2 ∧
    (Cli.stablePre s' ac.length ac).2 = (Cli.stablePre s ac.length ac).2 ∧
    (∀ useA, (countAll s' ac.length ac useA).2 = (countAll s ac.length ac useA).2) ∧
    (∀ heu fuel stable, (SM.ngSearch heu fuel s' ac.length ac stable).2.2.2 =
        (SM.ngSearch heu fuel s ac.length ac stable).2.2.2 ∧
      ((SM.ngSearch heu fuel s ac.length ac stable).2.2.2 = true →
        (SM.ngSearch heu fuel s' ac.length ac stable).2.1 = (SM.ngSearch heu fuel s ac.length ac stable).2.1)) := by
  refine ⟨?_, ?_, ?_, ?_, ?_⟩
  · have := call_same_nodes w w' hn hv .complete
    simpa [runCall, stateOf] using this
  · have := call_same_nodes w w' hn hv .stable
    simpa [runCall, stateOf] using this
  · have := call_same_nodes w w' hn hv .stablePre
    simpa [runCall, stateOf] using this
  · intro useA
    have := call_same_nodes w w' hn hv (.count useA)
    simpa [runCall, stateOf] using this
  · intro heu fuel stable
    have := call_same_nodes w w' hn hv (.ng heu fuel stable)
    simp only [runCall, stateOf] at this
    cases h1 : (SM.ngSearch heu fuel s ac.length ac stable).2.2.2 <;>
      cases h2 : (SM.ngSearch heu fuel s' ac.length ac stable).2.2.2 <;>
      simp [h1, h2] at this ⊢
    exact this.1

/-- … instantiated on both round trips -/
theorem searches_after_roundtrip (a : PAdf) (w : WF a.bdd.st) (hv : ∀ t ∈ a.ac, t < a.bdd.st.nodes.size) :
    let j := fixImportA (importA (exportA a))
    let r := rebuildP a.bdd.st.nodes
    let n := a.ac.length
    ((completeAll j.bdd.st n j.ac).2.2 = (completeAll a.bdd.st n a.ac).2.2 ∧
     (stableAll j.bdd.st n j.ac).2 = (stableAll a.bdd.st n a.ac).2 ∧
     (Cli.stablePre j.bdd.st n j.ac).2 = (Cli.stablePre a.bdd.st n a.ac).2 ∧
     (∀ useA, (countAll j.bdd.st n j.ac useA).2 = (countAll a.bdd.st n a.ac useA).2)) ∧
    ((completeAll r.st n a.ac).2.2 = (completeAll a.bdd.st n a.ac).2.2 ∧
     (stableAll r.st n a.ac).2 = (stableAll a.bdd.st n a.ac).2 ∧
     (Cli.stablePre r.st n a.ac).2 = (Cli.stablePre a.bdd.st n a.ac).2 ∧
     (∀ useA, (countAll r.st n a.ac useA).2 = (countAll a.bdd.st n a.ac useA).2)) := by
  intro j r n
  have ⟨hj, hr⟩ := roundtrip_sameFns a w hv
  have nj : j.bdd.st.nodes = a.bdd.st.nodes := (import_fix a.bdd w).1
  have nr : r.st.nodes = a.bdd.st.nodes := (rebuildP_ok a.bdd.st w).2.1
  have A := searches_same_nodes w hj.w' nj hv
  have B := searches_same_nodes w hr.w' nr hv
  exact ⟨⟨A.1, A.2.1, A.2.2.1, A.2.2.2.1⟩, ⟨B.1, B.2.1, B.2.2.1, B.2.2.2.1⟩⟩

/-- the nogood search after either round trip: same verdict on the bound for EVERY bound, and on a
halted run the same emitted list (order included) -/
theorem nogood_after_roundtrip (a : PAdf) (w : WF a.bdd.st) (hv : ∀ t ∈ a.ac, t < a.bdd.st.nodes.size)
    (heu : SM.Heu) (fuel : Nat) (stable : Bool)
    (hd : (SM.ngSearch heu fuel a.bdd.st a.ac.length a.ac stable).2.2.2 = true) :
    let j := fixImportA (importA (exportA a))
    let r := rebuildP a.bdd.st.nodes
    ((SM.ngSearch heu fuel j.bdd.st a.ac.length j.ac stable).2.2.2 = true ∧
      (SM.ngSearch heu fuel j.bdd.st a.ac.length j.ac stable).2.1 =
        (SM.ngSearch heu fuel a.bdd.st a.ac.length a.ac stable).2.1) ∧
    ((SM.ngSearch heu fuel r.st a.ac.length a.ac stable).2.2.2 = true ∧
      (SM.ngSearch heu fuel r.st a.ac.length a.ac stable).2.1 =
        (SM.ngSearch heu fuel a.bdd.st a.ac.length a.ac stable).2.1) := by
  intro j r
  have ⟨hj, hr⟩ := roundtrip_sameFns a w hv
  have nj : j.bdd.st.nodes = a.bdd.st.nodes := (import_fix a.bdd w).1
  have nr : r.st.nodes = a.bdd.st.nodes := (rebuildP_ok a.bdd.st w).2.1
  have A := (searches_same_nodes w hj.w' nj hv).2.2.2.2 heu fuel stable
  have B := (searches_same_nodes w hr.w' nr hv).2.2.2.2 heu fuel stable
  exact ⟨⟨A.1.trans hd, A.2 hd⟩, ⟨B.1.trans hd, B.2 hd⟩⟩

/-! ## (b) a two-statement object -/

/-- `s(a). s(b). ac(a, neg(b)). ac(b, neg(a)).` as a persisted object: handle 2 = ¬x0 (node
`(0, ⊤, ⊥)`), handle 3 = ¬x1 (node `(1, ⊤, ⊥)`), `ac = [3, 2]`; `var_deps` as `node` maintains it -/
def negStore : Store := (mkNode (mkNode Store.init 0 1 0).1 1 1 0).1

def negAdf : PAdf :=
  { names := ["a", "b"], bdd := ⟨negStore, #[[], [], [0], [1]], {}⟩, ac := [3, 2] }

theorem negStore_nodes : negStore.nodes = #[⟨VBOT, 0, 0⟩, ⟨VTOP, 1, 1⟩, ⟨0, 1, 0⟩, ⟨1, 1, 0⟩] := by
  simp [negStore, mkNode, Store.init]

theorem negStore_WF : WF negStore := by
  have w1 := (mkNode_spec Store.init WF_init 0 1 0 (by simp [Store.init]) (by simp [Store.init])
    (by simp [VBOT]) (by simp [topVar, Store.init, VTOP]) (by simp [topVar, Store.init, VBOT])).1
  have n1 : (mkNode Store.init 0 1 0).1.nodes = #[⟨VBOT, 0, 0⟩, ⟨VTOP, 1, 1⟩, ⟨0, 1, 0⟩] := by
    simp [mkNode, Store.init]
  exact (mkNode_spec _ w1 1 1 0 (by simp [n1]) (by simp [n1]) (by simp [VBOT])
    (by simp [topVar, n1, VTOP]) (by simp [topVar, n1, VBOT])).1

theorem negAdf_ok : WF negAdf.bdd.st ∧ ∀ t ∈ negAdf.ac, t < negAdf.bdd.st.nodes.size := by
  refine ⟨negStore_WF, ?_⟩
  intro t ht
  have : t = 3 ∨ t = 2 := by simpa [negAdf] using ht
  show t < negStore.nodes.size
  rw [negStore_nodes]
  rcases this with h | h <;> subst h <;> decide

/-- the object is not degenerate: its two conditions are the functions `¬x1` and `¬x0` -/
theorem negAdf_denotes : ∀ σ, eval negStore 3 σ = !σ 1 ∧ eval negStore 2 σ = !σ 0 := by
  intro σ
  have w1 := mkNode_spec Store.init WF_init 0 1 0 (by simp [Store.init]) (by simp [Store.init])
    (by simp [VBOT]) (by simp [topVar, Store.init, VTOP]) (by simp [topVar, Store.init, VBOT])
  have n1 : (mkNode Store.init 0 1 0).1.nodes = #[⟨VBOT, 0, 0⟩, ⟨VTOP, 1, 1⟩, ⟨0, 1, 0⟩] := by
    simp [mkNode, Store.init]
  have h1 : (mkNode Store.init 0 1 0).2 = 2 := by simp [mkNode, Store.init]
  have w2 := mkNode_spec _ w1.1 1 1 0 (by simp [n1]) (by simp [n1]) (by simp [VBOT])
    (by simp [topVar, n1, VTOP]) (by simp [topVar, n1, VBOT])
  have h2 : (mkNode (mkNode Store.init 0 1 0).1 1 1 0).2 = 3 := by simp [mkNode, Store.init]
  constructor
  · have := w2.2.2.2.2 σ
    rw [h2] at this
    show eval (mkNode (mkNode Store.init 0 1 0).1 1 1 0).1 3 σ = _
    rw [this, eval_zero, eval_one]
    cases σ 1 <;> rfl
  · have e := eval_ext w1.1 w2.2.1 2 σ (by simp [n1])
    show eval (mkNode (mkNode Store.init 0 1 0).1 1 1 0).1 2 σ = _
    rw [e]
    have := w1.2.2.2.2 σ
    rw [h1] at this
    rw [this, eval_zero, eval_one]
    cases σ 0 <;> rfl

/-! what the model computes on it (evaluator checks): two stable models `a ↦ T, b ↦ F` and
`a ↦ F, b ↦ T`, three complete interpretations, grounded = undecided -/
#guard dec3 (stableAll negStore 2 [3, 2]).2 == [[some true, some false], [some false, some true]] ||
       dec3 (stableAll negStore 2 [3, 2]).2 == [[some false, some true], [some true, some false]]
#guard (dec3 (completeAll negStore 2 [3, 2]).2.2).length == 3
#guard (groundedLoop StoreRA 3 negStore [3, 2]).2.map storeIsConst == [none, none]

/-- non-vacuity of the list-equality theorems AND of `C14.*_after_roundtrip` on the two-statement
object: hypotheses hold; stable / counting-search lists after the JSON round trip and after the
node-list rebuild EQUAL the original's, `SameAnswers` follows, every history answers the same -/
example :
    (stableAll (fixImportA (importA (exportA negAdf))).bdd.st 2 [3, 2]).2 = (stableAll negStore 2 [3, 2]).2 ∧
    (countAll (rebuildP negStore.nodes).st 2 [3, 2] true).2 = (countAll negStore 2 [3, 2] true).2 ∧
    SameAnswers (dec3 (stableAll (fixImportA (importA (exportA negAdf))).bdd.st 2 [3, 2]).2)
                (dec3 (stableAll negStore 2 [3, 2]).2) ∧
    SameAnswers (dec3 (countAll (rebuildP negStore.nodes).st 2 [3, 2] false).2)
                (dec3 (countAll negStore 2 [3, 2] true).2) ∧
    (∀ h, (runCalls (stateOf (rebuildP negStore.nodes).st [3, 2]) h).2 =
          (runCalls (stateOf negStore [3, 2]) h).2) := by
  have S := searches_after_roundtrip negAdf negAdf_ok.1 negAdf_ok.2
  have F := roundtrip_sameFns negAdf negAdf_ok.1 negAdf_ok.2
  exact ⟨S.1.2.1, S.2.2.2.2 true, F.1.stable 2 rfl, F.2.count 2 rfl true false,
    fun h => (history_after_roundtrip negAdf negAdf_ok.1 negAdf_ok.2 h).2.1⟩

/-- `SameAnswers` is implied by list equality of the undecoded lists together with `Nodup` of one
side (so the C14 theorems are corollaries of the ones above plus the exactness theorems' `Nodup`) -/
theorem sameAnswers_of_eq {l l' : List (List Nat)} (e : l' = l) (nd : (dec3 l).Nodup) :
    SameAnswers (dec3 l') (dec3 l) := by
  subst e; exact ⟨nd, nd, fun _ => Iff.rfl⟩

/-! ## (c) scope notes for the header of `Props/C14.lean`

**scope_notes** (to be moved into the `Props/C14.lean` header docstring)

* **Two layers.** The object-level theorems (`import_nodes`, `import_fix`, `*_after_roundtrip`,
  `future_ops_same_handles`, …) use `Persist.exportB` / `importB`, which pass the node vector
  through unchanged and make only the `vectorize` step of the unique table explicit
  (`HashMap.toList` / `HashMap.ofList`): at this layer the JSON encoding is the IDENTITY, several
  conjuncts are `rfl`, and nothing is said about serde_json. The text layer is separate: the section
  "from the JSON TEXT" (`JsonModel` / `JsonPersist`: printer with serde_json's escape table, lexer,
  derived visitors) — only theorems of THAT section speak about bytes on disk.
* **`VarContainer`.** `PAdf.names` is `ordering.names`; `ordering.mapping` (name ↦ index) is treated
  as the inverse of `names` and not stored (object layer) resp. carried as a separate map `m` with
  an arbitrary iteration order (text layer). The web service's `VarContainerDb`
  (server/src/adf.rs:97-129: `mapping: HashMap<String, String>`, values `v.to_string()`, read back
  with `v.parse().unwrap()`) is FOLDED into `names` in `toSimplified` / `fromSimplified`: that its
  `mapping` strings decode (`decimalCodec` round trip) and that a corrupt `mapping` PANICS in
  `From<VarContainerDb>` is not modelled; `simplified_roundtrip_decimal` covers `SimplifiedAdf`
  (nodes and `ac` as decimal strings) only.
* **`export_never_overwrites`** is about the three-line model `cliExport` (`exists` → skip, else
  write), NOT part of the text-level CLI model `CliM.runText` of C15 (which has no file system).
  The Rust (bin/src/main.rs:357-374) is `export.exists()` followed by `File::create(export)`: a
  check-then-act sequence, so another process creating the path in between IS overwritten
  (`File::create` truncates) — the theorem is a statement about a single sequential process on a
  file system nobody else touches. Only the NAIVE arm exports (the `--lib biodivine` / hybrid arms
  of `main.rs` have no `--export` code); `--import` skips parsing entirely.
* **Answers after a round trip.** `SameAnswers` (no duplicates, same members) comes from the
  exactness theorems and holds for ANY store denoting the same functions (`SameFns`), e.g. a
  different node numbering. For the two round trips modelled here the node table is IDENTICAL, and
  `C14More.history_after_roundtrip` / `searches_after_roundtrip` / `nogood_after_roundtrip` give
  equality of the answer LISTS (order, handle numbers) by C11's `answers_depend_on_node_table`.
* **Non-vacuity** is shown on `x0Adf` (one statement) and on `C14More.negAdf` (two statements,
  `a ↦ ¬b`, `b ↦ ¬a`, two stable models). -/

end C14More

#print axioms C14More.history_after_roundtrip
#print axioms C14More.searches_same_nodes
#print axioms C14More.searches_after_roundtrip
#print axioms C14More.nogood_after_roundtrip
#print axioms C14More.negAdf_ok
#print axioms C14More.negAdf_denotes
