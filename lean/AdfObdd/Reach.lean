import AdfObdd.OpsProofs
import AdfObdd.Rebuild
import AdfObdd.Bridge
import AdfObdd.Persist
/-! C06: ONE inductive notion of "reachable store" covering diagram operations, both node-list
rebuilds, the serde re-import with `fix_import`, and the bridge replay — and the invariant `WF` on
all of it. -/
open Persist

/-- the stores an `Adf`/`Bdd` object can hold:
* `fresh`: `Bdd::new()`;
* `op`: any diagram operation of `OpsModel` (`variable`, constants, `not`, `and`, `or`, `imp`, `iff`,
  `xor`, `restrict`) whose operands (positions in ANY list `hist` of handles valid in the store) are
  in range — `Op.valid` additionally demands `v < VBOT` of `.var v` (the two largest `usize` values
  are reserved for the terminals' pseudo-variables);
* `rebuild` / `rebuildBook`: `Bdd::from(nodes)` on the node list of a reachable store, without and
  with the bookkeeping of the features `variablelist` / `adhoccounting` (`Persist.rebuildP`);
* `reimport`: serde export → import → `fix_import` of an object whose store is reachable (whatever
  its bookkeeping fields hold);
* `bridge`: `from_biodivine_vector` replaying an ordered dump (`DumpOK`) into a reachable store. -/
inductive StoreReach : Store → Prop
  | fresh : StoreReach Store.init
  | op (s : Store) (hist : List Nat) (o : Op) : StoreReach s → (∀ t ∈ hist, t < s.nodes.size) →
      o.valid hist.length → StoreReach (stepOp s hist o).1
  | rebuild (s : Store) : StoreReach s → StoreReach (rebuild s.nodes)
  | rebuildBook (s : Store) : StoreReach s → StoreReach (rebuildP s.nodes).st
  | reimport (b : PBdd) : StoreReach b.st → StoreReach (fixImport (importB (exportB b))).st
  | bridge (s : Store) (d : List Node) : StoreReach s → DumpOK d → 2 ≤ d.length →
      StoreReach (replayL (d.drop 2) s [0, 1]).1

/-- any list of valid handles is a history denoting its own functions -/
theorem HistOK.ofValid (s : Store) (hist : List Nat) (h : ∀ t ∈ hist, t < s.nodes.size) :
    HistOK s hist (hist.map (eval s)) := by
  refine ⟨by simp, ?_⟩
  intro k hk
  have e : hget hist k = hist[k] := by simp [hget, List.getD, hk]
  refine ⟨by rw [e]; exact h _ (List.getElem_mem hk), ?_⟩
  intro σ
  simp [fget, List.getD, hk, e]

theorem reach_wf_aux {s : Store} (r : StoreReach s) : WF s := by
  induction r with
  | fresh => exact WF_init
  | op s hist o _ hv ho ih => exact (stepOp_good s hist _ o ih (HistOK.ofValid s hist hv) ho).wf
  | rebuild s _ ih =>
    have h := (rebuildP_ok s ih).2.2.2.wf
    rw [(rebuildP_ok s ih).1] at h
    exact h
  | rebuildBook s _ ih => exact (rebuildP_ok s ih).2.2.2.wf
  | reimport b _ ih => exact (import_fix b ih).2.2.wf
  | bridge s d _ hd hl ih => exact (bridge_correct d hd hl s ih).1

/-- the result handle of an operation on a reachable store is a handle of the new store -/
theorem reach_op_handle (s : Store) (hist : List Nat) (o : Op) (r : StoreReach s)
    (hv : ∀ t ∈ hist, t < s.nodes.size) (ho : o.valid hist.length) :
    (stepOp s hist o).2 < (stepOp s hist o).1.nodes.size ∧
    ∀ σ, eval (stepOp s hist o).1 (stepOp s hist o).2 σ = semOp (hist.map (eval s)) o σ :=
  let g := stepOp_good s hist _ o (reach_wf_aux r) (HistOK.ofValid s hist hv) ho
  ⟨g.lt, g.ev⟩

/-- the ordered dump ⊥, ⊤, x0 -/
theorem dump3_ok : DumpOK [⟨VBOT, 0, 0⟩, ⟨VTOP, 1, 1⟩, ⟨0, 0, 1⟩] := by
  intro j n hj hn
  have : j = 2 := by
    have := (List.getElem?_eq_some_iff.mp hn).1
    simp at this; omega
  subst this
  simp at hn
  subst hn
  refine ⟨by simp [VBOT], by simp, by simp, ?_, ?_⟩ <;> intro m h2 <;> simp at h2
