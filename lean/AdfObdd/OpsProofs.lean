import AdfObdd.OpsModel
/-! Refinement: every sequence of diagram-building operations keeps the store well formed and
    every issued handle denotes the Boolean function the operations name (C06, C07). -/

theorem WF_init : WF Store.init := by
  constructor
  · simp [Store.init]
  · simp [Store.init]
  · simp [Store.init]
  · intro i n hi hn
    have : i < 2 := by
      have := lt_of_get hn
      simpa [Store.init] using this
    omega
  · intro n t
    constructor
    · intro h; simp [Store.init] at h
    · intro ⟨h2, hn⟩
      have : t < 2 := by
        have := lt_of_get hn
        simpa [Store.init] using this
      omega
  · intro t v b r h; simp [Store.init] at h
  · intro i t e r h; simp [Store.init] at h

/-- the history of issued handles is valid and denotes `fs`, position by position -/
structure HistOK (s : Store) (hist : List Nat) (fs : List BoolFn) : Prop where
  len : hist.length = fs.length
  ok : ∀ k, k < hist.length → hget hist k < s.nodes.size ∧ ∀ σ, eval s (hget hist k) σ = fget fs k σ

theorem HistOK.init : HistOK Store.init [0, 1] [fun _ => false, fun _ => true] := by
  refine ⟨rfl, ?_⟩
  intro k hk
  have : k = 0 ∨ k = 1 := by simp at hk; omega
  rcases this with h | h <;> subst h
  · exact ⟨by simp [hget, Store.init], fun σ => by simp [hget, fget, eval_zero]⟩
  · exact ⟨by simp [hget, Store.init], fun σ => by simp [hget, fget, eval_one]⟩

theorem topVar_bot {s : Store} (w : WF s) : topVar s 0 = VBOT := by simp [topVar, w.bot]
theorem topVar_top {s : Store} (w : WF s) : topVar s 1 = VTOP := by simp [topVar, w.top]

theorem hget_append_lt (hist : List Nat) (x k : Nat) (h : k < hist.length) :
    hget (hist ++ [x]) k = hget hist k := by
  simp [hget, List.getD, List.getElem?_append_left h]
theorem hget_append_eq (hist : List Nat) (x : Nat) : hget (hist ++ [x]) hist.length = x := by
  simp [hget, List.getD]
theorem fget_append_lt (fs : List BoolFn) (f : BoolFn) (k : Nat) (h : k < fs.length) :
    fget (fs ++ [f]) k = fget fs k := by
  simp [fget, List.getD, List.getElem?_append_left h]
theorem fget_append_eq (fs : List BoolFn) (f : BoolFn) : fget (fs ++ [f]) fs.length = f := by
  simp [fget, List.getD]

/-- C07 for one operation, from any well-formed store with any memo contents -/
theorem stepOp_good (s : Store) (hist : List Nat) (fs : List BoolFn) (op : Op)
    (w : WF s) (h : HistOK s hist fs) (hv : op.valid hist.length) :
    Good s (stepOp s hist op).1 (stepOp s hist op).2 (semOp fs op) := by
  have z := zero_lt s w
  have o := one_lt s w
  cases op with
  | var v =>
    have hv' : v < VBOT := hv
    have ⟨a, b, c, _, e⟩ := mkNode_spec s w v 0 1 z o hv'
      (by rw [topVar_bot w]; exact hv') (by rw [topVar_top w]; unfold VTOP; unfold VBOT at hv'; omega)
    refine ⟨a, b, c, ?_⟩
    intro σ
    show eval (mkNode s v 0 1).1 (mkNode s v 0 1).2 σ = σ v
    rw [e σ, eval_zero, eval_one]; cases σ v <;> rfl
  | const b =>
    cases b with
    | true => exact ⟨w, Ext.refl _, o, fun σ => eval_one s σ⟩
    | false => exact ⟨w, Ext.refl _, z, fun σ => eval_zero s σ⟩
  | not a =>
    have ⟨ha, ea⟩ := h.ok a hv
    have g := opNot_good s w _ ha
    exact ⟨g.wf, g.ext, g.lt, fun σ => by
      show eval (opNot s (hget hist a)).1 (opNot s (hget hist a)).2 σ = !(fget fs a σ)
      rw [g.ev σ, ea σ]⟩
  | and a b =>
    have ⟨ha, ea⟩ := h.ok a hv.1
    have ⟨hb, eb⟩ := h.ok b hv.2
    have g := opIte_good s w _ _ 0 ha hb z
    refine ⟨g.wf, g.ext, g.lt, fun σ => ?_⟩
    show eval (opIte s (hget hist a) (hget hist b) 0).1 (opIte s (hget hist a) (hget hist b) 0).2 σ = (fget fs a σ && fget fs b σ)
    rw [g.ev σ, ea σ, eb σ, eval_zero]; cases fget fs a σ <;> simp
  | or a b =>
    have ⟨ha, ea⟩ := h.ok a hv.1
    have ⟨hb, eb⟩ := h.ok b hv.2
    have g := opIte_good s w _ 1 _ ha o hb
    refine ⟨g.wf, g.ext, g.lt, fun σ => ?_⟩
    show eval (opIte s (hget hist a) 1 (hget hist b)).1 (opIte s (hget hist a) 1 (hget hist b)).2 σ = (fget fs a σ || fget fs b σ)
    rw [g.ev σ, ea σ, eb σ, eval_one]; cases fget fs a σ <;> simp
  | imp a b =>
    have ⟨ha, ea⟩ := h.ok a hv.1
    have ⟨hb, eb⟩ := h.ok b hv.2
    have g := opIte_good s w _ _ 1 ha hb o
    refine ⟨g.wf, g.ext, g.lt, fun σ => ?_⟩
    show eval (opIte s (hget hist a) (hget hist b) 1).1 (opIte s (hget hist a) (hget hist b) 1).2 σ = (!(fget fs a σ) || fget fs b σ)
    rw [g.ev σ, ea σ, eb σ, eval_one]; cases fget fs a σ <;> simp
  | iff a b =>
    have ⟨ha, ea⟩ := h.ok a hv.1
    have ⟨hb, eb⟩ := h.ok b hv.2
    have gn := opNot_good s w _ hb
    have ha' := Nat.lt_of_lt_of_le ha gn.ext.1
    have hb' := Nat.lt_of_lt_of_le hb gn.ext.1
    have g := opIte_good (opNot s (hget hist b)).1 gn.wf (hget hist a) (hget hist b) (opNot s (hget hist b)).2 ha' hb' gn.lt
    refine ⟨g.wf, gn.ext.trans g.ext, g.lt, fun σ => ?_⟩
    show eval (opIte (opNot s (hget hist b)).1 (hget hist a) (hget hist b) (opNot s (hget hist b)).2).1
      (opIte (opNot s (hget hist b)).1 (hget hist a) (hget hist b) (opNot s (hget hist b)).2).2 σ = (fget fs a σ == fget fs b σ)
    rw [g.ev σ, gn.ev σ, eval_ext w gn.ext _ σ ha, eval_ext w gn.ext _ σ hb, ea σ, eb σ]
    cases fget fs a σ <;> cases fget fs b σ <;> rfl
  | xor a b =>
    have ⟨ha, ea⟩ := h.ok a hv.1
    have ⟨hb, eb⟩ := h.ok b hv.2
    have gn := opNot_good s w _ hb
    have ha' := Nat.lt_of_lt_of_le ha gn.ext.1
    have hb' := Nat.lt_of_lt_of_le hb gn.ext.1
    have g := opIte_good (opNot s (hget hist b)).1 gn.wf (hget hist a) (opNot s (hget hist b)).2 (hget hist b) ha' gn.lt hb'
    refine ⟨g.wf, gn.ext.trans g.ext, g.lt, fun σ => ?_⟩
    show eval (opIte (opNot s (hget hist b)).1 (hget hist a) (opNot s (hget hist b)).2 (hget hist b)).1
      (opIte (opNot s (hget hist b)).1 (hget hist a) (opNot s (hget hist b)).2 (hget hist b)).2 σ = (fget fs a σ != fget fs b σ)
    rw [g.ev σ, gn.ev σ, eval_ext w gn.ext _ σ ha, eval_ext w gn.ext _ σ hb, ea σ, eb σ]
    cases fget fs a σ <;> cases fget fs b σ <;> rfl
  | restrict a v b =>
    have ⟨ha, ea⟩ := h.ok a hv
    have ⟨x, y, zz, _, e⟩ := restrictF_spec (hget hist a + 1) s (hget hist a) v b w ha (Nat.lt_succ_self _)
    refine ⟨x, y, zz, fun σ => ?_⟩
    show eval (restrictF (hget hist a + 1) s (hget hist a) v b).1 (restrictF (hget hist a + 1) s (hget hist a) v b).2 σ = fget fs a (upd σ v b)
    rw [e σ, ea]

/-- appending the result of an operation keeps the history invariant; earlier handles keep
their functions because the node table only grows -/
theorem HistOK.step (s : Store) (hist : List Nat) (fs : List BoolFn) (op : Op)
    (w : WF s) (h : HistOK s hist fs) (hv : op.valid hist.length) :
    HistOK (stepOp s hist op).1 (hist ++ [(stepOp s hist op).2]) (fs ++ [semOp fs op]) := by
  have g := stepOp_good s hist fs op w h hv
  refine ⟨by simp [h.len], ?_⟩
  intro k hk
  by_cases hlt : k < hist.length
  · have ⟨a, b⟩ := h.ok k hlt
    rw [hget_append_lt _ _ _ hlt, fget_append_lt _ _ _ (h.len ▸ hlt)]
    exact ⟨Nat.lt_of_lt_of_le a g.ext.1, fun σ => by rw [eval_ext w g.ext _ σ a]; exact b σ⟩
  · have : k = hist.length := by simp at hk; omega
    subst this
    rw [hget_append_eq]
    have : fget (fs ++ [semOp fs op]) hist.length = semOp fs op := by rw [h.len]; exact fget_append_eq _ _
    rw [this]
    exact ⟨g.lt, g.ev⟩

/-- **refinement theorem**: for every sequence of valid operations from any well-formed state -/
theorem runOps_refines : ∀ (ops : List Op) (s : Store) (hist : List Nat) (fs : List BoolFn),
    WF s → HistOK s hist fs → opsValid ops hist.length →
    WF (runOps ops s hist).1 ∧ Ext s (runOps ops s hist).1 ∧
    HistOK (runOps ops s hist).1 (runOps ops s hist).2 (semOps ops fs) := by
  intro ops
  induction ops with
  | nil => intro s hist fs w h _; exact ⟨w, Ext.refl _, h⟩
  | cons op ops ih =>
    intro s hist fs w h hv
    have g := stepOp_good s hist fs op w h hv.1
    have h' := HistOK.step s hist fs op w h hv.1
    have hv' : opsValid ops (hist ++ [(stepOp s hist op).2]).length := by simpa using hv.2
    have ⟨a, b, c⟩ := ih _ _ _ g.wf h' hv'
    exact ⟨a, g.ext.trans b, c⟩
