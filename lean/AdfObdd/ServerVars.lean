import AdfObdd.ServerGraph
import AdfObdd.ServerAnswers
import AdfObdd.StoreCanon
/-! # C16 — the graph builder's well-formedness assumptions follow from the parser facts

`GraphHyp names ns ac` (what `graph_reachable`, `graph_edges`, `graph_walk` assume) has four parts:
a well-formed table, roots inside the table, distinct names, and every inner node testing a variable
that the ordering names. For a framework that came out of an accepted text (`parseNaive = .ok`) all
four are consequences: the first two of `SrvA.parseNaive_denotes`, `Nodup` of the way the parser
collects statement names (`parseText_nodup`), and the last of the invariant `VB` below, which every
store operation preserves unconditionally (new nodes are only ever made with the variable of an
existing node or, for `Adf::term`, of an atom of the formula). -/
namespace ServerAdf
open ServerM

/-- every node of the table tests a variable below `nv` or is labelled like a terminal -/
def VB (nv : Nat) (ns : Array Node) : Prop := ∀ (i : Nat) (n : Node), ns[i]? = some n → n.var < nv ∨ VBOT ≤ n.var

theorem VB_init (nv : Nat) : VB nv Store.init.nodes := by
  intro i n h
  have hi : i < 2 := by
    have := lt_of_get h; simpa [Store.init] using this
  have : i = 0 ∨ i = 1 := by omega
  rcases this with rfl | rfl <;> simp [Store.init] at h <;> subst h <;> right <;> simp [VBOT, VTOP]

theorem mkNode_VB {nv : Nat} (s : Store) (v lo hi : Nat) (h : VB nv s.nodes) (hv : v < nv ∨ VBOT ≤ v) :
    VB nv (mkNode s v lo hi).1.nodes := by
  unfold mkNode
  split
  · exact h
  · split
    · exact h
    · intro i n hn
      simp only [Array.getElem?_push] at hn
      split at hn
      · cases hn; exact hv
      · exact h i n hn

theorem topVar_VB {nv : Nat} (s : Store) (t : Nat) (h : VB nv s.nodes) : topVar s t < nv ∨ VBOT ≤ topVar s t := by
  unfold topVar
  cases hn : s.nodes[t]? with
  | none => right; simp [VBOT, VTOP]
  | some n => exact h t n hn

theorem minVar_VB {nv : Nat} (s : Store) (i t e : Nat) (h : VB nv s.nodes) :
    minVar s i t e < nv ∨ VBOT ≤ minVar s i t e := by
  rcases minVar_eq s i t e with h' | h' | h' <;> rw [h'] <;> exact topVar_VB s _ h

theorem restrictF_VB {nv : Nat} : ∀ (fuel : Nat) (s : Store) (t v : Nat) (b : Bool), VB nv s.nodes →
    VB nv (restrictF fuel s t v b).1.nodes := by
  intro fuel
  induction fuel with
  | zero => intro s t v b h; exact h
  | succ f ih =>
    intro s t v b h
    unfold restrictF
    split
    · exact h
    · split
      · exact h
      · rename_i n hn
        split
        · exact h
        · rename_i hc
          split
          · have hv : n.var < nv ∨ VBOT ≤ n.var := h t n hn
            exact mkNode_VB _ _ _ _ (ih _ _ _ _ (ih _ _ _ _ h)) hv
          · cases b
            · exact ih _ _ _ _ h
            · exact ih _ _ _ _ h

theorem iteF_VB {nv : Nat} : ∀ (fuel : Nat) (s : Store) (i t e : Nat), VB nv s.nodes →
    VB nv (iteF fuel s i t e).1.nodes := by
  intro fuel
  induction fuel with
  | zero => intro s i t e h; exact h
  | succ f ih =>
    intro s i t e h
    unfold iteF
    split
    · exact h
    split
    · exact h
    split
    · exact h
    split
    · exact h
    split
    · exact h
    · have h6 := restrictF_VB (nv := nv) (e+1) _ e (minVar s i t e) false
        (restrictF_VB (t+1) _ t (minVar s i t e) false
          (restrictF_VB (i+1) _ i (minVar s i t e) false
            (restrictF_VB (e+1) _ e (minVar s i t e) true
              (restrictF_VB (t+1) _ t (minVar s i t e) true
                (restrictF_VB (i+1) s i (minVar s i t e) true h)))))
      exact mkNode_VB _ _ _ _ (ih _ _ _ _ (ih _ _ _ _ h6)) (minVar_VB s i t e h)

theorem compile_VB {nv : Nat} : ∀ (φ : Fm) (s : Store), VB nv s.nodes → NConc.atomsLt nv φ →
    VB nv (compile s φ).1.nodes := by
  intro φ
  induction φ with
  | top => intro s h _; exact h
  | bot => intro s h _; exact h
  | atom v => intro s h ha; exact mkNode_VB s v 0 1 h (Or.inl ha)
  | not f ih => intro s h ha; exact iteF_VB _ _ _ _ _ (ih s h ha)
  | and a b iha ihb => intro s h ha; exact iteF_VB _ _ _ _ _ (ihb _ (iha s h ha.1) ha.2)
  | or a b iha ihb => intro s h ha; exact iteF_VB _ _ _ _ _ (ihb _ (iha s h ha.1) ha.2)
  | imp a b iha ihb => intro s h ha; exact iteF_VB _ _ _ _ _ (ihb _ (iha s h ha.1) ha.2)
  | xor a b iha ihb =>
    intro s h ha
    exact iteF_VB _ _ _ _ _ (iteF_VB _ _ _ _ _ (ihb _ (iha s h ha.1) ha.2))
  | iff a b iha ihb =>
    intro s h ha
    exact iteF_VB _ _ _ _ _ (iteF_VB _ _ _ _ _ (ihb _ (iha s h ha.1) ha.2))

theorem buildVars_VB {nv : Nat} : ∀ (l : List Nat) (s : Store), VB nv s.nodes → (∀ v ∈ l, v < nv) →
    VB nv (l.foldl (fun s v => (mkNode s v 0 1).1) s).nodes := by
  intro l
  induction l with
  | nil => intro s h _; exact h
  | cons v l ih =>
    intro s h hl
    exact ih _ (mkNode_VB s v 0 1 h (Or.inl (hl v (List.mem_cons_self ..)))) (fun x hx => hl x (List.mem_cons_of_mem _ hx))

theorem fromParser_VB (n : Nat) (l : List (Nat × Fm)) (ha : ∀ x ∈ l, NConc.atomsLt n x.2) :
    VB n (fromParser n l).1.nodes := by
  unfold fromParser
  have h0 : VB n ((List.range n).foldl (fun s v => (mkNode s v 0 1).1) Store.init).nodes :=
    buildVars_VB _ _ (VB_init n) (fun v hv => List.mem_range.mp hv)
  generalize (List.range n).foldl (fun s v => (mkNode s v 0 1).1) Store.init = s0 at h0
  generalize List.replicate n 0 = acc0
  simp only
  induction l generalizing s0 acc0 with
  | nil => exact h0
  | cons x xs ih =>
    simp only [List.foldl_cons]
    exact ih (fun y hy => ha y (List.mem_cons_of_mem _ hy)) _
      (compile_VB x.2 s0 h0 (ha x (List.mem_cons_self ..))) _

/-- in a well-formed table `VB` says that every inner node tests a variable below `nv` -/
theorem VB.inner {nv : Nat} {ns : Array Node} (h : VB nv ns) (w : TableWF ns) :
    ∀ (i : Nat) (n : Node), 2 ≤ i → ns[i]? = some n → n.var < nv := by
  intro i n h2 hn
  have := (w.inner i n h2 hn).1
  rcases h i n hn with h' | h'
  · exact h'
  · omega

/-! ### the names the parser collects are distinct -/

theorem parseText_nodup (code : String) (p : Parsed) (h : parseText code = some p) : p.names.Nodup := by
  unfold parseText at h
  cases hf : ParserM.parseFile (code.length + 1) code.toList with
  | none => rw [hf] at h; cases h
  | some facts =>
    rw [hf] at h
    simp only [Option.some.injEq] at h
    subst h
    have : ∀ (fs : List ParserM.Fact) (p0 : Parsed), p0.names.Nodup →
        (fs.foldl (fun (p : Parsed) f => match f with
          | .stmt l => let n := String.ofList l; if p.names.contains n then p else { p with names := p.names ++ [n] }
          | .ac l f => { p with acs := p.acs ++ [(String.ofList l, f)] }) p0).names.Nodup := by
      intro fs
      induction fs with
      | nil => intro p0 h0; exact h0
      | cons f fs ih =>
        intro p0 h0
        simp only [List.foldl_cons]
        apply ih
        cases f with
        | ac l f => exact h0
        | stmt l =>
          simp only
          split
          · exact h0
          · rename_i hc
            simp only
            rw [List.nodup_append]
            refine ⟨h0, by simp, ?_⟩
            intro a ha b hb
            simp only [List.mem_singleton] at hb
            subst hb
            intro e; subst e
            exact hc (by simpa using ha)
    exact this facts ⟨[], []⟩ (by simp)

/-- **the graph builder's assumptions hold for every framework that came from an accepted text**
(naive parsing; `names.length ≤ VBOT` = fewer than 2^64 − 2 statements, the library's own limit) -/
theorem parseNaive_graphHyp (key code : String) (a : SAdf) (r : SRes) (h : parseNaive key code = .ok (a, r))
    (hn : a.names.length ≤ VBOT) : GraphHyp a.names a.nodes a.ac := by
  obtain ⟨fms, _, hd⟩ := SrvA.parseNaive_denotes key code a r h hn
  obtain ⟨l, h1, _, _, h4⟩ := SrvA.parseNaive_ok_iff key code a r h
  have hnd : a.names.Nodup := by
    unfold parseNaive at h
    cases hp : parseText code with
    | none => rw [hp] at h; cases h
    | some p =>
      rw [hp] at h
      simp only at h
      cases hr : resolve p with
      | error e => rw [hr] at h; cases h
      | ok l' =>
        rw [hr] at h
        simp only [Except.ok.injEq, Prod.mk.injEq] at h
        rw [← h.1]
        exact parseText_nodup code p hp
  refine ⟨hd.table, hnd, ?_, ?_⟩
  · have hv : VB a.names.length a.nodes := by rw [h1]; exact fromParser_VB _ l h4
    exact fun i n h2 _ hn => hv.inner hd.table i n h2 hn
  · intro t ht
    obtain ⟨i, hi, rfl⟩ := List.getElem_of_mem ht
    have hi' : i < fms.length := by rw [hd.flen, ← hd.len]; exact hi
    exact (hd.den i _ _ (List.getElem?_eq_getElem hi) (List.getElem?_eq_getElem hi')).1

/-! ### the same from the FUNCTIONS the roots denote (any table, e.g. the store after solving)

In a well-formed (ordered, reduced, duplicate-free) table every node reachable from a root tests a
variable its root's function really depends on; so if the roots denote functions of the statements
`0 … n-1` only, every reachable node tests one of them. -/

theorem upd_agree {n : Nat} {σ τ : Asg} (h : ∀ x, x < n → σ x = τ x) (v : Nat) (b : Bool) :
    ∀ x, x < n → upd σ v b x = upd τ v b x := by
  intro x hx; simp only [upd]; split
  · rfl
  · exact h x hx

theorem reachable_detBy {n : Nat} {ns : Array Node} {ac : List Nat} (w : TableWF ns)
    (hr : ∀ r ∈ ac, r < ns.size) (hdet : ∀ r ∈ ac, TT.DetBy n (eval ⟨ns, {}, {}, {}⟩ r)) :
    ∀ x, GraphM.Reachable (gnodes ns) ac x → x < ns.size ∧ TT.DetBy n (eval ⟨ns, {}, {}, {}⟩ x) := by
  intro x hx
  induction hx with
  | root r hr' => exact ⟨hr r hr', hdet r hr'⟩
  | step i c _ hc ih =>
    obtain ⟨hi, hd⟩ := ih
    obtain ⟨t, ht⟩ := get_of_lt hi
    simp only [GraphM.children, gnodes_get, ht, Option.map_some, List.mem_cons, List.not_mem_nil, or_false] at hc
    by_cases h2 : 2 ≤ i
    · have ⟨_, hlo, hhi, _, _, _⟩ := w.inner i t h2 ht
      rcases hc with rfl | rfl
      · refine ⟨by omega, fun σ τ hst => ?_⟩
        rw [Tab.eval_lo ⟨ns, {}, {}, {}⟩ w i t h2 ht σ, Tab.eval_lo ⟨ns, {}, {}, {}⟩ w i t h2 ht τ]
        exact hd _ _ (upd_agree hst _ _)
      · refine ⟨by omega, fun σ τ hst => ?_⟩
        rw [Tab.eval_hi ⟨ns, {}, {}, {}⟩ w i t h2 ht σ, Tab.eval_hi ⟨ns, {}, {}, {}⟩ w i t h2 ht τ]
        exact hd _ _ (upd_agree hst _ _)
    · have hi01 : i = 0 ∨ i = 1 := by omega
      rcases hi01 with rfl | rfl
      · have := w.bot; rw [ht] at this; simp only [Option.some.injEq] at this; subst this
        have : c = 0 := by rcases hc with h | h <;> exact h
        subst this; exact ⟨hi, hd⟩
      · have := w.top; rw [ht] at this; simp only [Option.some.injEq] at this; subst this
        have : c = 1 := by rcases hc with h | h <;> exact h
        subst this; exact ⟨hi, hd⟩

/-- **the graph builder's assumptions from the functions of the roots**: a well-formed table,
distinct names, roots inside the table that denote functions of the named statements only -/
theorem graphHyp_of_detBy {names : List String} {ns : Array Node} {ac : List Nat} (w : TableWF ns)
    (hnd : names.Nodup) (hr : ∀ r ∈ ac, r < ns.size)
    (hdet : ∀ r ∈ ac, TT.DetBy names.length (eval ⟨ns, {}, {}, {}⟩ r)) : GraphHyp names ns ac := by
  refine ⟨w, hnd, ?_, hr⟩
  intro i t h2 hreach ht
  obtain ⟨hi, hd⟩ := reachable_detBy w hr hdet i hreach
  have ⟨_, hlo, hhi, hne, _, _⟩ := w.inner i t h2 ht
  apply Classical.byContradiction
  intro hge
  apply hne
  apply (Tab.canonical ⟨ns, {}, {}, {}⟩ w t.lo t.hi (by show t.lo < ns.size; omega) (by show t.hi < ns.size; omega)).mp
  intro σ
  rw [Tab.eval_lo ⟨ns, {}, {}, {}⟩ w i t h2 ht σ, Tab.eval_hi ⟨ns, {}, {}, {}⟩ w i t h2 ht σ]
  apply hd
  intro x hx
  have : x ≠ t.var := by omega
  simp [upd, this]

end ServerAdf
#print axioms ServerAdf.parseNaive_graphHyp
#print axioms ServerAdf.graphHyp_of_detBy
