
namespace StreamM
/-! prototype 22: the streaming mirror (`Bdd::recv`) — for every interleaving of node creations
    and polls the receiver holds a prefix of the producer's table; a relay chain too -/

structure SNode where
  var : Nat
  lo : Nat
  hi : Nat
deriving DecidableEq, Repr

/-- `recv(term)` body once `term` is not present: drain the channel until the requested handle
arrives or the channel is empty; `fwd` collects what a relay forwards -/
def drain : List SNode → List SNode → Nat → (List SNode × List SNode × List SNode × Bool)
  | [], recv, _ => ([], recv, [], false)
  | n :: q, recv, t =>
    if recv.length = t then (q, recv ++ [n], [n], true)     -- the new handle is `recv.length`
    else
      let r := drain q (recv ++ [n]) t
      (r.1, r.2.1, n :: r.2.2.1, r.2.2.2)

def poll (q recv : List SNode) (t : Nat) : (List SNode × List SNode × List SNode × Bool) :=
  if t < recv.length then (q, recv, [], true) else drain q recv t

theorem drain_spec : ∀ (q recv : List SNode) (t : Nat), recv.length ≤ t →
    let r := drain q recv t
    r.2.1 ++ r.1 = recv ++ q ∧ r.2.1 = recv ++ r.2.2.1 ∧ (r.2.2.2 = true ↔ t < r.2.1.length) := by
  intro q
  induction q with
  | nil => intro recv t h; simp [drain]; omega
  | cons n q ih =>
    intro recv t h
    unfold drain
    by_cases he : recv.length = t
    · rw [if_pos he]; simp; omega
    · rw [if_neg he]
      have ⟨a, b, c⟩ := ih (recv ++ [n]) t (by simp; omega)
      simp only
      refine ⟨by rw [a]; simp, by rw [b]; simp, c⟩

theorem poll_spec (q recv : List SNode) (t : Nat) :
    let r := poll q recv t
    r.2.1 ++ r.1 = recv ++ q ∧ r.2.1 = recv ++ r.2.2.1 ∧ (r.2.2.2 = true ↔ t < r.2.1.length) := by
  unfold poll
  by_cases h : t < recv.length
  · rw [if_pos h]; simp [h]
  · rw [if_neg h]; exact drain_spec q recv t (by omega)

/-- events of a producer – relay – receiver chain -/
inductive Ev where
  | create (n : SNode)        -- the producer inserts a fresh node (and sends it)
  | relayPoll (t : Nat)       -- the relay polls for handle t (and forwards what it receives)
  | recvPoll (t : Nat)        -- the final receiver polls

structure Sys where
  prod : List SNode
  q1 : List SNode
  relay : List SNode
  q2 : List SNode
  recv : List SNode

def stepEv (s : Sys) : Ev → Sys × Option Bool
  | Ev.create n => ({ s with prod := s.prod ++ [n], q1 := s.q1 ++ [n] }, none)
  | Ev.relayPoll t =>
    let r := poll s.q1 s.relay t
    ({ s with q1 := r.1, relay := r.2.1, q2 := s.q2 ++ r.2.2.1 }, some r.2.2.2)
  | Ev.recvPoll t =>
    let r := poll s.q2 s.recv t
    ({ s with q2 := r.1, recv := r.2.1 }, some r.2.2.2)

def SysInv (s : Sys) : Prop := s.relay ++ s.q1 = s.prod ∧ s.recv ++ s.q2 = s.relay

theorem step_inv (s : Sys) (e : Ev) (h : SysInv s) : SysInv (stepEv s e).1 := by
  obtain ⟨h1, h2⟩ := h
  cases e with
  | create n => exact ⟨by simp [stepEv, ← h1], h2⟩
  | relayPoll t =>
    have ⟨a, b, _⟩ := poll_spec s.q1 s.relay t
    refine ⟨by simp only [stepEv]; rw [a]; exact h1, ?_⟩
    simp only [stepEv]; rw [b, ← List.append_assoc, h2]
  | recvPoll t =>
    have ⟨a, _, _⟩ := poll_spec s.q2 s.recv t
    exact ⟨h1, by simp only [stepEv]; rw [a]; exact h2⟩

/-- C19: after any sequence of events both mirrors hold prefixes of the producer's table, in
order; what is missing is exactly what is still in the channels -/
theorem run_inv (evs : List Ev) (s : Sys) (h : SysInv s) :
    SysInv (evs.foldl (fun s e => (stepEv s e).1) s) := by
  induction evs generalizing s with
  | nil => exact h
  | cons e evs ih => exact ih _ (step_inv s e h)

/-- a poll answers "found" iff the handle is present afterwards -/
theorem recvPoll_found (s : Sys) (t : Nat) :
    (stepEv s (Ev.recvPoll t)).2 = some true ↔ t < (stepEv s (Ev.recvPoll t)).1.recv.length := by
  have ⟨_, _, c⟩ := poll_spec s.q2 s.recv t
  simp only [stepEv, Option.some.injEq]; exact c

/-- once the channels are drained the tables are identical -/
theorem drained_equal (s : Sys) (h : SysInv s) (h1 : s.q1 = []) (h2 : s.q2 = []) :
    s.recv = s.prod := by
  obtain ⟨a, b⟩ := h
  rw [h1, List.append_nil] at a; rw [h2, List.append_nil] at b; rw [b, a]
#print axioms run_inv

end StreamM
