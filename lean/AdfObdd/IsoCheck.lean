import AdfObdd.WfCheck
/-! prototype 42: a memoised structural comparison of a handle in one node table with a handle
    in another one; `true` implies the two handles denote the same Boolean function (the verified
    validator of C09: dumped real table vs the model's own table, no truth tables involved) -/

abbrev Seen := Std.HashMap (Nat × Nat) Unit

/-- depth-first comparison; `seen` holds pairs already found equal -/
def isoF (A B : Array Node) : Nat → Seen → Nat → Nat → Bool × Seen
  | 0, seen, _, _ => (false, seen)
  | fuel+1, seen, a, b =>
    if a < 2 ∨ b < 2 then (decide (a = b), seen) else
    match seen[(a, b)]? with
    | some _ => (true, seen)
    | none =>
      match A[a]?, B[b]? with
      | some na, some nb =>
        if na.var ≠ nb.var then (false, seen) else
        let r1 := isoF A B fuel seen na.lo nb.lo
        if !r1.1 then (false, r1.2) else
        let r2 := isoF A B fuel r1.2 na.hi nb.hi
        if !r2.1 then (false, r2.2) else (true, r2.2.insert (a, b) ())
      | _, _ => (false, seen)

def SeenOK (sa sb : Store) (seen : Seen) : Prop :=
  ∀ (x y : Nat), seen[(x, y)]? = some () → ∀ σ, eval sa x σ = eval sb y σ

theorem isoF_sound (sa sb : Store) (ha : TableWF sa.nodes) (hb : TableWF sb.nodes) :
    ∀ (fuel : Nat) (seen : Seen) (a b : Nat), SeenOK sa sb seen →
      SeenOK sa sb (isoF sa.nodes sb.nodes fuel seen a b).2 ∧
      ((isoF sa.nodes sb.nodes fuel seen a b).1 = true → ∀ σ, eval sa a σ = eval sb b σ) := by
  intro fuel
  induction fuel with
  | zero => intro seen a b h; simp only [isoF]; exact ⟨h, fun x => by cases x⟩
  | succ f ih =>
    intro seen a b h
    unfold isoF
    by_cases hc : a < 2 ∨ b < 2
    · rw [if_pos hc]
      refine ⟨h, ?_⟩
      intro he
      have : a = b := by simpa using he
      subst this
      have h2 : a < 2 := by rcases hc with h | h <;> exact h
      intro σ
      rcases (by omega : a = 0 ∨ a = 1) with rfl | rfl
      · rw [eval_zero, eval_zero]
      · rw [eval_one, eval_one]
    · rw [if_neg hc]
      have ha2 : 2 ≤ a := by omega
      have hb2 : 2 ≤ b := by omega
      cases hs : seen[(a, b)]? with
      | some u => simp only; exact ⟨h, fun _ => h a b (by rw [hs])⟩
      | none =>
        simp only
        cases hna : sa.nodes[a]? with
        | none => simp only; exact ⟨h, fun x => by cases x⟩
        | some na =>
          cases hnb : sb.nodes[b]? with
          | none => simp only; exact ⟨h, fun x => by cases x⟩
          | some nb =>
            simp only
            by_cases hv : na.var ≠ nb.var
            · rw [if_pos hv]; exact ⟨h, fun x => by cases x⟩
            · rw [if_neg hv]
              have hv' : na.var = nb.var := by simpa using hv
              have ⟨s1, e1⟩ := ih seen na.lo nb.lo h
              by_cases h1 : (!(isoF sa.nodes sb.nodes f seen na.lo nb.lo).1) = true
              · rw [if_pos h1]; exact ⟨s1, fun x => by cases x⟩
              · rw [if_neg h1]
                have h1' : (isoF sa.nodes sb.nodes f seen na.lo nb.lo).1 = true := by simpa using h1
                have ⟨s2, e2⟩ := ih (isoF sa.nodes sb.nodes f seen na.lo nb.lo).2 na.hi nb.hi s1
                by_cases h2 : (!(isoF sa.nodes sb.nodes f (isoF sa.nodes sb.nodes f seen na.lo nb.lo).2 na.hi nb.hi).1) = true
                · rw [if_pos h2]; exact ⟨s2, fun x => by cases x⟩
                · rw [if_neg h2]
                  have h2' : (isoF sa.nodes sb.nodes f (isoF sa.nodes sb.nodes f seen na.lo nb.lo).2 na.hi nb.hi).1 = true := by
                    simpa using h2
                  have key : ∀ σ, eval sa a σ = eval sb b σ := by
                    intro σ
                    rw [Tab.eval_node sa ha a na ha2 hna, Tab.eval_node sb hb b nb hb2 hnb, hv',
                        e1 h1' σ, e2 h2' σ]
                  refine ⟨?_, fun _ => key⟩
                  intro x y hxy
                  simp only [Std.HashMap.getElem?_insert] at hxy
                  by_cases hk : ((a, b) == (x, y)) = true
                  · have hk' : (a, b) = (x, y) := by simpa using hk
                    cases hk'; exact key
                  · rw [if_neg hk] at hxy
                    exact s2 x y hxy

/-- the validator: both tables pass `wfCheck`, the comparison says `true` ⇒ same function -/
theorem isoCheck_sound (sa sb : Store) (ca : wfCheck sa.nodes = true) (cb : wfCheck sb.nodes = true)
    (fuel a b : Nat) (h : (isoF sa.nodes sb.nodes fuel {} a b).1 = true) :
    ∀ σ, eval sa a σ = eval sb b σ := by
  have h0 : SeenOK sa sb {} := by
    intro x y hxy; simp at hxy
  exact (isoF_sound sa sb (wfCheck_sound _ ca) (wfCheck_sound _ cb) fuel {} a b h0).2 h
#print axioms isoCheck_sound
