import AdfObdd.CallHistory
import AdfObdd.CliFaithful
import AdfObdd.MemoTransparent
import AdfObdd.PathsDepth
import AdfObdd.FeatureTables
/-! # Call histories: the store invariant, handle stability, exactness of every answer (C11)

* `CallH.Inv` — the object invariant: store well formed, `ac` has `n` valid handles, every issued
  handle valid;
* `CallH.runCall_step` / `CallH.runCalls_inv` — every call / every history keeps it, only extends the
  node table, leaves `ac`, `n` alone and only appends to the issued handles;
* `CallH.Exact` — what each answer must be, as a function of the Boolean functions `D` the conditions
  denote; `CallH.runCall_exact` — every call on an object satisfying the invariant answers exactly
  that; `CallH.Exact.agree` — two exact answers for the same `D` agree. -/
namespace CallH
open NConc NSem

/-! ### the nogood-learning search keeps the store well formed for EVERY bound (halted or not) -/

theorem cState_store (h : CHeu) (hok : HeuOK h) (s : Store) (n : Nat) (ac : List Nat) (stable : Bool)
    (w0 : WF s) (hac0 : ∀ t ∈ ac, t < s.nodes.size) (hn : ac.length = n) : ∀ k,
    WF (cState h s n ac stable k).s ∧ Ext s (cState h s n ac stable k).s ∧
    ((cState h s n ac stable k).done = true ∨
      ∃ a, Rel (cState h s n ac stable k) a ∧ CInv s n (cState h s n ac stable k)) := by
  intro k
  induction k with
  | zero =>
    have ⟨hrel, hinv, _, _⟩ := init_facts s n ac stable w0 hac0 hn
    exact ⟨hinv.wf, hinv.ext, Or.inr ⟨_, hrel, hinv⟩⟩
  | succ k ih =>
    obtain ⟨wk, ek, hk⟩ := ih
    rcases hk with hd | ⟨a, hr, hi⟩
    · have e : cState h s n ac stable (k + 1) = cState h s n ac stable k := by
        have hd' : (cRun h n ac stable k (initC s n ac)).done = true := hd
        unfold cState; rw [cRun_succ, if_pos hd']
      rw [e]; exact ⟨wk, ek, Or.inl hd⟩
    · have hnext : cState h s n ac stable (k + 1) = cIter h n ac stable (cState h s n ac stable k) := by
        have hnd : (cRun h n ac stable k (initC s n ac)).done = false := hi.nd
        unfold cState
        rw [cRun_succ, hnd]
        simp only [Bool.false_eq_true, if_false]
      have hst := CliF.iter_store ac stable w0 hac0 hn hok hr hi
      have hsim := sim_iter ac stable (rawOf h s n ac stable) w0 hac0 hn hok k hr hi rfl
      rw [hnext]
      refine ⟨hst.1, hst.2, ?_⟩
      cases hit : NGen.iter (PP s n ac stable (rawOf h s n ac stable)) k a with
      | done a1 => rw [hit] at hsim; exact Or.inl hsim.1
      | cont a1 => rw [hit] at hsim; exact Or.inr ⟨a1, hsim.1, hsim.2⟩

/-- whatever the bound, the store `SM.ngSearch` leaves behind is a well-formed extension -/
theorem ngSearch_store (h : SM.Heu) (F : Nat) (s : Store) (n : Nat) (ac : List Nat) (stable : Bool)
    (w0 : WF s) (hn : ac.length = n) (hac0 : ∀ t ∈ ac, t < s.nodes.size) :
    WF (SM.ngSearch h F s n ac stable).1 ∧ Ext s (SM.ngSearch h F s n ac stable).1 := by
  rw [ngSearch_eq]
  have := cState_store (SM.heuCall h) (heuOK_builtin h) s n ac stable w0 hac0 hn F
  exact ⟨this.1, this.2.1⟩

/-! ### the object invariant and what a call may change -/

/-- the invariant of an `Adf` object between calls -/
structure Inv (st : AdfState) : Prop where
  wf : WF st.s
  len : st.ac.length = st.n
  ac : ∀ t ∈ st.ac, t < st.s.nodes.size
  issued : ∀ t ∈ st.issued, t < st.s.nodes.size

/-- what a call (a history) may change: the node table is only extended (every old entry stays
where it is), `ac` and `n` are untouched, issued handles are only appended -/
structure Step (st st' : AdfState) : Prop where
  ext : Ext st.s st'.s
  ac : st'.ac = st.ac
  n : st'.n = st.n
  issued : st.issued <+: st'.issued

theorem Step.refl (st : AdfState) : Step st st := ⟨Ext.refl _, rfl, rfl, List.prefix_refl _⟩
theorem Step.trans {a b c : AdfState} (h1 : Step a b) (h2 : Step b c) : Step a c :=
  ⟨h1.ext.trans h2.ext, h2.ac.trans h1.ac, h2.n.trans h1.n, h1.issued.trans h2.issued⟩

theorem inv_store {st : AdfState} (hi : Inv st) {s' : Store} (w : WF s') (e : Ext st.s s') :
    Inv { st with s := s' } ∧ Step st { st with s := s' } :=
  ⟨⟨w, hi.len, fun t ht => Nat.lt_of_lt_of_le (hi.ac t ht) e.1,
     fun t ht => Nat.lt_of_lt_of_le (hi.issued t ht) e.1⟩, ⟨e, rfl, rfl, List.prefix_refl _⟩⟩

theorem base_valid {st : AdfState} (hi : Inv st) :
    ∀ k, k < st.base.length → hget st.base k < st.s.nodes.size := by
  intro k hk
  have hm : hget st.base k ∈ st.base := by
    have : hget st.base k = st.base[k] := by simp [hget, List.getD, hk]
    rw [this]; exact List.getElem_mem hk
  generalize hget st.base k = x at hm ⊢
  unfold AdfState.base at hm
  rcases List.mem_cons.mp hm with h | h
  · rw [h]; exact zero_lt _ hi.wf
  rcases List.mem_cons.mp h with h | h
  · rw [h]; exact one_lt _ hi.wf
  · exact hi.ac _ h

theorem histOK_valid {s : Store} {hist : List Nat} {fs : List BoolFn} (h : HistOK s hist fs) :
    ∀ t ∈ hist, t < s.nodes.size := by
  intro t ht
  obtain ⟨k, hk, e⟩ := List.getElem_of_mem ht
  have := (h.ok k hk).1
  have e2 : hget hist k = t := by simp [hget, List.getD, hk, e]
  rw [e2] at this; exact this

theorem histOK_map {s : Store} {hist : List Nat} {fs : List BoolFn} (h : HistOK s hist fs) :
    hist.map (eval s) = fs := by
  apply List.ext_getElem (by simp [h.len])
  intro k h1 h2
  have hk : k < hist.length := by simpa using h1
  funext σ
  have := (h.ok k hk).2 σ
  have e1 : hget hist k = hist[k] := by simp [hget, List.getD, hk]
  have e2 : fget fs k = fs[k] := by simp [fget, List.getD, h2]
  rw [e1, e2] at this
  simpa using this

/-- **one call**: the invariant is kept and the object only grows -/
theorem runCall_step (st : AdfState) (c : Call) (hi : Inv st) :
    Inv (runCall st c).1 ∧ Step st (runCall st c).1 := by
  cases c with
  | grounded =>
    have ⟨i1, l1, v1, _⟩ := groundedLoop_sem StoreRA (st.n + 1) st.s st.ac hi.wf hi.ac
    refine ⟨⟨i1, hi.len, fun t ht => Nat.lt_of_lt_of_le (hi.ac t ht) l1.1, ?_⟩,
      ⟨l1, rfl, rfl, List.prefix_append _ _⟩⟩
    intro t ht
    rcases List.mem_append.mp ht with h | h
    · exact Nat.lt_of_lt_of_le (hi.issued t h) l1.1
    · exact v1 t h
  | complete =>
    have ⟨w, e, _⟩ := C02.complete_store st.s st.n st.ac hi.wf hi.len hi.ac
    exact inv_store hi w e
  | stable =>
    have ⟨⟨w, e⟩, _⟩ := C03.stable_store st.s st.n st.ac hi.wf hi.len hi.ac
    exact inv_store hi w e
  | stablePre =>
    have ⟨_, ⟨w, e⟩⟩ := C03.stable_store st.s st.n st.ac hi.wf hi.len hi.ac
    exact inv_store hi w e
  | count useA =>
    have ⟨w, e⟩ := CliF.countAll_store st.s st.n st.ac useA hi.wf hi.len hi.ac
    exact inv_store hi w e
  | ng h fuel stable =>
    have ⟨w, e⟩ := ngSearch_store h fuel st.s st.n st.ac stable hi.wf hi.len hi.ac
    exact inv_store hi w e
  | query i q =>
    simp only [runCall]
    split <;> exact ⟨hi, Step.refl _⟩
  | ops l =>
    simp only [runCall]
    split
    · rename_i hv
      have hb := base_valid hi
      have ⟨w, e, hk⟩ := runOps_refines l st.s st.base _ hi.wf (MemoT.histOK_of_bounds st.s st.base hb) hv
      refine ⟨⟨w, hi.len, fun t ht => Nat.lt_of_lt_of_le (hi.ac t ht) e.1, ?_⟩,
        ⟨e, rfl, rfl, List.prefix_append _ _⟩⟩
      intro t ht
      rcases List.mem_append.mp ht with h | h
      · exact Nat.lt_of_lt_of_le (hi.issued t h) e.1
      · exact histOK_valid hk t (List.mem_of_mem_drop h)
    · exact ⟨hi, Step.refl _⟩

/-- **any history**: by induction over the call list -/
theorem runCalls_inv : ∀ (h : List Call) (st : AdfState), Inv st →
    Inv (runCalls st h).1 ∧ Step st (runCalls st h).1 := by
  intro h
  induction h with
  | nil => intro st hi; exact ⟨hi, Step.refl _⟩
  | cons c cs ih =>
    intro st hi
    have ⟨i1, s1⟩ := runCall_step st c hi
    have ⟨i2, s2⟩ := ih _ i1
    exact ⟨i2, s1.trans s2⟩

/-- handle stability in the form the property states it: every handle that existed before a
step is still a handle, names the same node and denotes the same Boolean function afterwards -/
theorem Step.handles_stable {st st' : AdfState} (hi : Inv st) (h : Step st st') (t : Nat)
    (ht : t < st.s.nodes.size) :
    t < st'.s.nodes.size ∧ st'.s.nodes[t]? = st.s.nodes[t]? ∧ ∀ σ, eval st'.s t σ = eval st.s t σ := by
  refine ⟨Nat.lt_of_lt_of_le ht h.ext.1, ?_, fun σ => eval_ext hi.wf h.ext t σ ht⟩
  obtain ⟨m, hm⟩ := get_of_lt ht
  rw [hm]; exact h.ext.2 t m hm

/-- the conditions denote after a step what they denoted before -/
theorem Step.den_same {st st' : AdfState} (hi : Inv st) (h : Step st st') :
    st'.ac.map (eval st'.s) = st.ac.map (eval st.s) := by
  rw [h.ac]
  apply List.map_congr_left
  intro t ht
  funext σ
  exact eval_ext hi.wf h.ext t σ (hi.ac t ht)

/-! ### every answer is determined by the Boolean functions of the conditions -/

/-- decided parts (T / F / u) of a list of term vectors -/
def dec (vs : List (List Nat)) : List I3 := vs.map (fun v => v.map storeIsConst)

/-- stable model of `D` (`stable = true`) / two-valued model of `D` (`stable = false`) -/
def ModelSpec (D : List BoolFn) (n : Nat) (stable : Bool) (v : I3) : Prop :=
  v.length = n ∧ TotalI v ∧ Gam D v = v ∧
    (stable = true → ∀ w : I3, IsLfp (redu D v) w → ∀ i : Nat, v[i]? = some (some true) → w[i]? = some (some true))

/-- the functions of the start history of an extra-formula call -/
def baseFs (D : List BoolFn) : List BoolFn := (fun _ => false) :: (fun _ => true) :: D

/-- two-valued nogood mode is the one call kind with a side condition (see `C05.ng_search_statement`) -/
def _root_.Call.twoValued : Call → Prop
  | .ng _ _ false => True
  | _ => False

/-- every condition depends on the statements `0 … n-1` only (holds for every parsed framework:
an undeclared atom makes `from_parser` panic) -/
def Supp (st : AdfState) : Prop :=
  ∀ t ∈ st.ac, ∀ σ τ : Asg, (∀ i, i < st.n → σ i = τ i) → eval st.s t σ = eval st.s t τ

/-- **what the answer of a call must be**, as a function of the Boolean functions `D` the
conditions denote (and of nothing else); `s'` is the store after the call (term vectors and
handles are read in it). Queries are handled separately (`query_stable`): their answers are equal
as numbers. -/
def Exact (D : List BoolFn) (n : Nat) : Call → Store → Answer → Prop
  | .grounded, s', .vec v => IsLfp D (v.map storeIsConst) ∧ v.map (eval s') = semLoop (n + 1) D
  | .complete, _, .vecs vs =>
    (dec vs).Nodup ∧ (∀ w : I3, w ∈ dec vs ↔ (w.length = n ∧ Gam D w = w)) ∧
    ∃ g, (dec vs).head? = some g ∧ IsLfp D g
  | .stable, _, .vecs vs => (dec vs).Nodup ∧ ∀ v : I3, v ∈ dec vs ↔ ModelSpec D n true v
  | .stablePre, _, .vecs vs => (dec vs).Nodup ∧ ∀ v : I3, v ∈ dec vs ↔ ModelSpec D n true v
  | .count _, _, .vecs vs => (dec vs).Nodup ∧ ∀ v : I3, v ∈ dec vs ↔ ModelSpec D n true v
  | .ng _ _ stable, _, .ng vs _ => (dec vs).Nodup ∧ ∀ v : I3, v ∈ dec vs ↔ ModelSpec D n stable v
  | .ng _ _ _, _, .fuelExhausted => True
  | .query _ _, _, _ => True
  | .ops l, s', .handles hs =>
    opsValid l (D.length + 2) ∧ hs.map (eval s') = (semOps l (baseFs D)).drop (D.length + 2)
  | .ops l, _, .rejected => ¬ opsValid l (D.length + 2)
  | _, _, _ => False

theorem isLfp_of_native (s : Store) (n : Nat) (ac : List Nat) (w : WF s) (hn : ac.length = n)
    (hv : ∀ t ∈ ac, t < s.nodes.size) :
    IsLfp (ac.map (eval s)) ((groundedLoop StoreRA (n + 1) s ac).2.map storeIsConst) :=
  grounded_native (n + 1) s ac w hv (by omega)

theorem base_fs {st : AdfState} : st.base.map (eval st.s) = baseFs (st.ac.map (eval st.s)) := by
  simp only [AdfState.base, baseFs, List.map_cons]
  have e0 : eval st.s 0 = fun _ => false := funext (eval_zero _)
  have e1 : eval st.s 1 = fun _ => true := funext (eval_one _)
  rw [e0, e1]

theorem modelSpec_true (D : List BoolFn) (n : Nat) (v : I3) :
    ModelSpec D n true v ↔ (v.length = n ∧ TotalI v ∧ Gam D v = v ∧
      ∀ w : I3, IsLfp (redu D v) w → ∀ i : Nat, v[i]? = some (some true) → w[i]? = some (some true)) := by
  constructor
  · intro ⟨a, b, c, d⟩; exact ⟨a, b, c, d rfl⟩
  · intro ⟨a, b, c, d⟩; exact ⟨a, b, c, fun _ => d⟩

/-- **exactness of every call** on an object satisfying the invariant -/
theorem runCall_exact (st : AdfState) (c : Call) (hi : Inv st) (hs : c.twoValued → Supp st) :
    Exact (st.ac.map (eval st.s)) st.n c (runCall st c).1.s (runCall st c).2 := by
  cases c with
  | grounded =>
    have ⟨_, _, _, d1⟩ := groundedLoop_sem StoreRA (st.n + 1) st.s st.ac hi.wf hi.ac
    exact ⟨isLfp_of_native st.s st.n st.ac hi.wf hi.len hi.ac, d1⟩
  | complete =>
    have ⟨a, b, c⟩ := C02.complete_exact st.s st.n st.ac hi.wf hi.len hi.ac
    have ⟨_, _, g⟩ := C02.complete_store st.s st.n st.ac hi.wf hi.len hi.ac
    refine ⟨a, b, _, ?_, isLfp_of_native st.s st.n st.ac hi.wf hi.len hi.ac⟩
    show (List.map _ (completeAll st.s st.n st.ac).2.2).head? = _
    rw [List.head?_map, c, g]; rfl
  | stable =>
    have ⟨a, b⟩ := C03.stable_exact st.s st.n st.ac hi.wf hi.len hi.ac
    exact ⟨a, fun v => (b v).trans (modelSpec_true _ _ v).symm⟩
  | stablePre =>
    have ⟨a, b⟩ := C03.stablepre_exact st.s st.n st.ac hi.wf hi.len hi.ac
    exact ⟨a, fun v => (b v).trans (modelSpec_true _ _ v).symm⟩
  | count useA =>
    have ⟨a, b⟩ := C04.count_search_exact st.s st.n st.ac useA hi.wf hi.len hi.ac
    exact ⟨a, fun v => (b v).trans (modelSpec_true _ _ v).symm⟩
  | ng h fuel stable =>
    have hsup : stable = false → ∀ t ∈ st.ac, ∀ σ τ : Asg, (∀ i, i < st.n → σ i = τ i) →
        eval st.s t σ = eval st.s t τ := by
      intro e; subst e; exact hs trivial
    have f := (CliF.ng_facts h st.s st.n st.ac stable hi.wf hi.len hi.ac hsup).2 fuel
    simp only [runCall]
    split
    · rename_i hd
      have ⟨_, _, a, b⟩ := f hd
      exact ⟨a, b⟩
    · trivial
  | query i q => simp only [runCall]; split <;> trivial
  | ops l =>
    have hl : st.base.length = (st.ac.map (eval st.s)).length + 2 := by simp [AdfState.base]
    simp only [runCall]
    split
    · rename_i hv
      have hb := base_valid hi
      have ⟨_, _, hk⟩ := runOps_refines l st.s st.base _ hi.wf (MemoT.histOK_of_bounds st.s st.base hb) hv
      refine ⟨hl ▸ hv, ?_⟩
      show List.map (eval (runOps l st.s st.base).1) (List.drop st.base.length (runOps l st.s st.base).2) = _
      rw [List.map_drop, histOK_map hk, base_fs, hl]
    · rename_i hv
      exact fun h => hv (hl ▸ h)

/-! ### agreement of two answers to the same call -/

/-- two answers to the same call agree: the grounded vectors have the same decided part and their
handles denote the same functions (each in its store); lists of models are duplicate-free and equal
as sets of T/F/u vectors (for `complete`: with the same first element); query answers are equal;
extra formulas denote the same functions; both requests rejected. A bounded nogood-learning search
that hit its bound on either side says nothing (`ng_halts`: it does not for large bounds). -/
def Agree : Call → Store → Answer → Store → Answer → Prop
  | .grounded, s₁, .vec v, s₂, .vec v' =>
    v.map storeIsConst = v'.map storeIsConst ∧ v.map (eval s₁) = v'.map (eval s₂)
  | .complete, _, .vecs vs, _, .vecs vs' =>
    (dec vs).Nodup ∧ (dec vs').Nodup ∧ (∀ w : I3, w ∈ dec vs ↔ w ∈ dec vs') ∧ (dec vs).head? = (dec vs').head?
  | .stable, _, .vecs vs, _, .vecs vs' => (dec vs).Nodup ∧ (dec vs').Nodup ∧ ∀ w : I3, w ∈ dec vs ↔ w ∈ dec vs'
  | .stablePre, _, .vecs vs, _, .vecs vs' => (dec vs).Nodup ∧ (dec vs').Nodup ∧ ∀ w : I3, w ∈ dec vs ↔ w ∈ dec vs'
  | .count _, _, .vecs vs, _, .vecs vs' => (dec vs).Nodup ∧ (dec vs').Nodup ∧ ∀ w : I3, w ∈ dec vs ↔ w ∈ dec vs'
  | .ng _ _ _, _, .ng vs _, _, .ng vs' _ => (dec vs).Nodup ∧ (dec vs').Nodup ∧ ∀ w : I3, w ∈ dec vs ↔ w ∈ dec vs'
  | .ng _ _ _, _, .fuelExhausted, _, _ => True
  | .ng _ _ _, _, .ng _ _, _, .fuelExhausted => True
  | .query _ _, _, .nums l, _, .nums l' => l = l'
  | .query _ _, _, .rejected, _, .rejected => True
  | .ops _, s₁, .handles hs, s₂, .handles hs' => hs.map (eval s₁) = hs'.map (eval s₂)
  | .ops _, _, .rejected, _, .rejected => True
  | _, _, _, _, _ => False

theorem isLfp_unique {D : List BoolFn} {g g' : I3} (h : IsLfp D g) (h' : IsLfp D g') : g = g' := by
  have l1 := congrArg List.length h.1
  have l2 := congrArg List.length h'.1
  rw [Gam_length] at l1 l2
  exact Le3_antisymm (by omega) (h.2 _ h'.1) (h'.2 _ h.1)

/-- two exact answers (for the same functions `D`) agree -/
theorem Exact.agree {D : List BoolFn} {n : Nat} {c : Call} {s₁ s₂ : Store} {a₁ a₂ : Answer}
    (hq : ∀ i q, c ≠ .query i q) (h₁ : Exact D n c s₁ a₁) (h₂ : Exact D n c s₂ a₂) : Agree c s₁ a₁ s₂ a₂ := by
  cases c with
  | grounded =>
    cases a₁ <;> cases a₂ <;> simp only [Exact] at h₁ h₂ <;> try contradiction
    exact ⟨isLfp_unique h₁.1 h₂.1, h₁.2.trans h₂.2.symm⟩
  | complete =>
    cases a₁ <;> cases a₂ <;> simp only [Exact] at h₁ h₂ <;> try contradiction
    obtain ⟨a, b, g, hg, lg⟩ := h₁
    obtain ⟨a', b', g', hg', lg'⟩ := h₂
    refine ⟨a, a', fun w => (b w).trans (b' w).symm, ?_⟩
    rw [hg, hg', isLfp_unique lg lg']
  | stable =>
    cases a₁ <;> cases a₂ <;> simp only [Exact] at h₁ h₂ <;> try contradiction
    exact ⟨h₁.1, h₂.1, fun w => (h₁.2 w).trans (h₂.2 w).symm⟩
  | stablePre =>
    cases a₁ <;> cases a₂ <;> simp only [Exact] at h₁ h₂ <;> try contradiction
    exact ⟨h₁.1, h₂.1, fun w => (h₁.2 w).trans (h₂.2 w).symm⟩
  | count useA =>
    cases a₁ <;> cases a₂ <;> simp only [Exact] at h₁ h₂ <;> try contradiction
    exact ⟨h₁.1, h₂.1, fun w => (h₁.2 w).trans (h₂.2 w).symm⟩
  | ng h fuel stable =>
    cases a₁ <;> cases a₂ <;> simp only [Exact] at h₁ h₂ <;> try contradiction
    · exact ⟨h₁.1, h₂.1, fun w => (h₁.2 w).trans (h₂.2 w).symm⟩
    all_goals trivial
  | query i q => exact absurd rfl (hq i q)
  | ops l =>
    cases a₁ <;> cases a₂ <;> simp only [Exact] at h₁ h₂ <;> try contradiction
    · exact h₁.2.trans h₂.2.symm
    · exact absurd h₁.1 h₂
    · exact absurd h₂.1 h₁
    · trivial

/-! ### queries read the node table below the handle only -/

theorem countF_ext {s s' : Store} (w : WF s) (he : Ext s s') :
    ∀ (fuel t : Nat), t < s.nodes.size → countF s' fuel t = countF s fuel t := by
  intro fuel
  induction fuel with
  | zero => intros; rfl
  | succ f ih =>
    intro t ht
    by_cases h1 : t = 1
    · subst h1; rw [countF_one, countF_one]
    by_cases h0 : t = 0
    · subst h0; rw [countF_zero, countF_zero]
    obtain ⟨n, hn⟩ := get_of_lt ht
    have ⟨_, hlo, hhi, _, _, _⟩ := w.inner t n (by omega) hn
    rw [countF_node s' f t n (by omega) (he.2 t n hn), countF_node s f t n (by omega) hn,
      ih n.lo (by omega), ih n.hi (by omega)]

theorem pathsF_ext {s s' : Store} (w : WF s) (he : Ext s s') :
    ∀ (fuel t : Nat), t < s.nodes.size → pathsF s' fuel t = pathsF s fuel t := by
  intro fuel
  induction fuel with
  | zero => intros; rfl
  | succ f ih =>
    intro t ht
    by_cases h1 : t = 1
    · subst h1; rw [pathsF_one, pathsF_one]
    by_cases h0 : t = 0
    · subst h0; rw [pathsF_zero, pathsF_zero]
    obtain ⟨n, hn⟩ := get_of_lt ht
    have ⟨_, hlo, hhi, _, _, _⟩ := w.inner t n (by omega) hn
    rw [pathsF_node s' f t n (by omega) (he.2 t n hn), pathsF_node s f t n (by omega) hn,
      ih n.lo (by omega), ih n.hi (by omega)]

/-- a query on an existing handle gives the same numbers in every extension of the store -/
theorem runQuery_ext {s s' : Store} (w : WF s) (he : Ext s s') (t : Nat) (ht : t < s.nodes.size) (q : Query) :
    runQuery s' t q = runQuery s t q := by
  cases q with
  | models => simp only [runQuery, countF_ext w he (t + 1) t ht]
  | paths => simp only [runQuery, paths, pathsF_ext w he (t + 1) t ht]
  | depth => simp only [runQuery, countF_ext w he (t + 1) t ht]
  | deps => simp only [runQuery, depsOf, depsF_ext s s' w.table he.2 (t + 1) t ht]

/-! ### history independence -/

theorem supp_step {st st' : AdfState} (hi : Inv st) (h : Step st st') (hs : Supp st) : Supp st' := by
  intro t ht σ τ hag
  rw [h.ac] at ht
  rw [h.n] at hag
  rw [eval_ext hi.wf h.ext t σ (hi.ac t ht), eval_ext hi.wf h.ext t τ (hi.ac t ht)]
  exact hs t ht σ τ hag

/-- **history independence**: for every history `h` and every call `c`, the answer of `c` after
`h` agrees (`Agree`) with the answer of `c` on the object before `h` — in particular on the freshly
built object. -/
theorem history_independent (st : AdfState) (hi : Inv st) (h : List Call) (c : Call)
    (hs : c.twoValued → Supp st) :
    Agree c (runCall (runCalls st h).1 c).1.s (answerAfter st h c) (runCall st c).1.s (runCall st c).2 := by
  have ⟨hi', stp⟩ := runCalls_inv h st hi
  by_cases hq : ∃ i q, c = .query i q
  · obtain ⟨i, q, e⟩ := hq
    subst e
    simp only [answerAfter, runCall, stp.ac]
    by_cases hlt : i < st.ac.length
    · rw [if_pos hlt, if_pos hlt]
      have hv : st.ac.getD i 0 < st.s.nodes.size := by
        apply hi.ac
        rw [List.getD_eq_getElem?_getD, List.getElem?_eq_getElem hlt]
        exact List.getElem_mem hlt
      exact runQuery_ext hi.wf stp.ext _ hv q
    · rw [if_neg hlt, if_neg hlt]; trivial
  · have e1 := runCall_exact _ c hi' (fun hc => supp_step hi stp (hs hc))
    rw [stp.den_same hi, stp.n] at e1
    exact Exact.agree (fun i q e => hq ⟨i, q, e⟩) e1 (runCall_exact st c hi hs)

/-- the bounded nogood-learning search does halt: for every object satisfying the invariant there
is a bound from which on the answer is not `fuelExhausted` (C05 termination) -/
theorem ng_halts (st : AdfState) (hi : Inv st) (heu : SM.Heu) (stable : Bool)
    (hs : stable = false → Supp st) :
    ∃ F0, ∀ F, F0 ≤ F → (runCall st (.ng heu F stable)).2 ≠ .fuelExhausted := by
  obtain ⟨F0, hF⟩ := (CliF.ng_facts heu st.s st.n st.ac stable hi.wf hi.len hi.ac hs).1
  refine ⟨F0, fun F hle => ?_⟩
  simp only [runCall, hF F hle, if_true]
  intro h; cases h

/-- … also after any history -/
theorem ng_halts_after (st : AdfState) (hi : Inv st) (h : List Call) (heu : SM.Heu) (stable : Bool)
    (hs : stable = false → Supp st) :
    ∃ F0, ∀ F, F0 ≤ F → answerAfter st h (.ng heu F stable) ≠ .fuelExhausted := by
  have ⟨hi', stp⟩ := runCalls_inv h st hi
  exact ng_halts _ hi' heu stable (fun e => supp_step hi stp (hs e))

/-! ### the freshly built object -/

theorem fresh_inv (fms : List Fm) (hn : fms.length ≤ VBOT) (hv : ∀ f ∈ fms, f.atomsOK) :
    Inv (freshAdf fms) ∧ (freshAdf fms).ac.map (eval (freshAdf fms).s) = fms.map Fm.sem := by
  have ⟨w, hl, hva, hd⟩ := C02.buildNative_fns fms hn hv
  exact ⟨⟨w, hl, hva, fun _ h => by cases h⟩, hd⟩

theorem fresh_supp (fms : List Fm) (hn : fms.length ≤ VBOT) (hv : ∀ f ∈ fms, NConc.atomsLt fms.length f) :
    Supp (freshAdf fms) := by
  have hok : ∀ f ∈ fms, f.atomsOK := fun f hf => NConc.atomsOK_of_lt hn f (hv f hf)
  have ⟨hi, hd⟩ := fresh_inv fms hn hok
  intro t ht σ τ hag
  obtain ⟨i, hi', rfl⟩ := List.getElem_of_mem ht
  have hlen : i < fms.length := by have := hi.len; simp only [freshAdf] at this hi' ⊢; omega
  have e := List.getElem_of_eq hd (by simpa using hi')
  simp only [List.getElem_map] at e
  rw [e]
  exact NConc.sem_supp _ (hv _ (List.getElem_mem hlen)) σ τ hag

/-- **after any history, the answer is the definitional answer of the WRITTEN framework** -/
theorem exact_after_history_from_formulas (fms : List Fm) (hn : fms.length ≤ VBOT)
    (hv : ∀ f ∈ fms, NConc.atomsLt fms.length f) (h : List Call) (c : Call) :
    Exact (fms.map Fm.sem) fms.length c (runCall (runCalls (freshAdf fms) h).1 c).1.s
      (answerAfter (freshAdf fms) h c) := by
  have hok : ∀ f ∈ fms, f.atomsOK := fun f hf => NConc.atomsOK_of_lt hn f (hv f hf)
  have ⟨hi, hd⟩ := fresh_inv fms hn hok
  have ⟨hi', stp⟩ := runCalls_inv h _ hi
  have e1 := runCall_exact _ c hi' (fun _ => supp_step hi stp (fresh_supp fms hn hv))
  rw [stp.den_same hi, stp.n, hd] at e1
  exact e1

end CallH
