import AdfObdd.Parser3
import AdfObdd.Parser4

namespace ParserM
/-! file level soundness of the parser model: whatever `all_consuming(many1(alt(statement, ac)))`
    accepts is a text of the documented file format, with exactly the returned facts -/

theorem ws0_some (cs r : List Char) (h : ws0 cs = some ((), r)) : ∃ w, cs = w ++ r ∧ AllWs w := by
  unfold ws0 at h
  simp only [Option.some.injEq, Prod.mk.injEq, true_and] at h
  have ⟨a, b⟩ := dropWhile_split isWs cs
  exact ⟨cs.takeWhile isWs, by rw [← h]; exact a, b⟩

theorem stmtP_some (cs : Inp) (x : Fact) (r : Inp) (h : stmtP cs = some (x, r)) :
    ∃ l sl w, x = Fact.stmt l ∧ cs = ['s','('] ++ sl ++ [')','.'] ++ w ++ r ∧ DerL l sl ∧ AllWs w := by
  unfold stmtP at h
  simp only [Option.bind] at h
  cases h0 : tagL ['s'] cs with
  | none => rw [h0] at h; cases h
  | some a =>
    rw [h0] at h; simp only at h
    cases h1 : tagL ['('] a.2 with
    | none => rw [h1] at h; cases h
    | some b =>
      rw [h1] at h; simp only at h
      cases h2 : atomic b.2 with
      | none => rw [h2] at h; cases h
      | some l =>
        rw [h2] at h; simp only at h
        cases h3 : tagL [')'] l.2 with
        | none => rw [h3] at h; cases h
        | some c =>
          rw [h3] at h; simp only at h
          cases h4 : tagL ['.'] c.2 with
          | none => rw [h4] at h; cases h
          | some d =>
            rw [h4] at h; simp only at h
            cases h5 : ws0 d.2 with
            | none => rw [h5] at h; cases h
            | some e =>
              rw [h5] at h
              simp only [Option.some.injEq, Prod.mk.injEq] at h
              obtain ⟨rfl, rfl⟩ := h
              have e0 := tagL_some _ _ _ (show tagL ['s'] cs = some ((), a.2) by rw [h0])
              have e1 := tagL_some _ _ _ (show tagL ['('] a.2 = some ((), b.2) by rw [h1])
              obtain ⟨sl, e2, hl⟩ := atomic_some b.2 l.1 l.2 (by rw [h2])
              have e3 := tagL_some _ _ _ (show tagL [')'] l.2 = some ((), c.2) by rw [h3])
              have e4 := tagL_some _ _ _ (show tagL ['.'] c.2 = some ((), d.2) by rw [h4])
              obtain ⟨w, e5, hw⟩ := ws0_some d.2 e.2 (by rw [h5])
              refine ⟨l.1, sl, w, rfl, ?_, hl, hw⟩
              rw [e0, e1, e2, e3, e4, e5]; simp

theorem acP_some (fuel : Nat) (cs : Inp) (x : Fact) (r : Inp) (h : acP fuel cs = some (x, r)) :
    ∃ l sl f s w1 w2 w, x = Fact.ac l f ∧
      cs = ['a','c','('] ++ sl ++ w1 ++ [','] ++ w2 ++ s ++ [')','.'] ++ w ++ r ∧
      DerL l sl ∧ DerF f s ∧ AllWs w1 ∧ AllWs w2 ∧ AllWs w := by
  unfold acP at h
  simp only [Option.bind] at h
  cases h0 : tagL ['a','c'] cs with
  | none => rw [h0] at h; cases h
  | some a =>
    rw [h0] at h; simp only at h
    cases h1 : tagL ['('] a.2 with
    | none => rw [h1] at h; cases h
    | some b =>
      rw [h1] at h; simp only at h
      cases h2 : atomic b.2 with
      | none => rw [h2] at h; cases h
      | some l =>
        rw [h2] at h; simp only at h
        cases h3 : commaP l.2 with
        | none => rw [h3] at h; cases h
        | some c =>
          rw [h3] at h; simp only at h
          cases h4 : formulaF fuel c.2 with
          | none => rw [h4] at h; cases h
          | some f =>
            rw [h4] at h; simp only at h
            cases h5 : tagL [')'] f.2 with
            | none => rw [h5] at h; cases h
            | some d =>
              rw [h5] at h; simp only at h
              cases h6 : tagL ['.'] d.2 with
              | none => rw [h6] at h; cases h
              | some e =>
                rw [h6] at h; simp only at h
                cases h7 : ws0 e.2 with
                | none => rw [h7] at h; cases h
                | some g =>
                  rw [h7] at h
                  simp only [Option.some.injEq, Prod.mk.injEq] at h
                  obtain ⟨rfl, rfl⟩ := h
                  have e0 := tagL_some _ _ _ (show tagL ['a','c'] cs = some ((), a.2) by rw [h0])
                  have e1 := tagL_some _ _ _ (show tagL ['('] a.2 = some ((), b.2) by rw [h1])
                  obtain ⟨sl, e2, hl⟩ := atomic_some b.2 l.1 l.2 (by rw [h2])
                  obtain ⟨w1, w2, e3, hw1, hw2⟩ := commaP_some l.2 c.2 (by rw [h3])
                  obtain ⟨s, e4, hf⟩ := formula_sound fuel c.2 f.1 f.2 (by rw [h4])
                  have e5 := tagL_some _ _ _ (show tagL [')'] f.2 = some ((), d.2) by rw [h5])
                  have e6 := tagL_some _ _ _ (show tagL ['.'] d.2 = some ((), e.2) by rw [h6])
                  obtain ⟨w, e7, hw⟩ := ws0_some e.2 g.2 (by rw [h7])
                  refine ⟨l.1, sl, f.1, s, w1, w2, w, rfl, ?_, hl, hf, hw1, hw2, hw⟩
                  rw [e0, e1, e2, e3, e4, e5, e6, e7]; simp

theorem factP_some (fuel : Nat) (cs : Inp) (x : Fact) (r : Inp) (h : factP fuel cs = some (x, r)) :
    ∃ s, cs = s ++ r ∧ DerFact x s := by
  unfold factP at h
  rcases orElse_cases _ _ _ _ h with hs | ⟨_, ha⟩
  · obtain ⟨l, sl, w, rfl, e, hl, hw⟩ := stmtP_some cs x r hs
    exact ⟨['s','('] ++ sl ++ [')','.'] ++ w, e, DerFact.stmt l sl w hl hw⟩
  · obtain ⟨l, sl, f, s, w1, w2, w, rfl, e, hl, hf, h1, h2, hw⟩ := acP_some fuel cs x r ha
    exact ⟨['a','c','('] ++ sl ++ w1 ++ [','] ++ w2 ++ s ++ [')','.'] ++ w, e,
      DerFact.ac l sl f s w1 w2 w hl hf h1 h2 hw⟩

theorem many_sound (fuel : Nat) : ∀ (k : Nat) (cs : Inp) (fs : List Fact) (r : Inp),
    many (factP fuel) k cs = (fs, r) → ∃ s, cs = s ++ r ∧ DerFile fs s := by
  intro k
  induction k with
  | zero =>
    intro cs fs r h
    simp only [many, Prod.mk.injEq] at h
    obtain ⟨rfl, rfl⟩ := h
    exact ⟨[], rfl, DerFile.nil⟩
  | succ k ih =>
    intro cs fs r h
    unfold many at h
    cases hp : factP fuel cs with
    | none =>
      rw [hp] at h
      simp only [Prod.mk.injEq] at h
      obtain ⟨rfl, rfl⟩ := h
      exact ⟨[], rfl, DerFile.nil⟩
    | some y =>
      obtain ⟨x, r1⟩ := y
      rw [hp] at h
      simp only [Prod.mk.injEq] at h
      obtain ⟨rfl, rfl⟩ := h
      obtain ⟨s1, e1, d1⟩ := factP_some fuel cs x r1 hp
      obtain ⟨s2, e2, d2⟩ := ih r1 _ _ rfl
      exact ⟨s1 ++ s2, by rw [e1, List.append_assoc, ← e2], DerFile.cons x _ s1 s2 d1 d2⟩

theorem parseFile_sound (fuel : Nat) (cs : Inp) (fs : List Fact) (h : parseFile fuel cs = some fs) :
    fs ≠ [] ∧ DerFile fs cs := by
  unfold parseFile at h
  cases hm : many (factP fuel) fuel cs with
  | mk gs r =>
    rw [hm] at h
    obtain ⟨s, e, d⟩ := many_sound fuel fuel cs gs r hm
    cases gs with
    | nil => simp at h
    | cons g gs' =>
      cases r with
      | nil =>
        simp only [Option.some.injEq] at h
        subst h
        refine ⟨by simp, ?_⟩
        rw [e, List.append_nil]; exact d
      | cons _ _ => simp at h

/-- file level soundness: an accepted text is a non-empty file of the documented format with
exactly the returned facts (so nothing outside the grammar is accepted) -/
theorem parseFacts_sound (cs : Inp) (fs : List Fact) (h : parseFacts cs = some fs) :
    fs ≠ [] ∧ DerFile fs cs := parseFile_sound _ cs fs h
#print axioms parseFacts_sound

/-- the accepted language and the result do not depend on the fuel -/
theorem parseFile_fuel_irrelevant (fuel : Nat) (cs : Inp) (fs : List Fact)
    (h : parseFile fuel cs = some fs) : parseFacts cs = some fs :=
  let ⟨a, b⟩ := parseFile_sound fuel cs fs h
  parseFacts_complete fs cs b a

/-- the grammar is unambiguous: a text denotes at most one list of facts -/
theorem DerFile.unique {fs gs : List Fact} {t : List Char} (h1 : DerFile fs t) (h2 : DerFile gs t) : fs = gs := by
  cases fs with
  | nil =>
    cases h1
    cases gs with
    | nil => rfl
    | cons g gs' =>
      have := (h2.bounds).1
      simp at this
  | cons f fs' =>
    cases gs with
    | nil =>
      cases h2
      have := (h1.bounds).1
      simp at this
    | cons g gs' =>
      have a := parseFacts_complete _ t h1 (by simp)
      have b := parseFacts_complete _ t h2 (by simp)
      rw [a] at b
      exact Option.some.inj b

end ParserM
