import AdfObdd.StoreCanon
/-! prototype 7: mkNode / restrict / ite with memo tables on the efficient store -/

theorem Ext.refl (s : Store) : Ext s s := ⟨Nat.le_refl _, fun _ _ h => h⟩
theorem Ext.trans {a b c : Store} (h1 : Ext a b) (h2 : Ext b c) : Ext a c :=
  ⟨Nat.le_trans h1.1 h2.1, fun i n h => h2.2 i n (h1.2 i n h)⟩

theorem mkNode_spec (s : Store) (w : WF s) (v lo hi : Nat)
    (hlo : lo < s.nodes.size) (hhi : hi < s.nodes.size) (hv : v < VBOT)
    (hvlo : v < topVar s lo) (hvhi : v < topVar s hi) :
    WF (mkNode s v lo hi).1 ∧ Ext s (mkNode s v lo hi).1 ∧
    (mkNode s v lo hi).2 < (mkNode s v lo hi).1.nodes.size ∧
    v ≤ topVar (mkNode s v lo hi).1 (mkNode s v lo hi).2 ∧
    (∀ σ, eval (mkNode s v lo hi).1 (mkNode s v lo hi).2 σ = if σ v then eval s hi σ else eval s lo σ) := by
  unfold mkNode
  by_cases hne : lo = hi
  · subst hne
    rw [if_pos rfl]
    refine ⟨w, Ext.refl _, hlo, Nat.le_of_lt hvlo, ?_⟩
    intro σ; split <;> rfl
  · rw [if_neg hne]
    cases hl : s.uniq[(⟨v, lo, hi⟩ : Node)]? with
    | some t =>
      simp only
      have ⟨ht2, hget⟩ := (w.uniqOK _ t).mp hl
      refine ⟨w, Ext.refl _, lt_of_get hget, by simp [topVar, hget], ?_⟩
      intro σ
      rw [eval_node s w t _ ht2 hget]
    | none =>
      simp only
      have ⟨w', he⟩ := WF_push s w v lo hi hlo hhi hv hne hvlo hvhi hl
      refine ⟨w', he, by simp, by simp [topVar], ?_⟩
      intro σ
      rw [eval_node _ w' s.nodes.size ⟨v, lo, hi⟩ w.len (by simp)]
      simp only
      rw [eval_ext w he hi σ hhi, eval_ext w he lo σ hlo]

/-- recording a true fact in the restrict memo keeps the store well formed -/
theorem WF_insert_res (s : Store) (w : WF s) (t v : Nat) (b : Bool) (r : Nat)
    (ht : t < s.nodes.size) (hr : r < s.nodes.size) (htv : topVar s t ≤ topVar s r)
    (hev : ∀ σ, eval s r σ = eval s t (upd σ v b)) :
    WF { s with resC := s.resC.insert (t, v, b) r } ∧ Ext s { s with resC := s.resC.insert (t, v, b) r } := by
  refine ⟨⟨w.len, w.bot, w.top, w.inner, w.uniqOK, ?_, w.iteOK⟩, Ext.refl _⟩
  intro t' v' b' r' h
  simp only [Std.HashMap.getElem?_insert] at h
  by_cases hk : ((t, v, b) == (t', v', b')) = true
  · rw [if_pos hk] at h
    have hk' : (t, v, b) = (t', v', b') := by simpa using hk
    cases hk'; cases h
    exact ⟨ht, hr, htv, hev⟩
  · rw [if_neg hk] at h
    exact w.resOK t' v' b' r' h

def restrictF : Nat → Store → Nat → Nat → Bool → Store × Nat
  | 0, s, t, _, _ => (s, t)
  | fuel+1, s, t, v, b =>
    match s.resC[(t, v, b)]? with
    | some r => (s, r)
    | none =>
    match s.nodes[t]? with
    | none => (s, t)
    | some n =>
      if n.var > v ∨ n.var ≥ VBOT then (s, t)
      else if n.var < v then
        let r1 := restrictF fuel s n.lo v b
        let r2 := restrictF fuel r1.1 n.hi v b
        let r3 := mkNode r2.1 n.var r1.2 r2.2
        ({ r3.1 with resC := r3.1.resC.insert (t, v, b) r3.2 }, r3.2)
      else
        let r := if b then restrictF fuel s n.hi v b else restrictF fuel s n.lo v b
        ({ r.1 with resC := r.1.resC.insert (t, v, b) r.2 }, r.2)

/-- insertion into the restrict memo of a store that is taken apart first (in place when compiled) -/
def Store.insRes (s : Store) (k : Nat × Nat × Bool) (r : Nat) : Store :=
  match s with
  | ⟨nodes, uniq, resC, iteC⟩ => ⟨nodes, uniq, resC.insert k r, iteC⟩

theorem Store.insRes_eq (s : Store) (k : Nat × Nat × Bool) (r : Nat) :
    s.insRes k r = { s with resC := s.resC.insert k r } := rfl

/-- `restrictF` with every intermediate pair taken apart at once, so that the compiled code holds a
single reference to the store (`@[csimp]`-substituted; theorems speak about `restrictF`) -/
def restrictL : Nat → Store → Nat → Nat → Bool → Store × Nat
  | 0, s, t, _, _ => (s, t)
  | fuel+1, s, t, v, b =>
    match s.resC[(t, v, b)]? with
    | some r => (s, r)
    | none =>
    match s.nodes[t]? with
    | none => (s, t)
    | some n =>
      if n.var > v ∨ n.var ≥ VBOT then (s, t)
      else if n.var < v then
        match restrictL fuel s n.lo v b with
        | (s1, a1) =>
        match restrictL fuel s1 n.hi v b with
        | (s2, a2) =>
        match mkNodeL s2 n.var a1 a2 with
        | (s3, r) => (s3.insRes (t, v, b) r, r)
      else
        match (if b then restrictL fuel s n.hi v b else restrictL fuel s n.lo v b) with
        | (s1, r) => (s1.insRes (t, v, b) r, r)

theorem restrictF_eq_restrictL : ∀ (fuel : Nat) (s : Store) (t v : Nat) (b : Bool),
    restrictF fuel s t v b = restrictL fuel s t v b := by
  intro fuel
  induction fuel with
  | zero => intros; rfl
  | succ f ih =>
    intro s t v b
    unfold restrictF restrictL
    split
    · rfl
    · split
      · rfl
      · split
        · rfl
        · split
          · simp only [ih, mkNode_eq_mkNodeL, Store.insRes_eq]
          · cases b <;> simp only [ih, Store.insRes_eq, if_true, if_false, Bool.false_eq_true]

@[csimp] theorem restrictF_eq_restrictL' : @restrictF = @restrictL := by
  funext fuel s t v b; exact restrictF_eq_restrictL fuel s t v b

theorem eval_upd_of_lt (s : Store) (w : WF s) (t : Nat) (ht : t < s.nodes.size) (v : Nat) (b : Bool)
    (hv : v < topVar s t) (σ : Asg) : eval s t (upd σ v b) = eval s t σ := by
  obtain ⟨n, hn⟩ := get_of_lt ht
  apply eval_indep s w t n hn
  intro x hx
  have : v < n.var := by simpa [topVar, hn] using hv
  simp only [upd]; split <;> first | omega | rfl

theorem topVar_child_lo {s : Store} (w : WF s) {t : Nat} {n : Node} (ht : 2 ≤ t) (hn : s.nodes[t]? = some n) :
    n.var < topVar s n.lo := by
  have ⟨_, hlo, _, _, hvlo, _⟩ := w.inner t n ht hn
  obtain ⟨m, hm⟩ := get_of_lt (ns := s.nodes) (i := n.lo) (by have := lt_of_get hn; omega)
  simp [topVar, hm]; exact hvlo m hm
theorem topVar_child_hi {s : Store} (w : WF s) {t : Nat} {n : Node} (ht : 2 ≤ t) (hn : s.nodes[t]? = some n) :
    n.var < topVar s n.hi := by
  have ⟨_, _, hhi, _, _, hvhi⟩ := w.inner t n ht hn
  obtain ⟨m, hm⟩ := get_of_lt (ns := s.nodes) (i := n.hi) (by have := lt_of_get hn; omega)
  simp [topVar, hm]; exact hvhi m hm

theorem inner_of_not_const {s : Store} (w : WF s) {t : Nat} {n : Node} (hn : s.nodes[t]? = some n)
    (h : ¬ n.var ≥ VBOT) : 2 ≤ t := by
  rcases Nat.lt_or_ge t 2 with h' | h'
  · exfalso
    have h01 : t = 0 ∨ t = 1 := by omega
    rcases h01 with h0 | h0 <;> subst h0
    · rw [w.bot] at hn; cases hn; simp [VBOT] at h
    · rw [w.top] at hn; cases hn; simp [VBOT, VTOP] at h
  · exact h'

theorem restrictF_spec : ∀ (fuel : Nat) (s : Store) (t v : Nat) (b : Bool),
    WF s → t < s.nodes.size → t < fuel →
    WF (restrictF fuel s t v b).1 ∧ Ext s (restrictF fuel s t v b).1 ∧
    (restrictF fuel s t v b).2 < (restrictF fuel s t v b).1.nodes.size ∧
    topVar s t ≤ topVar (restrictF fuel s t v b).1 (restrictF fuel s t v b).2 ∧
    (∀ σ, eval (restrictF fuel s t v b).1 (restrictF fuel s t v b).2 σ = eval s t (upd σ v b)) := by
  intro fuel
  induction fuel with
  | zero => intro s t v b _ _ h; omega
  | succ f ih =>
    intro s t v b w ht hf
    unfold restrictF
    cases hm : s.resC[(t, v, b)]? with
    | some r =>
      simp only
      have ⟨_, a, b', c⟩ := w.resOK t v b r hm
      exact ⟨w, Ext.refl _, a, b', c⟩
    | none =>
    simp only
    obtain ⟨n, hn⟩ := get_of_lt ht
    simp only [hn]
    by_cases hc1 : n.var > v ∨ n.var ≥ VBOT
    · rw [if_pos hc1]
      refine ⟨w, Ext.refl _, ht, Nat.le_refl _, ?_⟩
      intro σ
      rcases hc1 with h | h
      · exact (eval_upd_of_lt s w t ht v b (by simp [topVar, hn]; exact h) σ).symm
      · have ht01 : t < 2 := by
          rcases Nat.lt_or_ge t 2 with h' | h'
          · exact h'
          · have := (w.inner t n h' hn).1; omega
        have h01 : t = 0 ∨ t = 1 := by omega
        rcases h01 with h | h <;> subst h <;> simp [eval_zero, eval_one]
    · rw [if_neg hc1]
      have ht2 : 2 ≤ t := inner_of_not_const w hn (by omega)
      have ⟨hvb, hlo, hhi, _, _, _⟩ := w.inner t n ht2 hn
      by_cases hc2 : n.var < v
      · rw [if_pos hc2]
        simp only
        have ⟨w1, e1, l1, tv1, ev1⟩ := ih s n.lo v b w (by omega) (by omega)
        have hhi1 : n.hi < (restrictF f s n.lo v b).1.nodes.size := by have := e1.1; omega
        have ⟨w2, e2, l2, tv2, ev2⟩ := ih (restrictF f s n.lo v b).1 n.hi v b w1 hhi1 (by omega)
        have l1' : (restrictF f s n.lo v b).2 < (restrictF f (restrictF f s n.lo v b).1 n.hi v b).1.nodes.size := by
          have := e2.1; omega
        have hv1 : n.var < topVar (restrictF f (restrictF f s n.lo v b).1 n.hi v b).1 (restrictF f s n.lo v b).2 := by
          rw [topVar_ext e2 _ l1]
          have := topVar_child_lo w ht2 hn; omega
        have hv2 : n.var < topVar (restrictF f (restrictF f s n.lo v b).1 n.hi v b).1 (restrictF f (restrictF f s n.lo v b).1 n.hi v b).2 := by
          have := topVar_child_hi w ht2 hn
          rw [← topVar_ext e1 _ (by omega)] at this; omega
        have ⟨w3, e3, l3, tv3, ev3⟩ := mkNode_spec _ w2 n.var _ _ l1' l2 hvb hv1 hv2
        have e13 := (e1.trans e2).trans e3
        have ht3 : t < (mkNode (restrictF f (restrictF f s n.lo v b).1 n.hi v b).1 n.var (restrictF f s n.lo v b).2 (restrictF f (restrictF f s n.lo v b).1 n.hi v b).2).1.nodes.size := by
          have := e13.1; omega
        have hev : ∀ σ, eval (mkNode (restrictF f (restrictF f s n.lo v b).1 n.hi v b).1 n.var (restrictF f s n.lo v b).2 (restrictF f (restrictF f s n.lo v b).1 n.hi v b).2).1 (mkNode (restrictF f (restrictF f s n.lo v b).1 n.hi v b).1 n.var (restrictF f s n.lo v b).2 (restrictF f (restrictF f s n.lo v b).1 n.hi v b).2).2 σ = eval s t (upd σ v b) := by
          intro σ
          rw [ev3, ev2, eval_ext w1 e2 _ σ l1, ev1, eval_ext w e1 _ _ (by omega),
              eval_node s w t n ht2 hn]
          have : (upd σ v b) n.var = σ n.var := by simp only [upd]; split <;> first | omega | rfl
          rw [this]
        have htv : topVar s t ≤ topVar (mkNode (restrictF f (restrictF f s n.lo v b).1 n.hi v b).1 n.var (restrictF f s n.lo v b).2 (restrictF f (restrictF f s n.lo v b).1 n.hi v b).2).1 (mkNode (restrictF f (restrictF f s n.lo v b).1 n.hi v b).1 n.var (restrictF f s n.lo v b).2 (restrictF f (restrictF f s n.lo v b).1 n.hi v b).2).2 := by
          simp only [topVar, hn]; exact tv3
        have ⟨w4, e4⟩ := WF_insert_res _ w3 t v b _ ht3 l3
          (by rw [topVar_ext e13 t ht]; exact htv)
          (by intro σ; rw [hev σ, eval_ext w e13 t _ ht])
        exact ⟨w4, e13.trans e4, l3, htv, hev⟩
      · rw [if_neg hc2]
        have hveq : n.var = v := by omega
        simp only
        -- both polarities: the child call
        have key : ∀ c, c < t → n.var < topVar s c → (∀ σ, eval s t (upd σ v b) = eval s c (upd σ v b)) →
            (restrictF f s c v b = (if b = true then restrictF f s n.hi v b else restrictF f s n.lo v b)) →
            WF ({ (restrictF f s c v b).1 with resC := (restrictF f s c v b).1.resC.insert (t, v, b) (restrictF f s c v b).2 }) ∧
            Ext s ({ (restrictF f s c v b).1 with resC := (restrictF f s c v b).1.resC.insert (t, v, b) (restrictF f s c v b).2 }) ∧
            (restrictF f s c v b).2 < (restrictF f s c v b).1.nodes.size ∧
            topVar s t ≤ topVar (restrictF f s c v b).1 (restrictF f s c v b).2 ∧
            (∀ σ, eval (restrictF f s c v b).1 (restrictF f s c v b).2 σ = eval s t (upd σ v b)) := by
          intro c hc hcv hevc _
          have ⟨w1, e1, l1, tv1, ev1⟩ := ih s c v b w (by omega) (by omega)
          have htv : topVar s t ≤ topVar (restrictF f s c v b).1 (restrictF f s c v b).2 := by
            simp only [topVar, hn] at *; omega
          have hev : ∀ σ, eval (restrictF f s c v b).1 (restrictF f s c v b).2 σ = eval s t (upd σ v b) := by
            intro σ; rw [ev1, hevc]
          have ⟨w4, e4⟩ := WF_insert_res _ w1 t v b _ (by have := e1.1; omega) l1
            (by rw [topVar_ext e1 t ht]; exact htv)
            (by intro σ; rw [hev σ, eval_ext w e1 t _ ht])
          exact ⟨w4, e1.trans e4, l1, htv, hev⟩
        cases b with
        | true =>
          simp only [if_true]
          exact key n.hi hhi (topVar_child_hi w ht2 hn)
            (by intro σ; rw [eval_node s w t n ht2 hn]; simp [upd, hveq]) (by simp)
        | false =>
          simp only [Bool.false_eq_true, if_false]
          exact key n.lo hlo (topVar_child_lo w ht2 hn)
            (by intro σ; rw [eval_node s w t n ht2 hn]; simp [upd, hveq]) (by simp)
#print axioms restrictF_spec
