import AdfObdd.FeatureVariants
import AdfObdd.PathsDepth
/-! C12, the feature-dependent tables: `var_deps` (with `variablelist`) and `count_cache`
    (filled ad hoc in `node` with `adhoccounting`, by `modelcount_memoization` otherwise).
    Invariants `DepsOK`, `CntOK`, `CntFull`, `CntZero`; they are preserved by pushing a node,
    established by `new` and by the regeneration loops of `fix_import`; the memoised count and
    the cached depth return the naive values. Only the structural invariant of the bare node
    table (`TableWF`) is needed. -/

/-! ### the naive count, five numbers at once, is `countF` + `pathsF` -/

theorem CN.combine_eq (l h : CN) :
    CN.combine l h =
      ⟨l.cm * 2 ^ (max l.depth h.depth - l.depth) + h.cm * 2 ^ (max l.depth h.depth - h.depth),
       l.m * 2 ^ (max l.depth h.depth - l.depth) + h.m * 2 ^ (max l.depth h.depth - h.depth),
       l.pcm + h.pcm, l.pm + h.pm, max l.depth h.depth + 1⟩ := by
  unfold CN.combine
  by_cases hd : l.depth > h.depth
  · have e1 : max l.depth h.depth - l.depth = 0 := by omega
    have e2 : max l.depth h.depth - h.depth = l.depth - h.depth := by omega
    simp only [hd, if_true, e1, e2]
  · have e1 : max l.depth h.depth - l.depth = h.depth - l.depth := by omega
    have e2 : max l.depth h.depth - h.depth = 0 := by omega
    simp only [hd, if_false, e1, e2]

theorem naiveCN_eq (s : Store) : ∀ (fuel t : Nat),
    naiveCN s fuel t = ⟨(countF s fuel t).1, (countF s fuel t).2.1, (pathsF s fuel t).1, (pathsF s fuel t).2,
                        (countF s fuel t).2.2⟩ := by
  intro fuel
  induction fuel with
  | zero => intro t; rfl
  | succ f ih =>
    intro t
    by_cases h1 : t = 1
    · subst h1; rw [countF_one, pathsF_one]; simp [naiveCN, CN.top]
    by_cases h0 : t = 0
    · subst h0; rw [countF_zero, pathsF_zero]; simp [naiveCN, CN.bot]
    cases hn : s.nodes[t]? with
    | none => unfold naiveCN countF pathsF; simp [h0, h1, hn, CN.zero]
    | some n =>
      rw [countF_node s f t n (by omega) hn, pathsF_node s f t n (by omega) hn]
      conv => lhs; unfold naiveCN
      rw [if_neg h1, if_neg h0]
      simp only [hn]
      rw [CN.combine_eq, ih n.lo, ih n.hi]

theorem naive_one (s : Store) : naive s 1 = CN.top := by simp [naive, naiveCN]
theorem naive_zero (s : Store) : naive s 0 = CN.bot := by simp [naive, naiveCN]

theorem naiveCN_fuel (s : Store) (h : TableWF s.nodes) (t fuel : Nat) (hf : t < fuel) :
    naiveCN s fuel t = naive s t := by
  unfold naive
  rw [naiveCN_eq, naiveCN_eq, countF_fuel s h t fuel hf, pathsF_fuel s h t fuel hf]

theorem naive_node (s : Store) (h : TableWF s.nodes) (t : Nat) (n : Node) (ht : 2 ≤ t)
    (hn : s.nodes[t]? = some n) : naive s t = CN.combine (naive s n.lo) (naive s n.hi) := by
  have ⟨_, hlo, hhi, _, _, _⟩ := h.inner t n ht hn
  conv => lhs; unfold naive naiveCN
  rw [if_neg (by omega), if_neg (by omega)]
  simp only [hn]
  rw [naiveCN_fuel s h n.lo t hlo, naiveCN_fuel s h n.hi t hhi]

/-! ### extension and congruence -/

/-- append-only extension of a node table -/
def ExtN (ns ns' : Array Node) : Prop := ∀ (i : Nat) (n : Node), ns[i]? = some n → ns'[i]? = some n

theorem naiveCN_ext (s s' : Store) (h : TableWF s.nodes) (he : ExtN s.nodes s'.nodes) :
    ∀ (fuel t : Nat), t < s.nodes.size → naiveCN s' fuel t = naiveCN s fuel t := by
  intro fuel
  induction fuel with
  | zero => intros; rfl
  | succ f ih =>
    intro t ht
    by_cases h1 : t = 1
    · subst h1; simp [naiveCN]
    by_cases h0 : t = 0
    · subst h0; simp [naiveCN]
    obtain ⟨n, hn⟩ := get_of_lt ht
    have ⟨_, hlo, hhi, _, _, _⟩ := h.inner t n (by omega) hn
    unfold naiveCN
    rw [if_neg h1, if_neg h0, if_neg h1, if_neg h0]
    simp only [he t n hn, hn]
    rw [ih n.lo (by omega), ih n.hi (by omega)]

theorem naive_ext (s s' : Store) (h : TableWF s.nodes) (he : ExtN s.nodes s'.nodes) (t : Nat)
    (ht : t < s.nodes.size) : naive s' t = naive s t := naiveCN_ext s s' h he (t+1) t ht

theorem depsF_ext (s s' : Store) (h : TableWF s.nodes) (he : ExtN s.nodes s'.nodes) :
    ∀ (fuel t : Nat), t < s.nodes.size → depsF s' fuel t = depsF s fuel t := by
  intro fuel
  induction fuel with
  | zero => intros; rfl
  | succ f ih =>
    intro t ht
    by_cases h2 : t < 2
    · unfold depsF; simp [h2]
    obtain ⟨n, hn⟩ := get_of_lt ht
    have ⟨_, hlo, hhi, _, _, _⟩ := h.inner t n (by omega) hn
    unfold depsF
    rw [if_neg h2, if_neg h2]
    simp only [he t n hn, hn]
    rw [ih n.lo (by omega), ih n.hi (by omega)]

theorem ExtN_of_eq {ns ns' : Array Node} (h : ns' = ns) : ExtN ns ns' := fun _ _ hn => by rw [h]; exact hn

theorem naive_congr {s s' : Store} (h : TableWF s.nodes) (he : s'.nodes = s.nodes) (t : Nat)
    (ht : t < s.nodes.size) : naive s' t = naive s t := naive_ext s s' h (ExtN_of_eq he) t ht

theorem ExtN_push (ns : Array Node) (x : Node) : ExtN ns (ns.push x) := by
  intro i n hn
  have := lt_of_get hn
  rw [Array.getElem?_push, if_neg (by omega)]; exact hn

/-! ### agreement of a cache entry with the naive tuple -/

/-- paths and depth agree; the model components too when `em` -/
def CN.agree (em : Bool) (r x : CN) : Prop :=
  r.pcm = x.pcm ∧ r.pm = x.pm ∧ r.depth = x.depth ∧ (em = true → r.cm = x.cm ∧ r.m = x.m)

theorem CN.agree_refl (em : Bool) (x : CN) : CN.agree em x x := ⟨rfl, rfl, rfl, fun _ => ⟨rfl, rfl⟩⟩

theorem CN.agree_true {r x : CN} (h : CN.agree true r x) : r = x := by
  obtain ⟨a, b, c, d⟩ := h
  obtain ⟨d1, d2⟩ := d rfl
  cases r; cases x; simp_all

theorem CN.agree_weaken {em : Bool} {r x : CN} (h : CN.agree true r x) : CN.agree em r x := by
  rw [CN.agree_true h]; exact CN.agree_refl em x

theorem CN.agree_combine {em : Bool} {l h L H : CN} (hl : CN.agree em l L) (hh : CN.agree em h H) :
    CN.agree em (CN.combine l h) (CN.combine L H) := by
  obtain ⟨l1, l2, l3, l4⟩ := hl
  obtain ⟨h1, h2, h3, h4⟩ := hh
  rw [CN.combine_eq, CN.combine_eq]
  refine ⟨by simp only [l1, h1], by simp only [l2, h2], by simp only [l3, h3], ?_⟩
  intro he
  obtain ⟨l5, l6⟩ := l4 he
  obtain ⟨h5, h6⟩ := h4 he
  simp only [l3, h3, l5, l6, h5, h6, and_self]

/-- the ad-hoc tuple of `node` against the recursive tuple: paths and depth always, models with
`adhoccountmodels` -/
theorem CN.agree_adhoc {em cm : Bool} {l h L H : CN} (hem : em = true → cm = true)
    (hl : CN.agree em l L) (hh : CN.agree em h H) :
    CN.agree em (CN.adhoc cm l h) (CN.combine L H) := by
  obtain ⟨l1, l2, l3, l4⟩ := hl
  obtain ⟨h1, h2, h3, h4⟩ := hh
  refine ⟨?_, ?_, ?_, ?_⟩
  · simp only [CN.adhoc, CN.combine, l1, h1]
  · simp only [CN.adhoc, CN.combine, l2, h2]
  · simp only [CN.adhoc, CN.combine, l3, h3]
  · intro he
    have hcm := hem he
    obtain ⟨l5, l6⟩ := l4 he
    obtain ⟨h5, h6⟩ := h4 he
    subst hcm
    unfold CN.adhoc CN.combine
    simp only [if_true, l3, h3, l5, l6, h5, h6]
    by_cases hd : L.depth > H.depth
    · simp only [hd, if_true, Nat.pow_zero, and_self]
    · simp only [hd, if_false, Nat.pow_zero, and_self]

/-- the documented exception: without `adhoccountmodels` the ad-hoc model components are 0 -/
theorem CN.adhoc_false_models (l h : CN) : (CN.adhoc false l h).cm = 0 ∧ (CN.adhoc false l h).m = 0 := by
  simp [CN.adhoc]

/-! ### the count cache -/

/-- every entry belongs to a handle and agrees with the naive tuple -/
def CntOK (em : Bool) (s : Store) (c : CntCache) : Prop :=
  ∀ t r, c[t]? = some r → t < s.nodes.size ∧ CN.agree em r (naive s t)

/-- every handle has an entry (what the `.expect(…)`s of the ad-hoc bodies rely on) -/
def CntFull (s : Store) (c : CntCache) : Prop := ∀ t, t < s.nodes.size → ∃ r, c[t]? = some r

/-- every inner node has an entry whose model components are 0 (the exception configuration,
as long as nothing was imported) -/
def CntZero (s : Store) (c : CntCache) : Prop :=
  ∀ t, 2 ≤ t → t < s.nodes.size → ∃ r, c[t]? = some r ∧ r.cm = 0 ∧ r.m = 0

theorem CntOK.weaken {em : Bool} {s : Store} {c : CntCache} (h : CntOK true s c) : CntOK em s c :=
  fun t r hr => ⟨(h t r hr).1, CN.agree_weaken (h t r hr).2⟩

theorem CntOK_empty (em : Bool) (s : Store) : CntOK em s ∅ := by
  intro t r h; simp at h

theorem CntOK_ext {em : Bool} {s s' : Store} {c : CntCache} (h : TableWF s.nodes)
    (he : ExtN s.nodes s'.nodes) (hsz : s.nodes.size ≤ s'.nodes.size) (hc : CntOK em s c) : CntOK em s' c := by
  intro t r hr
  have ⟨a, b⟩ := hc t r hr
  exact ⟨by omega, by rw [naive_ext s s' h he t a]; exact b⟩

theorem CntOK_insert {em : Bool} {s : Store} {c : CntCache} (hc : CntOK em s c) (t : Nat) (r : CN)
    (ht : t < s.nodes.size) (hr : CN.agree em r (naive s t)) : CntOK em s (c.insert t r) := by
  intro t' r' h
  rw [Std.HashMap.getElem?_insert] at h
  by_cases hk : (t == t') = true
  · rw [if_pos hk] at h
    have : t = t' := by simpa using hk
    subst this; cases h; exact ⟨ht, hr⟩
  · rw [if_neg hk] at h; exact hc t' r' h

/-- `modelcount_memoization` returns the naive tuple (as far as the cache is exact) and keeps
the cache sound; old entries survive and the handle itself has an entry afterwards -/
theorem memoCN_spec (em : Bool) (s : Store) (h : TableWF s.nodes) :
    ∀ (fuel : Nat) (c : CntCache) (t : Nat), CntOK em s c → t < s.nodes.size → t < fuel →
    CN.agree em (memoCN s fuel c t).1 (naive s t) ∧ CntOK em s (memoCN s fuel c t).2 ∧
    (∀ (k : Nat) (x : CN), c[k]? = some x → (memoCN s fuel c t).2[k]? = some x) ∧
    (2 ≤ t → ∃ r, (memoCN s fuel c t).2[t]? = some r) := by
  intro fuel
  induction fuel with
  | zero => intro c t _ _ h; omega
  | succ f ih =>
    intro c t hc ht hf
    rw [memoCN]
    by_cases h1 : t = 1
    · subst h1; rw [if_pos rfl, naive_one]
      exact ⟨CN.agree_refl _ _, hc, fun _ _ hx => hx, fun h => by omega⟩
    rw [if_neg h1]
    by_cases h0 : t = 0
    · subst h0; rw [if_pos rfl, naive_zero]
      exact ⟨CN.agree_refl _ _, hc, fun _ _ hx => hx, fun h => by omega⟩
    rw [if_neg h0]
    cases hm : c[t]? with
    | some r => exact ⟨(hc t r hm).2, hc, fun _ _ hx => hx, fun _ => ⟨r, hm⟩⟩
    | none =>
      obtain ⟨n, hn⟩ := get_of_lt ht
      have ⟨_, hlo, hhi, _, _, _⟩ := h.inner t n (by omega) hn
      simp only [hn]
      have ⟨a1, c1, m1, _⟩ := ih c n.lo hc (by omega) (by omega)
      generalize memoCN s f c n.lo = L at *
      have ⟨a2, c2, m2, _⟩ := ih L.2 n.hi c1 (by omega) (by omega)
      generalize memoCN s f L.2 n.hi = H at *
      have hag : CN.agree em (CN.combine L.1 H.1) (naive s t) := by
        rw [naive_node s h t n (by omega) hn]; exact CN.agree_combine a1 a2
      refine ⟨hag, CntOK_insert c2 t _ ht hag, ?_, ?_⟩
      · intro k x hx
        rw [Std.HashMap.getElem?_insert]
        by_cases hk : (t == k) = true
        · have : t = k := by simpa using hk
          subst this; rw [hm] at hx; cases hx
        · rw [if_neg hk]; exact m2 k x (m1 k x hx)
      · intro _; exact ⟨CN.combine L.1 H.1, by rw [Std.HashMap.getElem?_insert]; simp⟩

/-- `max_depth` (repaired body, feature `adhoccounting` off): cached or recursive, the depth -/
theorem maxDepthC_exact (em : Bool) (s : Store) (h : TableWF s.nodes) (c : CntCache) (hc : CntOK em s c) :
    ∀ (fuel t : Nat), t < s.nodes.size → t < fuel → maxDepthC true s c fuel t = (naive s t).depth := by
  intro fuel
  induction fuel with
  | zero => intro t _ h; omega
  | succ f ih =>
    intro t ht hf
    rw [maxDepthC]
    cases hm : c[t]? with
    | some r => exact (hc t r hm).2.2.2.1
    | none =>
      simp only
      by_cases h2 : t < 2
      · rw [if_pos h2]
        have h01 : t = 0 ∨ t = 1 := by omega
        rcases h01 with h | h <;> subst h
        · rw [naive_zero]; rfl
        · rw [naive_one]; rfl
      · rw [if_neg h2]
        obtain ⟨n, hn⟩ := get_of_lt ht
        have ⟨_, hlo, hhi, _, _, _⟩ := h.inner t n (by omega) hn
        simp only [hn, if_true]
        rw [ih n.hi (by omega) (by omega), ih n.lo (by omega) (by omega),
            naive_node s h t n (by omega) hn, CN.combine_eq]
        simp only
        rw [Nat.max_comm]

/-! ### the dependency table -/

theorem mem_setUnion {a b : List Nat} {x : Nat} : x ∈ setUnion a b ↔ x ∈ a ∨ x ∈ b := by
  unfold setUnion
  rw [List.mem_append, List.mem_filter]
  constructor
  · rintro (h | ⟨h, _⟩)
    · exact Or.inl h
    · exact Or.inr h
  · rintro (h | h)
    · exact Or.inl h
    · by_cases ha : x ∈ a
      · exact Or.inl ha
      · refine Or.inr ⟨h, ?_⟩
        simpa using ha

theorem mem_setInsert {a : List Nat} {v x : Nat} : x ∈ setInsert v a ↔ x = v ∨ x ∈ a := by
  unfold setInsert
  by_cases hc : a.contains v = true
  · rw [if_pos hc]
    have := List.contains_iff_mem.mp hc
    constructor
    · exact Or.inr
    · rintro (h | h)
      · rw [h]; exact this
      · exact h
  · rw [if_neg hc]; exact List.mem_cons

theorem mem_depsEntry {tbl : Array (List Nat)} {v lo hi x : Nat} :
    x ∈ depsEntry tbl v lo hi ↔ x = v ∨ x ∈ tbl.getD lo [] ∨ x ∈ tbl.getD hi [] := by
  unfold depsEntry; rw [mem_setInsert, mem_setUnion]

/-- the table has one entry per node and every entry is, as a set, the recursive dependency set -/
def DepsOK (s : Store) (tbl : Array (List Nat)) : Prop :=
  tbl.size = s.nodes.size ∧ ∀ i, i < s.nodes.size → ∀ x, x ∈ tbl.getD i [] ↔ x ∈ depsF s (i+1) i

theorem depsF_node (s : Store) (h : TableWF s.nodes) (t : Nat) (n : Node) (ht : 2 ≤ t)
    (hn : s.nodes[t]? = some n) :
    depsF s (t+1) t = n.var :: (depsF s (n.lo+1) n.lo ++ depsF s (n.hi+1) n.hi) := by
  have ⟨_, hlo, hhi, _, _, _⟩ := h.inner t n ht hn
  conv => lhs; unfold depsF
  rw [if_neg (by omega)]
  simp only [hn]
  rw [depsF_fuel s h n.lo t hlo, depsF_fuel s h n.hi t hhi]

theorem getD_push_lt (tbl : Array (List Nat)) (e : List Nat) (i : Nat) (hi : i < tbl.size) :
    (tbl.push e).getD i [] = tbl.getD i [] := by
  rw [Array.getD_eq_getD_getElem?, Array.getD_eq_getD_getElem?, Array.getElem?_push, if_neg (by omega)]
theorem getD_push_eq (tbl : Array (List Nat)) (e : List Nat) : (tbl.push e).getD tbl.size [] = e := by
  rw [Array.getD_eq_getD_getElem?, Array.getElem?_push, if_pos rfl]; rfl

/-- the dependency list of a freshly pushed node, in terms of the old table -/
theorem depsF_push (s s' : Store) (v lo hi : Nat) (h : TableWF s.nodes)
    (hs' : s'.nodes = s.nodes.push ⟨v, lo, hi⟩) (hlo : lo < s.nodes.size) (hhi : hi < s.nodes.size) :
    depsF s' (s.nodes.size + 1) s.nodes.size = v :: (depsF s (lo+1) lo ++ depsF s (hi+1) hi) := by
  have he : ExtN s.nodes s'.nodes := by rw [hs']; exact ExtN_push _ _
  have hl := h.len
  have hn : s'.nodes[s.nodes.size]? = some ⟨v, lo, hi⟩ := by rw [hs']; simp
  conv => lhs; unfold depsF
  rw [if_neg (by omega)]
  simp only [hn]
  rw [depsF_ext s s' h he _ lo hlo, depsF_ext s s' h he _ hi hhi,
      depsF_fuel s h lo _ hlo, depsF_fuel s h hi _ hhi]

/-- the naive tuple of a freshly pushed node, in terms of the old table -/
theorem naive_push (s s' : Store) (v lo hi : Nat) (h : TableWF s.nodes)
    (hs' : s'.nodes = s.nodes.push ⟨v, lo, hi⟩) (hlo : lo < s.nodes.size) (hhi : hi < s.nodes.size) :
    naive s' s.nodes.size = CN.combine (naive s lo) (naive s hi) := by
  have he : ExtN s.nodes s'.nodes := by rw [hs']; exact ExtN_push _ _
  have hl := h.len
  have hn : s'.nodes[s.nodes.size]? = some ⟨v, lo, hi⟩ := by rw [hs']; simp
  conv => lhs; unfold naive naiveCN
  rw [if_neg (by omega), if_neg (by omega)]
  simp only [hn]
  rw [naiveCN_ext s s' h he _ lo hlo, naiveCN_ext s s' h he _ hi hhi,
      naiveCN_fuel s h lo _ hlo, naiveCN_fuel s h hi _ hhi]

/-- pushing a node together with `deps[lo] ∪ deps[hi] ∪ {var}` keeps the table exact -/
theorem DepsOK_push (s s' : Store) (tbl : Array (List Nat)) (v lo hi : Nat)
    (h : TableWF s.nodes) (hs' : s'.nodes = s.nodes.push ⟨v, lo, hi⟩)
    (hlo : lo < s.nodes.size) (hhi : hi < s.nodes.size) (hd : DepsOK s tbl) :
    DepsOK s' (tbl.push (depsEntry tbl v lo hi)) := by
  obtain ⟨hsz, hmem⟩ := hd
  have he : ExtN s.nodes s'.nodes := by rw [hs']; exact ExtN_push _ _
  refine ⟨by simp [hs', hsz], ?_⟩
  intro i hi' x
  have hi'' : i < s.nodes.size + 1 := by simpa [hs'] using hi'
  by_cases hlt : i < s.nodes.size
  · rw [getD_push_lt _ _ _ (by omega), depsF_ext s s' h he (i+1) i hlt]
    exact hmem i hlt x
  · have hieq : i = s.nodes.size := by omega
    subst hieq
    rw [← hsz, getD_push_eq, hsz, depsF_push s s' v lo hi h hs' hlo hhi, mem_depsEntry]
    simp only [List.mem_cons, List.mem_append]
    rw [hmem lo hlo x, hmem hi hhi x]

/-- `generate_var_dependencies`, started on the empty table, builds an exact table for every
structurally well-formed node table -/
theorem genDeps_ok (s : Store) (h : TableWF s.nodes) : DepsOK s (genDeps #[] s.nodes) := by
  have key : (fun (k : Nat) (tbl : Array (List Nat)) =>
      tbl.size = k ∧ ∀ i, i < k → ∀ x, x ∈ tbl.getD i [] ↔ x ∈ depsF s (i+1) i) s.nodes.size (genDeps #[] s.nodes) := by
    unfold genDeps
    apply Array.foldl_induction
      (motive := fun (k : Nat) (tbl : Array (List Nat)) =>
        tbl.size = k ∧ ∀ i, i < k → ∀ x, x ∈ tbl.getD i [] ↔ x ∈ depsF s (i+1) i)
    · exact ⟨rfl, fun i hi => by omega⟩
    · intro k tbl ⟨hsz, hmem⟩
      have hk : s.nodes[k.1]? = some s.nodes[k] := Array.getElem?_eq_getElem k.2
      generalize s.nodes[k] = n at hk
      by_cases h2 : k.1 < 2
      · -- the two terminal nodes
        have hv : n.var ≥ VBOT := by
          have h01 : k.1 = 0 ∨ k.1 = 1 := by omega
          rcases h01 with h0 | h0
          · rw [h0, h.bot] at hk; cases hk; exact Nat.le_refl _
          · rw [h0, h.top] at hk; cases hk; simp [VBOT, VTOP]
        unfold genDepsStep; rw [if_pos hv]
        refine ⟨by simp [hsz], ?_⟩
        intro i hi x
        by_cases hlt : i < k.1
        · rw [getD_push_lt _ _ _ (by omega)]; exact hmem i hlt x
        · have : i = tbl.size := by omega
          subst this
          rw [getD_push_eq]
          have : depsF s (tbl.size + 1) tbl.size = [] := by unfold depsF; rw [if_pos (by omega)]
          rw [this]
      · have ⟨hvb, hlo, hhi, _, _, _⟩ := h.inner k.1 n (by omega) hk
        unfold genDepsStep; rw [if_neg (by omega)]
        refine ⟨by simp [hsz], ?_⟩
        intro i hi x
        by_cases hlt : i < k.1
        · rw [getD_push_lt _ _ _ (by omega)]; exact hmem i hlt x
        · have : i = tbl.size := by omega
          subst this
          rw [getD_push_eq, mem_depsEntry, depsF_node s h _ n (by omega) (by rw [hsz]; exact hk)]
          simp only [List.mem_cons, List.mem_append]
          rw [hmem n.lo (by omega) x, hmem n.hi (by omega) x]
  exact ⟨key.1, key.2⟩

theorem DepsOK_congr {s s' : Store} {tbl : Array (List Nat)} (h : TableWF s.nodes) (he : s'.nodes = s.nodes)
    (hd : DepsOK s tbl) : DepsOK s' tbl := by
  refine ⟨by rw [he]; exact hd.1, ?_⟩
  intro i hi x
  rw [he] at hi
  rw [depsF_ext s s' h (ExtN_of_eq he) (i+1) i hi]; exact hd.2 i hi x

theorem DepsOK_contains {s : Store} {tbl : Array (List Nat)} (hd : DepsOK s tbl) (t v : Nat)
    (ht : t < s.nodes.size) : (tbl.getD t []).contains v = (depsOf s t).contains v := by
  rw [Bool.eq_iff_iff, List.contains_iff_mem, List.contains_iff_mem]
  unfold depsOf
  exact hd.2 t ht v

#print axioms memoCN_spec
#print axioms maxDepthC_exact
#print axioms DepsOK_push
#print axioms genDeps_ok
