import AdfObdd.Parser2

namespace ParserM
/-! soundness of the formula parser model: whatever it accepts is a text of the
    documented syntax (so nothing else is accepted) -/

theorem tagL_some : ∀ (k cs cs' : List Char), tagL k cs = some ((), cs') → cs = k ++ cs' := by
  intro k
  induction k with
  | nil => intro cs cs' h; cases cs <;> simp [tagL] at h <;> simp [h]
  | cons c k ih =>
    intro cs cs' h
    cases cs with
    | nil => simp [tagL] at h
    | cons d cs =>
      simp only [tagL] at h
      by_cases e : c = d
      · rw [if_pos e] at h; subst e; rw [ih cs cs' h]; rfl
      · rw [if_neg e] at h; cases h

theorem takeWhile_all (p : Char → Bool) : ∀ (cs : List Char), ∀ c ∈ cs.takeWhile p, p c = true := by
  intro cs
  induction cs with
  | nil => intro c hc; simp at hc
  | cons d cs ih =>
    intro c hc
    simp only [List.takeWhile] at hc
    cases hd : p d with
    | false => rw [hd] at hc; simp at hc
    | true =>
      rw [hd] at hc
      rcases List.mem_cons.mp hc with rfl | h
      · exact hd
      · exact ih c h

theorem dropWhile_split (p : Char → Bool) (cs : List Char) :
    cs = cs.takeWhile p ++ cs.dropWhile p ∧ (∀ c ∈ cs.takeWhile p, p c = true) :=
  ⟨(List.takeWhile_append_dropWhile).symm, takeWhile_all p cs⟩

theorem commaP_some (cs r : List Char) (h : commaP cs = some ((), r)) :
    ∃ w1 w2, cs = w1 ++ [','] ++ w2 ++ r ∧ AllWs w1 ∧ AllWs w2 := by
  unfold commaP ws0 at h
  simp only [Option.bind] at h
  cases h1 : tagL [','] (cs.dropWhile isWs) with
  | none => rw [h1] at h; cases h
  | some x =>
    obtain ⟨u, rest⟩ := x
    rw [h1] at h
    simp only [Option.some.injEq, Prod.mk.injEq, true_and] at h
    have e1 := tagL_some _ _ _ (by cases u; exact h1)
    have ⟨s1, a1⟩ := dropWhile_split isWs cs
    have ⟨s2, a2⟩ := dropWhile_split isWs rest
    refine ⟨cs.takeWhile isWs, rest.takeWhile isWs, ?_, a1, a2⟩
    rw [← h]
    calc cs = cs.takeWhile isWs ++ cs.dropWhile isWs := s1
      _ = cs.takeWhile isWs ++ ([','] ++ rest) := by rw [e1]
      _ = cs.takeWhile isWs ++ ([','] ++ (rest.takeWhile isWs ++ rest.dropWhile isWs)) := by rw [← s2]
      _ = _ := by simp

theorem alnum1_some (cs l r : List Char) (h : alnum1 cs = some (l, r)) :
    cs = l ++ r ∧ l ≠ [] ∧ AllAlnum l := by
  unfold alnum1 at h
  simp only at h
  by_cases he : (cs.takeWhile isAlnum).isEmpty = true
  · rw [if_pos he] at h; cases h
  · rw [if_neg he] at h
    simp only [Option.some.injEq, Prod.mk.injEq] at h
    obtain ⟨rfl, rfl⟩ := h
    have ⟨a, b⟩ := dropWhile_split isAlnum cs
    exact ⟨a, by intro e; rw [e] at he; simp at he, b⟩

theorem orElse_cases {α : Type} (p q : Prs α) (cs : Inp) (x : α × Inp) (h : orElse p q cs = some x) :
    p cs = some x ∨ (p cs = none ∧ q cs = some x) := by
  unfold orElse at h
  cases hp : p cs with
  | some y => rw [hp] at h; left; exact h
  | none => rw [hp] at h; right; exact ⟨rfl, h⟩

theorem takeUntilQ_some : ∀ (cs l r : List Char), takeUntilQ cs = some (l, r) →
    '"' ∉ l ∧ cs = l ++ r ∧ r.head? = some '"' := by
  intro cs
  induction cs with
  | nil => intro l r h; simp [takeUntilQ] at h
  | cons c cs ih =>
    intro l r h
    simp only [takeUntilQ] at h
    by_cases e : c = '"'
    · rw [if_pos e] at h
      simp only [Option.some.injEq, Prod.mk.injEq] at h
      obtain ⟨rfl, rfl⟩ := h
      exact ⟨by simp, by simp, by simp [e]⟩
    · rw [if_neg e] at h
      cases hq : takeUntilQ cs with
      | none => rw [hq] at h; cases h
      | some x =>
        rw [hq] at h
        simp only [Option.map_some, Option.some.injEq, Prod.mk.injEq] at h
        obtain ⟨rfl, rfl⟩ := h
        obtain ⟨a, b, c'⟩ := ih x.1 x.2 (by rw [hq])
        refine ⟨?_, by rw [List.cons_append, ← b], c'⟩
        intro hm
        rcases List.mem_cons.mp hm with h1 | h1
        · exact e h1.symm
        · exact a h1

theorem quotedP_some (cs l r : List Char) (h : quotedP cs = some (l, r)) :
    '"' ∉ l ∧ cs = ['"'] ++ l ++ ['"'] ++ r := by
  unfold quotedP at h
  simp only [Option.bind] at h
  cases h0 : tagL ['"'] cs with
  | none => rw [h0] at h; cases h
  | some a =>
    rw [h0] at h; simp only at h
    cases h1 : takeUntilQ a.2 with
    | none => rw [h1] at h; cases h
    | some x =>
      rw [h1] at h; simp only at h
      cases h2 : tagL ['"'] x.2 with
      | none => rw [h2] at h; cases h
      | some b =>
        rw [h2] at h
        simp only [Option.some.injEq, Prod.mk.injEq] at h
        obtain ⟨rfl, rfl⟩ := h
        have e0 := tagL_some _ _ _ (show tagL ['"'] cs = some ((), a.2) by rw [h0])
        have e2 := tagL_some _ _ _ (show tagL ['"'] x.2 = some ((), b.2) by rw [h2])
        obtain ⟨hq, e1, _⟩ := takeUntilQ_some a.2 x.1 x.2 (by rw [h1])
        refine ⟨hq, ?_⟩
        rw [e0, e1, e2]; simp

/-- whatever `atomic` reads is one of the two spellings of the label it returns -/
theorem atomic_some (cs l r : List Char) (h : atomic cs = some (l, r)) : ∃ s, cs = s ++ r ∧ DerL l s := by
  unfold atomic at h
  rcases orElse_cases _ _ _ _ h with hq | ⟨_, ha⟩
  · obtain ⟨a, b⟩ := quotedP_some cs l r hq
    exact ⟨['"'] ++ l ++ ['"'], b, DerL.quoted l a⟩
  · obtain ⟨e, hne, hl⟩ := alnum1_some cs l r ha
    exact ⟨l, e, DerL.alnum l hne hl⟩

theorem constP_some (x : Char) (v : Fml) (cs : Inp) (f : Fml) (r : Inp) (h : constP x v cs = some (f, r)) :
    f = v ∧ cs = ['c', '(', x, ')'] ++ r := by
  unfold constP at h
  simp only [Option.bind] at h
  cases h1 : tagL ['c'] cs with
  | none => rw [h1] at h; cases h
  | some a =>
    rw [h1] at h; simp only at h
    cases h2 : tagL ['('] a.2 with
    | none => rw [h2] at h; cases h
    | some b =>
      rw [h2] at h; simp only at h
      cases h3 : tagL [x] b.2 with
      | none => rw [h3] at h; cases h
      | some c =>
        rw [h3] at h; simp only at h
        cases h4 : tagL [')'] c.2 with
        | none => rw [h4] at h; cases h
        | some d =>
          rw [h4] at h
          simp only [Option.some.injEq, Prod.mk.injEq] at h
          obtain ⟨rfl, rfl⟩ := h
          have e1 := tagL_some _ _ _ (show tagL ['c'] cs = some ((), a.2) by rw [h1])
          have e2 := tagL_some _ _ _ (show tagL ['('] a.2 = some ((), b.2) by rw [h2])
          have e3 := tagL_some _ _ _ (show tagL [x] b.2 = some ((), c.2) by rw [h3])
          have e4 := tagL_some _ _ _ (show tagL [')'] c.2 = some ((), d.2) by rw [h4])
          refine ⟨rfl, ?_⟩
          rw [e1, e2, e3, e4]; rfl

theorem pairP_some (rec : Prs Fml) (kw : List Char) (mk : Fml → Fml → Fml) (cs : Inp) (f : Fml) (r : Inp)
    (h : pairP rec kw mk cs = some (f, r)) :
    ∃ a b r1 r3 r4, cs = kw ++ (['('] ++ r1) ∧ rec r1 = some (a, r3) ∧
      (∃ w1 w2, r3 = w1 ++ [','] ++ w2 ++ r4 ∧ AllWs w1 ∧ AllWs w2) ∧
      rec r4 = some (b, [')'] ++ r) ∧ f = mk a b := by
  unfold pairP at h
  simp only [Option.bind] at h
  cases h0 : tagL kw cs with
  | none => rw [h0] at h; cases h
  | some x0 =>
    rw [h0] at h; simp only at h
    cases h1 : tagL ['('] x0.2 with
    | none => rw [h1] at h; cases h
    | some x1 =>
      rw [h1] at h; simp only at h
      cases h2 : rec x1.2 with
      | none => rw [h2] at h; cases h
      | some a =>
        rw [h2] at h; simp only at h
        cases h3 : commaP a.2 with
        | none => rw [h3] at h; cases h
        | some x3 =>
          rw [h3] at h; simp only at h
          cases h4 : rec x3.2 with
          | none => rw [h4] at h; cases h
          | some b =>
            rw [h4] at h; simp only at h
            cases h5 : tagL [')'] b.2 with
            | none => rw [h5] at h; cases h
            | some x5 =>
              rw [h5] at h
              simp only [Option.some.injEq, Prod.mk.injEq] at h
              obtain ⟨rfl, rfl⟩ := h
              have e0 := tagL_some _ _ _ (show tagL kw cs = some ((), x0.2) by rw [h0])
              have e1 := tagL_some _ _ _ (show tagL ['('] x0.2 = some ((), x1.2) by rw [h1])
              have e5 := tagL_some _ _ _ (show tagL [')'] b.2 = some ((), x5.2) by rw [h5])
              refine ⟨a.1, b.1, x1.2, a.2, x3.2, by rw [e0, e1], by rw [h2], ?_, by rw [h4, ← e5], rfl⟩
              exact commaP_some a.2 x3.2 (by rw [h3])

theorem negP_some (rec : Prs Fml) (cs : Inp) (f : Fml) (r : Inp) (h : negP rec cs = some (f, r)) :
    ∃ a r1, cs = ['n','e','g'] ++ (['('] ++ r1) ∧ rec r1 = some (a, [')'] ++ r) ∧ f = Fml.not a := by
  unfold negP at h
  simp only [Option.bind] at h
  cases h0 : tagL ['n','e','g'] cs with
  | none => rw [h0] at h; cases h
  | some x0 =>
    rw [h0] at h; simp only at h
    cases h1 : tagL ['('] x0.2 with
    | none => rw [h1] at h; cases h
    | some x1 =>
      rw [h1] at h; simp only at h
      cases h2 : rec x1.2 with
      | none => rw [h2] at h; cases h
      | some a =>
        rw [h2] at h; simp only at h
        cases h3 : tagL [')'] a.2 with
        | none => rw [h3] at h; cases h
        | some x3 =>
          rw [h3] at h
          simp only [Option.some.injEq, Prod.mk.injEq] at h
          obtain ⟨rfl, rfl⟩ := h
          have e0 := tagL_some _ _ _ (show tagL ['n','e','g'] cs = some ((), x0.2) by rw [h0])
          have e1 := tagL_some _ _ _ (show tagL ['('] x0.2 = some ((), x1.2) by rw [h1])
          have e3 := tagL_some _ _ _ (show tagL [')'] a.2 = some ((), x3.2) by rw [h3])
          exact ⟨a.1, x1.2, by rw [e0, e1], by rw [h2, ← e3], rfl⟩

/-- one binary alternative, given the induction hypothesis for the recursive parser -/
theorem pair_sound (rec : Prs Fml) (kw : List Char) (mk : Fml → Fml → Fml) (cs : Inp) (f : Fml) (r : Inp)
    (ih : ∀ cs f r, rec cs = some (f, r) → ∃ s, cs = s ++ r ∧ DerF f s)
    (hmk : ∀ a b s1 s2 w1 w2, DerF a s1 → DerF b s2 → AllWs w1 → AllWs w2 →
        DerF (mk a b) (kw ++ ['('] ++ s1 ++ w1 ++ [','] ++ w2 ++ s2 ++ [')']))
    (h : pairP rec kw mk cs = some (f, r)) : ∃ s, cs = s ++ r ∧ DerF f s := by
  obtain ⟨a, b, r1, r3, r4, e0, ha, ⟨w1, w2, e3, hw1, hw2⟩, hb, rfl⟩ := pairP_some rec kw mk cs f r h
  obtain ⟨sa, ea, da⟩ := ih _ _ _ ha
  obtain ⟨sb, eb, db⟩ := ih _ _ _ hb
  refine ⟨kw ++ ['('] ++ sa ++ w1 ++ [','] ++ w2 ++ sb ++ [')'], ?_, hmk a b sa sb w1 w2 da db hw1 hw2⟩
  rw [e0, ea, e3, eb]; simp

/-- C08, formula level, other direction: whatever the parser accepts is a text of the
documented syntax, and the rest is what was left over -/
theorem formula_sound : ∀ (fuel : Nat) (cs : Inp) (f : Fml) (r : Inp), formulaF fuel cs = some (f, r) →
    ∃ s, cs = s ++ r ∧ DerF f s := by
  intro fuel
  induction fuel with
  | zero => intro cs f r h; simp [formulaF] at h
  | succ k ih =>
    intro cs f r h
    unfold formulaF at h
    rcases orElse_cases _ _ _ _ h with hc | ⟨_, h⟩
    · -- constants
      unfold constantP at hc
      rcases orElse_cases _ _ _ _ hc with hv | ⟨_, hf⟩
      · obtain ⟨rfl, e⟩ := constP_some _ _ _ _ _ hv
        exact ⟨['c','(','v',')'], e, DerF.top⟩
      · obtain ⟨rfl, e⟩ := constP_some _ _ _ _ _ hf
        exact ⟨['c','(','f',')'], e, DerF.bot⟩
    rcases orElse_cases _ _ _ _ h with hb | ⟨_, h⟩
    · -- binary connectives
      unfold binaryP at hb
      rcases orElse_cases _ _ _ _ hb with h1 | ⟨_, hb⟩
      · exact pair_sound _ _ _ _ _ _ ih (fun a b s1 s2 w1 w2 => DerF.and a b s1 s2 w1 w2) h1
      rcases orElse_cases _ _ _ _ hb with h1 | ⟨_, hb⟩
      · exact pair_sound _ _ _ _ _ _ ih (fun a b s1 s2 w1 w2 => DerF.or a b s1 s2 w1 w2) h1
      rcases orElse_cases _ _ _ _ hb with h1 | ⟨_, hb⟩
      · exact pair_sound _ _ _ _ _ _ ih (fun a b s1 s2 w1 w2 => DerF.imp a b s1 s2 w1 w2) h1
      rcases orElse_cases _ _ _ _ hb with h1 | ⟨_, hb⟩
      · exact pair_sound _ _ _ _ _ _ ih (fun a b s1 s2 w1 w2 => DerF.xor a b s1 s2 w1 w2) h1
      · exact pair_sound _ _ _ _ _ _ ih (fun a b s1 s2 w1 w2 => DerF.iff a b s1 s2 w1 w2) hb
    rcases orElse_cases _ _ _ _ h with hn | ⟨_, ha⟩
    · -- negation
      obtain ⟨a, r1, e0, hrec, rfl⟩ := negP_some _ _ _ _ hn
      obtain ⟨sa, ea, da⟩ := ih _ _ _ hrec
      refine ⟨['n','e','g','('] ++ sa ++ [')'], ?_, DerF.not a sa da⟩
      rw [e0, ea]; simp
    · -- atom
      unfold atomP at ha
      cases hal : atomic cs with
      | none => rw [hal] at ha; cases ha
      | some x =>
        rw [hal] at ha
        simp only [Option.map_some, Option.some.injEq, Prod.mk.injEq] at ha
        obtain ⟨rfl, rfl⟩ := ha
        obtain ⟨s, e, hl⟩ := atomic_some cs x.1 x.2 (by rw [hal])
        exact ⟨s, e, DerF.atom x.1 s hl⟩
#print axioms formula_sound

end ParserM
