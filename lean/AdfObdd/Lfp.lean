import AdfObdd.RA
/-! prototype 4: the semantic grounded loop computes the least fixpoint of Γ -/

abbrev I3 := List (Option Bool)

theorem over_apply : ∀ (w : I3) (σ : Asg) (k x : Nat),
    over σ k w x = (if k ≤ x then (match w[x-k]? with | some (some b) => b | _ => σ x) else σ x) := by
  intro w
  induction w with
  | nil => intro σ k x; simp [over]
  | cons a w ih =>
    intro σ k x
    cases a with
    | none =>
      simp only [over]; rw [ih]
      by_cases h : k + 1 ≤ x
      · have h' : k ≤ x := by omega
        have e : x - k = (x - (k+1)) + 1 := by omega
        simp only [h, h', if_true, e, List.getElem?_cons_succ]
      · by_cases h' : k ≤ x
        · have e : x - k = 0 := by omega
          simp [h, h', e]
        · simp [h, h']
    | some b =>
      simp only [over]; rw [ih]
      by_cases h : k + 1 ≤ x
      · have h' : k ≤ x := by omega
        have e : x - k = (x - (k+1)) + 1 := by omega
        have hx : x ≠ k := by omega
        simp only [h, h', if_true, e, List.getElem?_cons_succ, upd, hx, if_false]
      · by_cases h' : k ≤ x
        · have e : x = k := by omega
          subst e
          simp [upd, h]
        · have hx : x ≠ k := by omega
          simp [h, h', upd, hx]

def Agree (σ : Asg) (w : I3) : Prop := ∀ (i : Nat) (b : Bool), w[i]? = some (some b) → σ i = b
def Le3 (w w' : I3) : Prop := ∀ (i : Nat) (b : Bool), w[i]? = some (some b) → w'[i]? = some (some b)

theorem agree_over (σ : Asg) (w : I3) : Agree (over σ 0 w) w := by
  intro i b h
  rw [over_apply]; simp [h]

theorem over_of_agree {σ : Asg} {w : I3} (h : Agree σ w) : over σ 0 w = σ := by
  funext x
  rw [over_apply]
  simp only [Nat.zero_le, if_true, Nat.sub_zero]
  cases hx : w[x]? with
  | none => rfl
  | some o => cases o with
    | none => rfl
    | some b => exact (h x b hx).symm

theorem Agree.mono {σ : Asg} {w w' : I3} (h : Agree σ w') (l : Le3 w w') : Agree σ w :=
  fun i b hi => h i b (l i b hi)

noncomputable def Gam (D : List BoolFn) (w : I3) : I3 :=
  D.map (fun f => constOf (fun σ => f (over σ 0 w)))

theorem Gam_mono (D : List BoolFn) {w w' : I3} (l : Le3 w w') : Le3 (Gam D w) (Gam D w') := by
  intro i b h
  simp only [Gam, List.getElem?_map] at *
  cases hf : D[i]? with
  | none => simp [hf] at h
  | some f =>
    simp only [hf, Option.map_some, Option.some.injEq] at *
    rw [constOf_some] at *
    intro σ
    have ha : Agree (over σ 0 w') w := (agree_over σ w').mono l
    have := h (over σ 0 w')
    rw [over_of_agree ha] at this
    exact this

noncomputable abbrev cv (V : List BoolFn) : I3 := V.map constOf

structure Reach (D V : List BoolFn) : Prop where
  len : V.length = D.length
  res : ∀ (i : Nat) (f g : BoolFn), V[i]? = some f → D[i]? = some g → ∀ σ, Agree σ (cv V) → f σ = g σ
  snd : ∀ w', Gam D w' = w' → Le3 (cv V) w'

theorem semRound_get (V : List BoolFn) (i : Nat) :
    (semRound V)[i]? = (V[i]?).map (fun f σ => f (over σ 0 (cv V))) := by
  simp [semRound]

theorem cv_le_round (V : List BoolFn) : Le3 (cv V) (cv (semRound V)) := by
  intro i b h
  simp only [cv, List.getElem?_map, semRound_get] at *
  cases hf : V[i]? with
  | none => simp [hf] at h
  | some f =>
    simp only [hf, Option.map_some, Option.some.injEq] at *
    rw [constOf_some] at *
    intro σ; exact h _

theorem reach_init (D : List BoolFn) (h0 : ∀ w', Gam D w' = w' → Le3 (cv D) w') : Reach D D :=
  ⟨rfl, fun i f g hf hg σ _ => by rw [hf] at hg; cases hg; rfl, h0⟩

theorem reach_round {D V : List BoolFn} (r : Reach D V) : Reach D (semRound V) := by
  refine ⟨by simp [semRound, r.len], ?_, ?_⟩
  · intro i f g hf hg σ ha
    rw [semRound_get] at hf
    cases hv : V[i]? with
    | none => simp [hv] at hf
    | some f0 =>
      simp only [hv, Option.map_some, Option.some.injEq] at hf
      subst hf
      have ha' : Agree σ (cv V) := ha.mono (cv_le_round V)
      simp only [over_of_agree ha']
      exact r.res i f0 g hv hg σ ha'
  · intro w' hw' i b h
    simp only [cv, List.getElem?_map, semRound_get] at h
    cases hv : V[i]? with
    | none => simp [hv] at h
    | some f0 =>
      simp only [hv, Option.map_some, Option.some.injEq] at h
      rw [constOf_some] at h
      have hlen : i < D.length := by
        rw [← r.len]
        rcases Nat.lt_or_ge i V.length with h' | h'
        · exact h'
        · simp [List.getElem?_eq_none h'] at hv
      have hg : D[i]? = some D[i] := List.getElem?_eq_getElem hlen
      -- Γ_D (cv V) i = some b
      have hG : (Gam D (cv V))[i]? = some (some b) := by
        simp only [Gam, List.getElem?_map, hg, Option.map_some, Option.some.injEq]
        rw [constOf_some]
        intro σ
        rw [← r.res i f0 D[i] hv hg _ (agree_over σ (cv V))]
        have := h σ
        exact this
      have := Gam_mono D (r.snd w' hw') i b hG
      rw [hw'] at this
      exact this

theorem countSome_cons (a : Option Bool) (w : I3) :
    countSome (a :: w) = (if a.isSome then 1 else 0) + countSome w := by
  cases a <;> simp [countSome, List.filter_cons] <;> omega

theorem Le3_tail {a a' : Option Bool} {w w' : I3} (l : Le3 (a :: w) (a' :: w')) : Le3 w w' := by
  intro i b h
  have := l (i+1) b (by simpa using h)
  simpa using this

theorem countSome_mono : ∀ (w w' : I3), w.length = w'.length → Le3 w w' → countSome w ≤ countSome w' := by
  intro w
  induction w with
  | nil => intro w' _ _; simp [countSome]
  | cons a w ih =>
    intro w' hl l
    cases w' with
    | nil => simp at hl
    | cons a' w' =>
      have := ih w' (by simpa using hl) (Le3_tail l)
      rw [countSome_cons, countSome_cons]
      cases a with
      | none => simp; omega
      | some b =>
        have h0 := l 0 b (by simp)
        simp at h0; subst h0; simp; omega

theorem eq_of_le_count : ∀ (w w' : I3), w.length = w'.length → Le3 w w' →
    countSome w' = countSome w → w' = w := by
  intro w
  induction w with
  | nil => intro w' hl _ _; cases w' with | nil => rfl | cons _ _ => simp at hl
  | cons a w ih =>
    intro w' hl l hc
    cases w' with
    | nil => simp at hl
    | cons a' w' =>
      have hl' : w.length = w'.length := by simpa using hl
      have hm := countSome_mono w w' hl' (Le3_tail l)
      rw [countSome_cons, countSome_cons] at hc
      cases a with
      | some b =>
        have h0 := l 0 b (by simp)
        simp at h0; subst h0
        simp at hc
        rw [ih w' hl' (Le3_tail l) hc]
      | none =>
        cases a' with
        | some b' => simp at hc; omega
        | none =>
          simp at hc
          rw [ih w' hl' (Le3_tail l) hc]

theorem countSome_le_length (w : I3) : countSome w ≤ w.length := by
  simp [countSome]; exact List.length_filter_le _ _

theorem fix_of_stable {D V : List BoolFn} (r : Reach D V) (h : cv (semRound V) = cv V) :
    Gam D (cv (semRound V)) = cv (semRound V) := by
  apply List.ext_getElem?
  intro i
  simp only [Gam, cv, List.getElem?_map, semRound_get]
  cases hg : D[i]? with
  | none =>
    have : V[i]? = none := by
      apply List.getElem?_eq_none
      rw [r.len]
      rcases Nat.lt_or_ge i D.length with h' | h'
      · simp [List.getElem?_eq_getElem h'] at hg
      · exact h'
    simp [this]
  | some g =>
    have hi : i < V.length := by
      rw [r.len]
      rcases Nat.lt_or_ge i D.length with h' | h'
      · exact h'
      · simp [List.getElem?_eq_none h'] at hg
    have hv : V[i]? = some V[i] := List.getElem?_eq_getElem hi
    simp only [hv, Option.map_some, Option.some.injEq]
    congr 1
    funext σ
    have h' : cv (semRound V) = cv V := h
    simp only [cv] at h'
    rw [h']
    exact (r.res i V[i] g hv hg _ (agree_over σ (cv V))).symm

theorem semLoop_spec (D : List BoolFn) : ∀ (fuel : Nat) (V : List BoolFn), Reach D V →
    V.length - countSome (cv V) < fuel →
    Reach D (semLoop fuel V) ∧ Gam D (cv (semLoop fuel V)) = cv (semLoop fuel V) := by
  intro fuel
  induction fuel with
  | zero => intro V _ h; omega
  | succ f ih =>
    intro V r hf
    unfold semLoop
    have rr := reach_round r
    have hlen : (cv V).length = (cv (semRound V)).length := by simp [cv, semRound]
    by_cases hc : countSome ((semRound V).map constOf) = countSome (V.map constOf)
    · rw [if_pos hc]
      exact ⟨rr, fix_of_stable r (eq_of_le_count _ _ hlen (cv_le_round V) hc)⟩
    · rw [if_neg hc]
      apply ih _ rr
      have h1 := countSome_mono _ _ hlen (cv_le_round V)
      have h2 := countSome_le_length (cv (semRound V))
      have h3 : (semRound V).length = V.length := by simp [semRound]
      simp only [cv, List.length_map] at *
      omega

/-- C01 core (semantic layer): the loop started from the conditions themselves yields the
least fixpoint of the consequence operator. -/
theorem grounded_sem (D : List BoolFn) (fuel : Nat) (hf : D.length < fuel) :
    Gam D (cv (semLoop fuel D)) = cv (semLoop fuel D) ∧
    ∀ w', Gam D w' = w' → Le3 (cv (semLoop fuel D)) w' := by
  have r0 : Reach D D := by
    apply reach_init
    intro w' hw' i b h
    simp only [cv, List.getElem?_map] at h
    cases hd : D[i]? with
    | none => simp [hd] at h
    | some f =>
      simp only [hd, Option.map_some, Option.some.injEq] at h
      rw [constOf_some] at h
      rw [← hw']
      simp only [Gam, List.getElem?_map, hd, Option.map_some, Option.some.injEq]
      rw [constOf_some]
      intro σ; exact h _
  have ⟨r, fx⟩ := semLoop_spec D fuel D r0 (by omega)
  exact ⟨fx, r.snd⟩
#print axioms grounded_sem
