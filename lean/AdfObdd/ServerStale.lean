import AdfObdd.ServerReach
/-! # C16 / C17 — what is stored in every reachable state of EVERY history (any environment)

`ServerReach.lean` proves "everything stored belongs to the document's own code" for histories
without `DELETE /adf/{name}`, `DELETE /users/delete`, `PUT /users/update`. With these requests the
statement is false (finding D9): a background task's final `update_one` is addressed by the pair
(problem name, user name) the task was spawned with, not by the document id, so a task that is still
unwritten when its document is deleted (or moved away by a rename of its owner) writes into whatever
document carries that pair later.

This file characterises that deviation exactly, for ALL histories (atomic requests of any number of
users and jars, interleaved with the task events):

* `taintStep` / `taintRun`: a ghost set of *tainted* keys (user name, problem name), computed along the
  history from the observable state change of each event. A key becomes tainted exactly in D9's shape -
  a document APPEARS under the key (created by `POST /adf/add`, or moved there by a rename) while an
  unwritten task spawned under that key exists (or while another document already carries the key, or
  the moved document's old key was tainted) - and it is cleared when a document is created under a key
  that carries no document and no unwritten task.
* `GoodT` (invariant, `GoodT.runAll`): every document under an untainted key stores only what belongs to
  its own code (`DocOK`), every unwritten task of an untainted key was spawned for the document that
  carries the key now (if any), and an untainted key is carried by at most one document.
* `Prov` (invariant, `Prov.runAll`): whatever the history, every stored framework / result is the
  environment's parse result / answer for SOME (parsing, code) recorded for the key: the codes of the
  documents that ever carried the key, and, after a rename `u → u'`, those recorded for the old key.

Core Lean only. -/
namespace ServerM
section
variable {T H A R : Type} [DecidableEq T]

/-! ### list facts -/

theorem countP_updFirst {α : Type} (q q' : α → Bool) (f : α → α) (hf : ∀ x, q' (f x) = q' x) :
    ∀ l : List α, (updFirst q f l).countP q' = l.countP q' := by
  intro l
  induction l with
  | nil => rfl
  | cons x xs ih =>
    by_cases h : q x = true
    · simp [updFirst, h, List.countP_cons, hf]
    · simp [updFirst, h, List.countP_cons, ih]

theorem find_updFirst_back {α : Type} (q q' : α → Bool) (f : α → α) (hf : ∀ x, q' (f x) = q' x) :
    ∀ (l : List α) (y' : α), (updFirst q f l).find? q' = some y' →
      ∃ y, l.find? q' = some y ∧ (y' = y ∨ y' = f y) := by
  intro l
  induction l with
  | nil => intro y' h; cases h
  | cons x xs ih =>
    intro y' h
    by_cases hq : q x = true
    · simp only [updFirst, hq, if_true] at h
      by_cases hq' : q' x = true
      · have hfx : q' (f x) = true := by rw [hf]; exact hq'
        simp only [List.find?_cons, hfx, Option.some.injEq] at h
        exact ⟨x, by simp [hq'], Or.inr h.symm⟩
      · have hfx : q' (f x) = false := by rw [hf]; simpa using hq'
        simp only [List.find?_cons, hfx] at h
        exact ⟨y', by simp [hq', h], Or.inl rfl⟩
    · simp only [updFirst, hq, Bool.false_eq_true, if_false] at h
      by_cases hq' : q' x = true
      · simp only [List.find?_cons, hq', Option.some.injEq] at h
        exact ⟨x, by simp [hq'], Or.inl h.symm⟩
      · have hq'' : q' x = false := by simpa using hq'
        simp only [List.find?_cons, hq''] at h
        obtain ⟨y, h1, h2⟩ := ih y' h
        exact ⟨y, by simp [hq'', h1], h2⟩

theorem countP_delFirst_le {α : Type} (q q' : α → Bool) : ∀ l : List α, (delFirst q l).countP q' ≤ l.countP q' := by
  intro l
  induction l with
  | nil => exact Nat.le_refl _
  | cons x xs ih =>
    by_cases h : q x = true
    · simp only [delFirst, h, if_true, List.countP_cons]; omega
    · simp only [delFirst, h, Bool.false_eq_true, if_false, List.countP_cons]; omega

theorem mem_of_delFirst {α : Type} (q : α → Bool) : ∀ (l : List α) (y : α), y ∈ delFirst q l → y ∈ l := by
  intro l
  induction l with
  | nil => intro y h; cases h
  | cons x xs ih =>
    intro y h
    by_cases hq : q x = true
    · simp only [delFirst, hq, if_true] at h; exact List.mem_cons_of_mem _ h
    · simp only [delFirst, hq, Bool.false_eq_true, if_false, List.mem_cons] at h
      rcases h with rfl | h
      · exact List.mem_cons_self ..
      · exact List.mem_cons_of_mem _ (ih y h)

theorem find_delFirst_other {α : Type} (q q' : α → Bool) (hq : ∀ x, q x = true → q' x = false) :
    ∀ l : List α, (delFirst q l).find? q' = l.find? q' := by
  intro l
  induction l with
  | nil => rfl
  | cons x xs ih =>
    by_cases h : q x = true
    · simp [delFirst, h, hq x h]
    · by_cases h' : q' x = true
      · simp [delFirst, h, h']
      · simp [delFirst, h, h', ih]

theorem find_none_of_countP_zero {α : Type} (q : α → Bool) : ∀ l : List α, l.countP q = 0 → l.find? q = none := by
  intro l h
  rw [List.find?_eq_none]
  intro x hx hqx
  have := List.countP_pos_iff.mpr ⟨x, hx, hqx⟩
  omega

theorem countP_pos_of_find {α : Type} (q : α → Bool) (l : List α) (y : α) (h : l.find? q = some y) : 0 < l.countP q :=
  List.countP_pos_iff.mpr ⟨y, List.mem_of_find?_eq_some h, List.find?_some h⟩

theorem find_delFirst_uniq {α : Type} (q : α → Bool) : ∀ l : List α, l.countP q ≤ 1 → (delFirst q l).find? q = none := by
  intro l
  induction l with
  | nil => intro _; rfl
  | cons x xs ih =>
    intro h
    by_cases hq : q x = true
    · simp only [delFirst, hq, if_true]
      simp only [List.countP_cons, hq, if_true] at h
      exact find_none_of_countP_zero q xs (by omega)
    · have hq' : q x = false := by simpa using hq
      simp only [delFirst, hq, Bool.false_eq_true, if_false, List.find?_cons, hq']
      simp only [List.countP_cons, hq, Bool.false_eq_true, if_false] at h
      exact ih (by omega)

theorem countP_filter_le {α : Type} (r q : α → Bool) : ∀ l : List α, (l.filter r).countP q ≤ l.countP q := by
  intro l
  induction l with
  | nil => exact Nat.le_refl _
  | cons x xs ih =>
    by_cases hr : r x = true
    · simp only [List.filter_cons, hr, if_true, List.countP_cons]; omega
    · simp only [List.filter_cons, hr, Bool.false_eq_true, if_false, List.countP_cons]; omega

theorem find_filter_out {α : Type} (r q : α → Bool) (hq : ∀ x, q x = true → r x = false) :
    ∀ l : List α, (l.filter r).find? q = none := by
  intro l
  rw [List.find?_eq_none]
  intro x hx hqx
  have := (List.mem_filter.mp hx).2
  rw [hq x hqx] at this
  cases this

theorem countP_append_one {α : Type} (q : α → Bool) (l : List α) (x : α) :
    (l ++ [x]).countP q = l.countP q + (if q x then 1 else 0) := by
  simp [List.countP_append, List.countP_cons]

theorem find_append_other {α : Type} (q : α → Bool) (l : List α) (x : α) (hx : q x = false) :
    (l ++ [x]).find? q = l.find? q := by
  rw [List.find?_append]
  cases l.find? q with
  | some y => rfl
  | none => simp [hx]

/-! ### keys, pending tasks, taint -/

/-- number of documents that carry the key (user name, problem name) -/
def docsAt (db : Db T H A R) (u n : T) : Nat := db.problems.countP (isProb u n)

/-- an unwritten task spawned under the key exists (its final `update_one` is still to come) -/
def pendingAt (db : Db T H A R) (u n : T) : Bool :=
  db.tasks.any (fun t => !t.written && decide (t.username = u) && decide (t.name = n))

/-- the rename `u → u'` a `PUT /users/update` request asks for (whether it is carried out shows in the state) -/
def renameOf (st : State T H A R) : Event T → Option (T × T)
  | .req ⟨jar, .update u' _ _⟩ => (st.sess jar).map (fun u => (u, u'))
  | _ => none

/-- taint carried along by a rename: the moved document's old key was tainted -/
def srcTaint (st : State T H A R) (e : Event T) (tn : T → T → Bool) (u n : T) : Bool :=
  match renameOf st e with
  | some (v, v') => decide (v' = u) && tn v n
  | none => false

/-- **D9's history shape at key `(u, n)`**: the event makes a document APPEAR under the key (the number
of documents carrying it grows: `POST /adf/add`, or a rename that moves documents there) while an
unwritten task spawned under that key exists, or while another document already carries the key -/
def d9Shape (E : Env T H A R) (st : State T H A R) (e : Event T) (u n : T) : Bool :=
  decide (docsAt st.db u n < docsAt (stepEv E st e).1.db u n) && (pendingAt st.db u n || decide (docsAt st.db u n ≠ 0))

/-- the ghost set of tainted keys after one event. A key under which a document appears is tainted iff
D9's shape is present (or the document was moved from a tainted key); otherwise its status is kept. In
particular creating a document under a key without documents and without unwritten tasks CLEARS it. -/
def taintStep (E : Env T H A R) (st : State T H A R) (e : Event T) (tn : T → T → Bool) : T → T → Bool := fun u n =>
  if docsAt st.db u n < docsAt (stepEv E st e).1.db u n then
    (if docsAt st.db u n = 0 then pendingAt st.db u n || srcTaint st e tn u n else true)
  else tn u n

/-- the tainted keys after a history -/
def taintRun (E : Env T H A R) : State T H A R → (T → T → Bool) → List (Event T) → T → T → Bool
  | _, tn, [] => tn
  | st, tn, e :: es => taintRun E (stepEv E st e).1 (taintStep E st e tn) es

theorem taintStep_same (E : Env T H A R) (st : State T H A R) (e : Event T) (tn : T → T → Bool) (u n : T)
    (h : docsAt (stepEv E st e).1.db u n ≤ docsAt st.db u n) : taintStep E st e tn u n = tn u n := by
  unfold taintStep
  rw [if_neg (by omega)]

/-! ### the invariant -/

structure GoodT (E : Env T H A R) (db : Db T H A R) (tn : T → T → Bool) : Prop where
  docs : ∀ p ∈ db.problems, tn p.username p.name = false → DocOK E p
  tasks : ∀ t ∈ db.tasks, t.written = false → tn t.username t.name = false →
    ∀ p, db.problems.find? (isProb t.username t.name) = some p → TaskOK E t.input p
  uniq : ∀ u n, tn u n = false → docsAt db u n ≤ 1

theorem GoodT.init (E : Env T H A R) (tn : T → T → Bool) : GoodT E ({} : Db T H A R) tn :=
  ⟨fun p hp => (by cases hp), fun t ht => (by cases ht), fun _ _ _ => Nat.zero_le _⟩

/-- tasks of the new state come from tasks of the old one, same key and input, and none is "un-written" -/
def TasksFrom (ts' ts : List (TaskRec T A)) : Prop :=
  ∀ t' ∈ ts', ∃ t ∈ ts, t'.username = t.username ∧ t'.name = t.name ∧ t'.input = t.input ∧
    (t'.written = false → t.written = false)

theorem TasksFrom.refl (ts : List (TaskRec T A)) : TasksFrom ts ts :=
  fun t ht => ⟨t, ht, rfl, rfl, rfl, id⟩

theorem tasksFrom_updNth (j n : Nat) (f : TaskRec T A → TaskRec T A)
    (hf : ∀ t, (f t).username = t.username ∧ (f t).name = t.name ∧ (f t).input = t.input ∧
      ((f t).written = false → t.written = false)) (l : List (TaskRec T A)) :
    TasksFrom (updNth j f n l) l := by
  intro t' ht'
  rcases mem_updNth j f n l t' ht' with h | ⟨t, ht, rfl⟩
  · exact ⟨t', h, rfl, rfl, rfl, id⟩
  · exact ⟨t, ht, hf t⟩

theorem isProb_key {u n : T} {p : Problem T A R} (h : isProb u n p = true) : p.name = n ∧ p.username = u := by
  simpa [isProb] using h

theorem isProb_self (p : Problem T A R) : isProb p.username p.name p = true := by simp [isProb]

theorem pendingAt_of_mem {db : Db T H A R} {t : TaskRec T A} (ht : t ∈ db.tasks) (hw : t.written = false) :
    pendingAt db t.username t.name = true := by
  unfold pendingAt
  rw [List.any_eq_true]
  exact ⟨t, ht, by simp [hw]⟩

/-- (A) problems unchanged, task flags change -/
theorem GoodT.flags {E : Env T H A R} {db db' : Db T H A R} {tn tn' : T → T → Bool} (h : GoodT E db tn)
    (hp : db'.problems = db.problems) (ht : TasksFrom db'.tasks db.tasks) (htn : ∀ u n, tn' u n = tn u n) :
    GoodT E db' tn' := by
  refine ⟨fun p hp' hn => h.docs p (hp ▸ hp') (by rw [← htn]; exact hn), fun t' ht' hw hn p hf => ?_,
    fun u n hn => by unfold docsAt; rw [hp]; exact h.uniq u n (by rw [← htn]; exact hn)⟩
  obtain ⟨t, htm, e1, e2, e3, e4⟩ := ht t' ht'
  rw [hp, e1, e2] at hf
  rw [e3]
  exact h.tasks t htm (e4 hw) (by rw [← e1, ← e2, ← htn]; exact hn) p hf

/-- (B) the first document under a key is updated in place -/
theorem GoodT.pset {E : Env T H A R} {db db' : Db T H A R} {tn tn' : T → T → Bool} (h : GoodT E db tn)
    (u n : T) (w : Write A R)
    (hw : tn u n = false → ∀ p, db.problems.find? (isProb u n) = some p → DocOK E (w.apply p))
    (hp : db'.problems = updFirst (isProb u n) w.apply db.problems) (ht : TasksFrom db'.tasks db.tasks)
    (htn : ∀ u n, tn' u n = tn u n) : GoodT E db' tn' := by
  refine ⟨fun p hp' hn => ?_, fun t' ht' hwr hn p hf => ?_, fun u' n' hn => ?_⟩
  · rw [hp] at hp'
    rw [htn] at hn
    rcases mem_updFirst_r _ _ _ _ hp' with h1 | ⟨x, hx, rfl⟩
    · exact h.docs p h1 hn
    · have hk := isProb_key (List.find?_some hx)
      rw [Write.apply_username, Write.apply_name, hk.1, hk.2] at hn
      exact hw hn x hx
  · obtain ⟨t, htm, e1, e2, e3, e4⟩ := ht t' ht'
    rw [hp, e1, e2] at hf
    rw [e3]
    obtain ⟨y, hy, hy'⟩ := find_updFirst_back (isProb u n) (isProb t.username t.name) w.apply
      (fun x => isProb_apply _ _ w x) db.problems p hf
    have hok := h.tasks t htm (e4 hwr) (by rw [← e1, ← e2, ← htn]; exact hn) y hy
    rcases hy' with rfl | rfl
    · exact hok
    · exact (TaskOK_apply E t.input w y).mpr hok
  · unfold docsAt
    rw [hp, countP_updFirst _ _ _ (fun x => isProb_apply _ _ w x)]
    exact h.uniq u' n' (by rw [← htn]; exact hn)

theorem DocOK_new (E : Env T H A R) (n u code : T) (parsing : Parsing) :
    DocOK E ({ name := n, username := u, code := code, parsing := parsing } : Problem T A R) := by
  refine ⟨fun a ha => (by cases ha), fun s res hr => ?_⟩
  have : (({} : Results R).get s) = .some res := hr
  rw [Results.get_empty] at this; cases this

/-- (C) a new document with its parse task under a key that carried no document; the key's taint
becomes "an unwritten task of that key exists" -/
theorem GoodT.add {E : Env T H A R} {db db' : Db T H A R} {tn tn' : T → T → Bool} (h : GoodT E db tn)
    (u n code : T) (parsing : Parsing) (t0 : TaskRec T A)
    (hnone : db.problems.find? (isProb u n) = none)
    (h1 : t0.username = u) (h2 : t0.name = n) (h3 : t0.input = .parse code parsing)
    (hp : db'.problems = db.problems ++ [{ name := n, username := u, code := code, parsing := parsing }])
    (ht : db'.tasks = db.tasks ++ [t0])
    (htn1 : tn' u n = pendingAt db u n) (htn2 : ∀ u' n', ¬ (u' = u ∧ n' = n) → tn' u' n' = tn u' n') :
    GoodT E db' tn' := by
  have hno : ∀ p ∈ db.problems, isProb u n p = false := by
    intro p hp'
    have := List.find?_eq_none.mp hnone p hp'
    simpa using this
  have hnew : isProb u n ({ name := n, username := u, code := code, parsing := parsing } : Problem T A R) = true := by
    simp [isProb]
  refine ⟨fun p hp' hn => ?_, fun t ht' hw hn p hf => ?_, fun u' n' hn => ?_⟩
  · rw [hp, List.mem_append, List.mem_singleton] at hp'
    rcases hp' with h' | rfl
    · have hk : ¬ (p.username = u ∧ p.name = n) := by
        intro ⟨e1, e2⟩
        have := hno p h'
        rw [← e1, ← e2, isProb_self] at this; cases this
      rw [htn2 _ _ hk] at hn
      exact h.docs p h' hn
    · exact DocOK_new E n u code parsing
  · rw [ht, List.mem_append, List.mem_singleton] at ht'
    rw [hp] at hf
    by_cases hk : t.username = u ∧ t.name = n
    · rw [hk.1, hk.2, find_append_none _ _ _ hnone hnew] at hf
      cases hf
      rcases ht' with h' | rfl
      · rw [hk.1, hk.2, htn1] at hn
        have := pendingAt_of_mem h' hw
        rw [hk.1, hk.2, hn] at this; cases this
      · rw [h3]; exact ⟨rfl, rfl⟩
    · rcases ht' with h' | rfl
      · rw [htn2 _ _ hk] at hn
        rw [find_append_other _ _ _ (isProb_other hk _ hnew)] at hf
        exact h.tasks t h' hw hn p hf
      · exact absurd ⟨h1, h2⟩ hk
  · unfold docsAt
    rw [hp, countP_append_one]
    by_cases hk : u' = u ∧ n' = n
    · rw [hk.1, hk.2, hnew]
      have : db.problems.countP (isProb u n) = 0 := by
        rw [List.countP_eq_zero]
        intro p hp'; rw [hno p hp']; simp
      simp [this]
    · rw [isProb_other hk _ hnew]
      rw [htn2 _ _ hk] at hn
      have := h.uniq u' n' hn
      unfold docsAt at this
      simpa using this

/-- (D) a solve task for the framework stored in the addressed document -/
theorem GoodT.solve {E : Env T H A R} {db db' : Db T H A R} {tn tn' : T → T → Bool} (h : GoodT E db tn)
    (u n : T) (p : Problem T A R) (a : A) (s : Strategy)
    (t0 : TaskRec T A) (hf : db.problems.find? (isProb u n) = some p) (ha : p.adf = .some a)
    (h1 : t0.username = u) (h2 : t0.name = n) (h3 : t0.input = .solve a s)
    (hp : db'.problems = db.problems) (ht : db'.tasks = db.tasks ++ [t0]) (htn : ∀ u n, tn' u n = tn u n) :
    GoodT E db' tn' := by
  refine ⟨fun q hq hn => h.docs q (hp ▸ hq) (by rw [← htn]; exact hn), fun t ht' hw hn q hq => ?_,
    fun u n hn => by unfold docsAt; rw [hp]; exact h.uniq u n (by rw [← htn]; exact hn)⟩
  rw [ht, List.mem_append, List.mem_singleton] at ht'
  rw [hp] at hq
  rw [htn] at hn
  rcases ht' with h' | rfl
  · exact h.tasks t h' hw hn q hq
  · rw [h1, h2] at hq hn
    rw [hf] at hq; cases hq
    rw [h3]
    have hk := isProb_key (List.find?_some hf)
    exact (h.docs p (List.mem_of_find?_eq_some hf) (by rw [hk.1, hk.2]; exact hn)).1 a ha

/-- (E) `delete_one` under a key -/
theorem GoodT.del {E : Env T H A R} {db db' : Db T H A R} {tn tn' : T → T → Bool} (h : GoodT E db tn) (u n : T)
    (hp : db'.problems = delFirst (isProb u n) db.problems) (ht : db'.tasks = db.tasks) (htn : ∀ u n, tn' u n = tn u n) :
    GoodT E db' tn' := by
  refine ⟨fun q hq hn => h.docs q (mem_of_delFirst _ _ _ (hp ▸ hq)) (by rw [← htn]; exact hn), fun t ht' hw hn q hq => ?_,
    fun u' n' hn => ?_⟩
  · rw [ht] at ht'
    rw [hp] at hq
    rw [htn] at hn
    by_cases hk : t.username = u ∧ t.name = n
    · rw [hk.1, hk.2] at hq hn
      rw [find_delFirst_uniq _ _ (h.uniq u n hn)] at hq
      cases hq
    · rw [find_delFirst_other _ _ (fun x hx => isProb_other hk x hx)] at hq
      exact h.tasks t ht' hw hn q hq
  · unfold docsAt
    rw [hp]
    exact Nat.le_trans (countP_delFirst_le _ _ _) (h.uniq u' n' (by rw [← htn]; exact hn))

/-- (F) `delete_many` of a user's documents -/
theorem GoodT.delAll {E : Env T H A R} {db db' : Db T H A R} {tn tn' : T → T → Bool} (h : GoodT E db tn) (u : T)
    (hp : db'.problems = db.problems.filter (fun p => !ownedP u p)) (ht : db'.tasks = db.tasks)
    (htn : ∀ u n, tn' u n = tn u n) : GoodT E db' tn' := by
  refine ⟨fun q hq hn => h.docs q (List.mem_filter.mp (hp ▸ hq)).1 (by rw [← htn]; exact hn), fun t ht' hw hn q hq => ?_,
    fun u' n' hn => ?_⟩
  · rw [ht] at ht'
    rw [hp] at hq
    rw [htn] at hn
    by_cases hk : t.username = u
    · rw [find_filter_out _ _ (fun x hx => by
        have := (isProb_key hx).2
        simp [ownedP, this, hk])] at hq
      cases hq
    · rw [find_filter_in _ _ (fun x hx => by
        have := (isProb_key hx).2
        simp [ownedP, this, hk])] at hq
      exact h.tasks t ht' hw hn q hq
  · unfold docsAt
    rw [hp]
    exact Nat.le_trans (countP_filter_le _ _ _) (h.uniq u' n' (by rw [← htn]; exact hn))

/-! ### renames -/

/-- what `update_many {username: u} {$set: {username: u'}}` does to one document -/
def renameDoc (u u' : T) (p : Problem T A R) : Problem T A R := if ownedP u p then { p with username := u' } else p

theorem DocOK_rename (E : Env T H A R) (u u' : T) (p : Problem T A R) : DocOK E (renameDoc u u' p) ↔ DocOK E p := by
  unfold renameDoc
  split <;> exact Iff.rfl

theorem TaskOK_rename (E : Env T H A R) (i : TaskInput T A) (u u' : T) (p : Problem T A R) :
    TaskOK E i (renameDoc u u' p) ↔ TaskOK E i p := by
  unfold renameDoc
  split
  · cases i <;> exact Iff.rfl
  · exact Iff.rfl

theorem isProb_rename_src (u u' n' : T) (hne : u' ≠ u) (p : Problem T A R) : isProb u n' (renameDoc u u' p) = false := by
  unfold renameDoc
  by_cases ho : ownedP u p = true
  · rw [if_pos ho]; simp [isProb, hne]
  · rw [if_neg ho]
    have : ¬ p.username = u := by simpa [ownedP] using ho
    simp [isProb, this]

theorem isProb_rename_dst (u u' n' : T) (hne : u' ≠ u) (p : Problem T A R) :
    isProb u' n' (renameDoc u u' p) = (isProb u' n' p || isProb u n' p) := by
  unfold renameDoc
  by_cases ho : ownedP u p = true
  · have hu : p.username = u := by simpa [ownedP] using ho
    have : ¬ u = u' := fun e => hne e.symm
    rw [if_pos ho]; simp [isProb, hu, this]
  · rw [if_neg ho]
    have : ¬ p.username = u := by simpa [ownedP] using ho
    simp [isProb, this]

theorem isProb_rename_other (u u' v n' : T) (h1 : v ≠ u) (h2 : v ≠ u') (p : Problem T A R) :
    isProb v n' (renameDoc u u' p) = isProb v n' p := by
  unfold renameDoc
  by_cases ho : ownedP u p = true
  · have hu : p.username = u := by simpa [ownedP] using ho
    have e1 : ¬ u' = v := fun e => h2 e.symm
    have e2 : ¬ u = v := fun e => h1 e.symm
    rw [if_pos ho]; simp [isProb, hu, e1, e2]
  · rw [if_neg ho]

theorem renameDoc_fix (u u' : T) (p : Problem T A R) (h : p.username ≠ u) : renameDoc u u' p = p := by
  unfold renameDoc
  rw [if_neg (by simpa [ownedP] using h)]

theorem renameDoc_self (u : T) (p : Problem T A R) : renameDoc u u p = p := by
  unfold renameDoc
  split
  · rename_i h
    have : p.username = u := by simpa [ownedP] using h
    cases p; simp_all
  · rfl

theorem countP_rename_dst (u u' n' : T) (hne : u' ≠ u) (l : List (Problem T A R)) :
    (l.map (renameDoc u u')).countP (isProb u' n') = l.countP (isProb u' n') + l.countP (isProb u n') := by
  induction l with
  | nil => rfl
  | cons x xs ih =>
    simp only [List.map_cons, List.countP_cons, ih, isProb_rename_dst u u' n' hne]
    have hex : ¬ (isProb u' n' x = true ∧ isProb u n' x = true) := by
      intro ⟨a, b⟩
      exact hne ((isProb_key a).2.symm.trans (isProb_key b).2)
    cases h1 : isProb u' n' x <;> cases h2 : isProb u n' x <;> simp_all <;> omega

theorem countP_map_same {α : Type} (q : α → Bool) (f : α → α) (hf : ∀ x, q (f x) = q x) (l : List α) :
    (l.map f).countP q = l.countP q := by
  induction l with
  | nil => rfl
  | cons x xs ih => simp only [List.map_cons, List.countP_cons, ih, hf]

/-- a look-up the renaming does not disturb: every document is tested alike before and after, and those
that pass are unchanged -/
theorem find_map_same {α : Type} (q : α → Bool) (f : α → α) (l : List α)
    (hf : ∀ x ∈ l, q (f x) = q x ∧ (q x = true → f x = x)) : (l.map f).find? q = l.find? q := by
  induction l with
  | nil => rfl
  | cons x xs ih =>
    have hx := hf x (List.mem_cons_self ..)
    simp only [List.map_cons, List.find?_cons, hx.1]
    cases hq : q x with
    | true => simp [hx.2 hq]
    | false => exact ih (fun y hy => hf y (List.mem_cons_of_mem _ hy))

/-- (G) `update_many {username: u} {$set: {username: u'}}` with `u' ≠ u` -/
theorem GoodT.rename {E : Env T H A R} {db db' : Db T H A R} {tn tn' : T → T → Bool} (h : GoodT E db tn) (u u' : T)
    (hne : u' ≠ u) (hp : db'.problems = db.problems.map (renameDoc u u')) (ht : db'.tasks = db.tasks)
    (htn1 : ∀ n, 0 < docsAt db u n → tn' u' n = false →
      docsAt db u' n = 0 ∧ pendingAt db u' n = false ∧ tn u n = false)
    (htn2 : ∀ n, docsAt db u n = 0 → tn' u' n = tn u' n)
    (htn3 : ∀ v n, v ≠ u' → tn' v n = tn v n) : GoodT E db' tn' := by
  refine ⟨fun p' hp' hn => ?_, fun t ht' hw hn q hq => ?_, fun v n hn => ?_⟩
  · rw [hp] at hp'
    obtain ⟨p, hpm, rfl⟩ := List.mem_map.mp hp'
    rw [DocOK_rename]
    by_cases ho : p.username = u
    · have hk : (renameDoc u u' p).username = u' ∧ (renameDoc u u' p).name = p.name := by
        unfold renameDoc; rw [if_pos (by simp [ownedP, ho])]; exact ⟨rfl, rfl⟩
      rw [hk.1, hk.2] at hn
      have hpos : 0 < docsAt db u p.name :=
        List.countP_pos_iff.mpr ⟨p, hpm, by rw [← ho]; exact isProb_self p⟩
      have := (htn1 p.name hpos hn).2.2
      exact h.docs p hpm (by rw [ho]; exact this)
    · rw [renameDoc_fix u u' p ho] at hn
      by_cases ho' : p.username = u'
      · rw [ho'] at hn
        by_cases hz : docsAt db u p.name = 0
        · rw [htn2 _ hz] at hn
          exact h.docs p hpm (by rw [ho']; exact hn)
        · have := (htn1 p.name (by omega) hn).1
          have hpos : 0 < docsAt db u' p.name :=
            List.countP_pos_iff.mpr ⟨p, hpm, by rw [← ho']; exact isProb_self p⟩
          omega
      · rw [htn3 _ _ ho'] at hn
        exact h.docs p hpm hn
  · rw [ht] at ht'
    rw [hp] at hq
    by_cases hu : t.username = u
    · rw [hu] at hq
      have := List.find?_some hq
      have hq' := List.mem_of_find?_eq_some hq
      obtain ⟨p, _, rfl⟩ := List.mem_map.mp hq'
      rw [isProb_rename_src u u' _ hne] at this; cases this
    · by_cases hu' : t.username = u'
      · rw [hu'] at hq hn
        by_cases hz : docsAt db u t.name = 0
        · rw [htn2 _ hz] at hn
          rw [find_map_same] at hq
          · exact h.tasks t ht' hw (by rw [hu']; exact hn) q (by rw [hu']; exact hq)
          · intro x hx
            have hxu : isProb u t.name x = false := by
              cases hc : isProb u t.name x with
              | false => rfl
              | true =>
                have := List.countP_pos_iff.mpr ⟨x, hx, hc⟩
                unfold docsAt at hz; omega
            refine ⟨by rw [isProb_rename_dst u u' _ hne, hxu, Bool.or_false], fun hxq => ?_⟩
            exact renameDoc_fix u u' x (by rw [(isProb_key hxq).2]; exact hne)
        · have := (htn1 t.name (by omega) hn).2.1
          have hpend := pendingAt_of_mem ht' hw
          rw [hu', this] at hpend; cases hpend
      · rw [htn3 _ _ hu'] at hn
        rw [find_map_same] at hq
        · exact h.tasks t ht' hw hn q hq
        · intro x _
          refine ⟨isProb_rename_other u u' _ _ hu hu' x, fun hxq => ?_⟩
          exact renameDoc_fix u u' x (by rw [(isProb_key hxq).2]; exact hu)
  · unfold docsAt
    rw [hp]
    by_cases hv : v = u
    · rw [hv, List.countP_eq_zero.mpr]
      · omega
      · intro x hx
        obtain ⟨p, _, rfl⟩ := List.mem_map.mp hx
        rw [isProb_rename_src u u' _ hne]; simp
    · by_cases hv' : v = u'
      · rw [hv', countP_rename_dst u u' n hne]
        rw [hv'] at hn
        by_cases hz : docsAt db u n = 0
        · rw [htn2 _ hz] at hn
          have := h.uniq u' n hn
          unfold docsAt at this hz
          omega
        · have h3 := htn1 n (by omega) hn
          have := h.uniq u n h3.2.2
          have h0 := h3.1
          unfold docsAt at this h0
          omega
      · rw [countP_map_same _ _ (fun x => isProb_rename_other u u' v n hv hv' x)]
        rw [htn3 _ _ hv'] at hn
        exact h.uniq v n hn

/-! ### the handlers that remove or rename documents -/

theorem run_ite_ret {c : Prop} [Decidable c] (a b : P T H A R) (d : Db T H A R) (ha : (run a d).1 = d)
    (hb : (run b d).1 = d) : (run (if c then a else b) d).1 = d := by
  split <;> assumption

theorem hDelete_effect (id : Option T) (name : T) (db : Db T H A R) :
    (run (hDelete (H := H) id name) db).1.tasks = db.tasks ∧
    ((run (hDelete (H := H) id name) db).1.problems = db.problems ∨
     ∃ u, id = some u ∧ (run (hDelete (H := H) id name) db).1.problems = delFirst (isProb u name) db.problems) := by
  unfold hDelete
  cases id with
  | none => exact ⟨rfl, Or.inl rfl⟩
  | some u =>
    simp only [run, exec]
    split <;> exact ⟨rfl, Or.inr ⟨u, rfl, rfl⟩⟩

theorem hDeleteAccount_effect (id : Option T) (db : Db T H A R) :
    (run (hDeleteAccount (H := H) (A := A) (R := R) id) db).1.tasks = db.tasks ∧
    ((run (hDeleteAccount (H := H) (A := A) (R := R) id) db).1.problems = db.problems ∨
     ∃ u, id = some u ∧ (run (hDeleteAccount (H := H) (A := A) (R := R) id) db).1.problems =
       db.problems.filter (fun p => !ownedP u p)) := by
  cases id with
  | none => exact ⟨rfl, Or.inl rfl⟩
  | some u =>
    have key : ∀ (k : Nat) (d : Db T H A R), (run ((fun n : Nat => if n = 0 then reply 500 .accountNotDeleted
        else .ret ⟨200, .logout, .msg .accountDeleted⟩ : Nat → P T H A R) k) d).1 = d := by
      intro k d; simp only; split <;> rfl
    have e : (run (hDeleteAccount (H := H) (A := A) (R := R) (some u)) db).1 =
        (exec (exec db (.pDeleteAll u)).1 (.uDelete u)).1 :=
      key (exec (exec db (.pDeleteAll u)).1 (.uDelete u)).2 (exec (exec db (.pDeleteAll u)).1 (.uDelete u)).1
    rw [e]
    exact ⟨rfl, Or.inr ⟨u, rfl, rfl⟩⟩

theorem hUpdate_effect (E : Env T H A R) (id : Option T) (u' p' : T) (salt : Nat) (db : Db T H A R) :
    (run (hUpdate E id u' p' salt) db).1.tasks = db.tasks ∧
    ((run (hUpdate E id u' p' salt) db).1.problems = db.problems ∨
     ∃ u, id = some u ∧ (run (hUpdate E id u' p' salt) db).1.problems = db.problems.map (renameDoc u u')) := by
  unfold hUpdate
  split
  · exact ⟨rfl, Or.inl rfl⟩
  · cases id with
    | none => exact ⟨rfl, Or.inl rfl⟩
    | some u =>
      have hgo : ∀ d : Db T H A R, d.problems = db.problems → d.tasks = db.tasks →
          (run (.cmd (.uReplace u ⟨u', some (E.hash salt p')⟩) fun m => match m with
            | none => reply 500 .dbError
            | some 0 => reply 500 .accountNotUpdated
            | some _ => .cmd (.pRename u u') fun _ => .ret ⟨200, .login u', .userInfo u' false⟩ : P T H A R) d).1.tasks = db.tasks ∧
          ((run (.cmd (.uReplace u ⟨u', some (E.hash salt p')⟩) fun m => match m with
            | none => reply 500 .dbError
            | some 0 => reply 500 .accountNotUpdated
            | some _ => .cmd (.pRename u u') fun _ => .ret ⟨200, .login u', .userInfo u' false⟩ : P T H A R) d).1.problems = db.problems ∨
           ∃ v, some u = some v ∧ (run (.cmd (.uReplace u ⟨u', some (E.hash salt p')⟩) fun m => match m with
            | none => reply 500 .dbError
            | some 0 => reply 500 .accountNotUpdated
            | some _ => .cmd (.pRename u u') fun _ => .ret ⟨200, .login u', .userInfo u' false⟩ : P T H A R) d).1.problems =
              db.problems.map (renameDoc v u')) := by
        intro d hdp hdt
        simp only [run, exec]
        by_cases hc : (decide (u' ≠ u) && d.users.any (isUser u')) = true
        · simp only [hc, if_true]; exact ⟨hdt, Or.inl hdp⟩
        · simp only [hc, Bool.false_eq_true, if_false]
          by_cases ha : d.users.any (isUser u) = true
          · simp only [ha, if_true, run, exec]
            exact ⟨hdt, Or.inr ⟨u, rfl, by rw [hdp]; rfl⟩⟩
          · simp only [ha, Bool.false_eq_true, if_false]
            exact ⟨hdt, Or.inl hdp⟩
      simp only
      split
      · simp only [run, exec]
        cases hf : db.users.find? (isUser u') with
        | some _ => exact ⟨rfl, Or.inl rfl⟩
        | none => exact hgo db rfl rfl
      · exact hgo db rfl rfl

/-! ### every event preserves the invariant -/

theorem stepEv_req_db (E : Env T H A R) (st : State T H A R) (jar : Nat) (r : Req T) :
    (stepEv E st (.req ⟨jar, r⟩)).1.db = (run (handler E jar (st.sess jar) r) st.db).1 := rfl

/-- problems unchanged: the taint is unchanged -/
theorem GoodT.keep (E : Env T H A R) {st : State T H A R} {tn : T → T → Bool} (h : GoodT E st.db tn) (e : Event T)
    (hp : (stepEv E st e).1.db.problems = st.db.problems) (ht : TasksFrom (stepEv E st e).1.db.tasks st.db.tasks) :
    GoodT E (stepEv E st e).1.db (taintStep E st e tn) :=
  h.flags hp ht (fun u n => taintStep_same E st e tn u n (by unfold docsAt; rw [hp]; exact Nat.le_refl _))

theorem GoodT.event (E : Env T H A R) {st : State T H A R} {tn : T → T → Bool} (h : GoodT E st.db tn) :
    ∀ e : Event T, (∀ rq, e ≠ .req rq) → GoodT E (stepEv E st e).1.db (taintStep E st e tn) := by
  intro e hne
  have hsame : ∀ (u n : T) (w : Write A R) (db' : Db T H A R) (e : Event T), (stepEv E st e).1.db = db' →
      db'.problems = updFirst (isProb u n) w.apply st.db.problems → ∀ u' n', taintStep E st e tn u' n' = tn u' n' := by
    intro u n w db' e he hp u' n'
    apply taintStep_same
    unfold docsAt
    rw [he, hp, countP_updFirst _ _ _ (fun x => isProb_apply _ _ w x)]
    exact Nat.le_refl _
  cases e with
  | req rq => exact absurd rfl (hne rq)
  | finish j n =>
    have hdb : (stepEv E st (.finish j n)).1.db = dbEv E st.db (.finish j n) := rfl
    cases ht : nthOf j n st.db.tasks with
    | none =>
      apply h.keep E <;> rw [hdb] <;> simp only [dbEv, ht]
      exact TasksFrom.refl _
    | some t =>
      by_cases hb : t.blockingDone = true
      · apply h.keep E <;> rw [hdb] <;> simp only [dbEv, ht, hb, if_true]
        exact TasksFrom.refl _
      · apply h.keep E <;> rw [hdb] <;> simp only [dbEv, ht, hb, Bool.false_eq_true, if_false]
        exact tasksFrom_updNth j n (fun t => { t with blockingDone := true }) (fun _ => ⟨rfl, rfl, rfl, id⟩) _
  | write j n =>
    have hdb : (stepEv E st (.write j n)).1.db = dbEv E st.db (.write j n) := rfl
    cases ht : nthOf j n st.db.tasks with
    | none =>
      apply h.keep E <;> rw [hdb] <;> simp only [dbEv, ht]
      exact TasksFrom.refl _
    | some t =>
      by_cases hb : (t.blockingDone && !t.written) = true
      · have hw : t.written = false := by
          simp only [Bool.and_eq_true, Bool.not_eq_true'] at hb; exact hb.2
        have hpb : (dbEv E st.db (.write j n)).problems = updFirst (isProb t.username t.name) (taskWrite E t.input).apply st.db.problems := by
          simp only [dbEv, ht, hb, if_true, exec]
        have htb : (dbEv E st.db (.write j n)).tasks = updNth j (fun t => { t with written := true }) n st.db.tasks := by
          simp only [dbEv, ht, hb, if_true, exec]
        refine h.pset t.username t.name (taskWrite E t.input) ?_ (by rw [hdb]; exact hpb) ?_
          (hsame _ _ _ _ _ hdb hpb)
        · intro hn p hp
          have hm := (nthOf_mem j n _ t ht).1
          exact docOK_taskWrite E t.input p
            (h.docs p (List.mem_of_find?_eq_some hp) (by
              have hk := isProb_key (List.find?_some hp)
              rw [hk.1, hk.2]; exact hn))
            (h.tasks t hm hw hn p hp)
        · rw [hdb, htb]
          exact tasksFrom_updNth j n (fun t => { t with written := true }) (fun _ => ⟨rfl, rfl, rfl, fun hh => by cases hh⟩) _
      · apply h.keep E <;> rw [hdb] <;> simp only [dbEv, ht, hb, Bool.false_eq_true, if_false]
        exact TasksFrom.refl _
  | timeout j n =>
    have hdb : (stepEv E st (.timeout j n)).1.db = dbEv E st.db (.timeout j n) := rfl
    cases ht : nthOf j n st.db.tasks with
    | none =>
      apply h.keep E <;> rw [hdb] <;> simp only [dbEv, ht]
      exact TasksFrom.refl _
    | some t =>
      by_cases hb : (!t.blockingDone && !t.written) = true
      · have hpb : (dbEv E st.db (.timeout j n)).problems = updFirst (isProb t.username t.name) (timeoutWrite t.input : Write A R).apply st.db.problems := by
          simp only [dbEv, ht, hb, if_true, exec]
        have htb : (dbEv E st.db (.timeout j n)).tasks = updNth j (fun t => { t with written := true }) n st.db.tasks := by
          simp only [dbEv, ht, hb, if_true, exec]
        refine h.pset t.username t.name (timeoutWrite t.input) ?_ (by rw [hdb]; exact hpb) ?_
          (hsame _ _ _ _ _ hdb hpb)
        · intro hn p hp
          exact docOK_timeoutWrite E t.input p
            (h.docs p (List.mem_of_find?_eq_some hp) (by
              have hk := isProb_key (List.find?_some hp)
              rw [hk.1, hk.2]; exact hn))
        · rw [hdb, htb]
          exact tasksFrom_updNth j n (fun t => { t with written := true }) (fun _ => ⟨rfl, rfl, rfl, fun hh => by cases hh⟩) _
      · apply h.keep E <;> rw [hdb] <;> simp only [dbEv, ht, hb, Bool.false_eq_true, if_false]
        exact TasksFrom.refl _

theorem GoodT.request (E : Env T H A R) {st : State T H A R} {tn : T → T → Bool} (h : GoodT E st.db tn) (rq : Request T) :
    GoodT E (stepEv E st (.req rq)).1.db (taintStep E st (.req rq) tn) := by
  obtain ⟨jar, r⟩ := rq
  have hdb := stepEv_req_db E st jar r
  have keep : (run (handler E jar (st.sess jar) r) st.db).1.problems = st.db.problems →
      (run (handler E jar (st.sess jar) r) st.db).1.tasks = st.db.tasks →
      GoodT E (stepEv E st (.req ⟨jar, r⟩)).1.db (taintStep E st (.req ⟨jar, r⟩) tn) := by
    intro h1 h2
    apply h.keep E
    · rw [hdb]; exact h1
    · rw [hdb, h2]; exact TasksFrom.refl _
  have harmless : (∀ c, Shape E jar (st.sess jar) r c → Harmless c) →
      GoodT E (stepEv E st (.req ⟨jar, r⟩)).1.db (taintStep E st (.req ⟨jar, r⟩) tn) := by
    intro hQ
    have := run_harmless hQ (handler_shape E jar (st.sess jar) r) st.db
    exact keep this.1 this.2
  have same : ∀ u n, docsAt (stepEv E st (.req ⟨jar, r⟩)).1.db u n ≤ docsAt st.db u n →
      taintStep E st (.req ⟨jar, r⟩) tn u n = tn u n := fun u n hle => taintStep_same E st _ tn u n hle
  cases r with
  | register u p salt =>
    apply harmless; intro c hc
    rcases hc with rfl | rfl <;> trivial
  | login u p => apply harmless; intro c hc; cases hc; trivial
  | logout => apply harmless; intro c hc; obtain ⟨v, _, rfl⟩ := hc; trivial
  | info => apply harmless; intro c hc; obtain ⟨v, _, rfl⟩ := hc; trivial
  | get name =>
    apply harmless; intro c hc
    obtain ⟨v, _, rfl | ⟨n, rfl⟩⟩ := hc <;> trivial
  | list =>
    apply harmless; intro c hc
    obtain ⟨v, _, rfl | ⟨n, rfl⟩⟩ := hc <;> trivial
  | malformed => apply harmless; intro c hc; cases hc
  | add name code file parsing fu fp =>
    rcases hAdd_effect E jar (st.sess jar) name code file parsing fu fp st.db with ⟨h1, h2⟩ | ⟨u, n, c, hf, h1, h2⟩
    · exact keep h1 h2
    · replace h1 : (stepEv E st (.req ⟨jar, .add name code file parsing fu fp⟩)).1.db.problems = _ := h1
      replace h2 : (stepEv E st (.req ⟨jar, .add name code file parsing fu fp⟩)).1.db.tasks = _ := h2
      have hnew : isProb u n ({ name := n, username := u, code := c, parsing := parsing } : Problem T A R) = true := by
        simp [isProb]
      have hz : docsAt st.db u n = 0 := by
        unfold docsAt
        rw [List.countP_eq_zero]
        intro p hp
        have := List.find?_eq_none.mp hf p hp
        exact this
      refine h.add u n c parsing _ hf rfl rfl rfl h1 h2 ?_ ?_
      · have h1' : docsAt (stepEv E st (.req ⟨jar, .add name code file parsing fu fp⟩)).1.db u n = 1 := by
          unfold docsAt at hz ⊢
          rw [h1, countP_append_one, hnew, hz]; rfl
        unfold taintStep
        rw [h1', hz]
        simp [srcTaint, renameOf]
      · intro u' n' hk
        apply same
        unfold docsAt
        rw [h1, countP_append_one, isProb_other hk _ hnew]
        simp
  | solve name s =>
    obtain ⟨h1, h2 | ⟨u, p, a, hf, ha, h2⟩⟩ := hSolve_effect (H := H) jar (st.sess jar) name s st.db
    · exact keep h1 h2
    · replace h1 : (stepEv E st (.req ⟨jar, .solve name s⟩)).1.db.problems = _ := h1
      replace h2 : (stepEv E st (.req ⟨jar, .solve name s⟩)).1.db.tasks = _ := h2
      refine h.solve u name p a s _ hf ha rfl rfl rfl h1 h2 ?_
      intro u' n'
      apply same
      unfold docsAt
      rw [h1]
      exact Nat.le_refl _
  | delete name =>
    obtain ⟨h2, h1 | ⟨u, _, h1⟩⟩ := hDelete_effect (H := H) (st.sess jar) name st.db
    · exact keep h1 h2
    · replace h1 : (stepEv E st (.req ⟨jar, .delete name⟩)).1.db.problems = _ := h1
      replace h2 : (stepEv E st (.req ⟨jar, .delete name⟩)).1.db.tasks = _ := h2
      refine h.del u name h1 h2 ?_
      intro u' n'
      apply same
      unfold docsAt
      rw [h1]
      exact countP_delFirst_le _ _ _
  | deleteAccount =>
    obtain ⟨h2, h1 | ⟨u, _, h1⟩⟩ := hDeleteAccount_effect (H := H) (A := A) (R := R) (st.sess jar) st.db
    · exact keep h1 h2
    · replace h1 : (stepEv E st (.req ⟨jar, .deleteAccount⟩)).1.db.problems = _ := h1
      replace h2 : (stepEv E st (.req ⟨jar, .deleteAccount⟩)).1.db.tasks = _ := h2
      refine h.delAll u h1 h2 ?_
      intro u' n'
      apply same
      unfold docsAt
      rw [h1]
      exact countP_filter_le _ _ _
  | update u' p' salt =>
    obtain ⟨h2, h1 | ⟨u, hid, h1⟩⟩ := hUpdate_effect E (st.sess jar) u' p' salt st.db
    · exact keep h1 h2
    · replace h1 : (stepEv E st (.req ⟨jar, .update u' p' salt⟩)).1.db.problems = _ := h1
      replace h2 : (stepEv E st (.req ⟨jar, .update u' p' salt⟩)).1.db.tasks = _ := h2
      by_cases hne : u' = u
      · subst hne
        refine keep (h1.trans ?_) h2
        conv => rhs; rw [← List.map_id st.db.problems]
        apply List.map_congr_left
        intro x _; exact renameDoc_self u' x
      · have hc1 : ∀ n, docsAt (stepEv E st (.req ⟨jar, .update u' p' salt⟩)).1.db u' n = docsAt st.db u' n + docsAt st.db u n := by
          intro n; unfold docsAt; rw [h1, countP_rename_dst u u' n hne]
        have hsrc : ∀ n, srcTaint st (.req ⟨jar, .update u' p' salt⟩) tn u' n = tn u n := by
          intro n; simp [srcTaint, renameOf, hid]
        refine h.rename u u' hne h1 h2 ?_ ?_ ?_
        · intro n hpos hn
          unfold taintStep at hn
          rw [hc1, if_pos (by omega)] at hn
          by_cases hz : docsAt st.db u' n = 0
          · rw [if_pos hz, hsrc, Bool.or_eq_false_iff] at hn
            exact ⟨hz, hn.1, hn.2⟩
          · rw [if_neg hz] at hn; cases hn
        · intro n hz
          apply same
          rw [hc1, hz]; exact Nat.le_refl _
        · intro v n hv
          apply same
          unfold docsAt
          rw [h1]
          by_cases hvu : v = u
          · rw [hvu, List.countP_eq_zero.mpr]
            · exact Nat.zero_le _
            · intro x hx
              obtain ⟨p, _, rfl⟩ := List.mem_map.mp hx
              rw [isProb_rename_src u u' _ hne]; simp
          · rw [countP_map_same _ _ (fun x => isProb_rename_other u u' v n hvu hv x)]
            exact Nat.le_refl _

theorem GoodT.stepEv (E : Env T H A R) {st : State T H A R} {tn : T → T → Bool} (h : GoodT E st.db tn) (e : Event T) :
    GoodT E (stepEv E st e).1.db (taintStep E st e tn) := by
  cases e with
  | req rq => exact h.request E rq
  | finish j n => exact h.event E (.finish j n) (fun _ hh => by cases hh)
  | write j n => exact h.event E (.write j n) (fun _ hh => by cases hh)
  | timeout j n => exact h.event E (.timeout j n) (fun _ hh => by cases hh)

/-- **the invariant holds in every state that ANY history reaches**, with the tainted keys computed along it -/
theorem GoodT.runAll (E : Env T H A R) : ∀ (es : List (Event T)) (st : State T H A R) (tn : T → T → Bool),
    GoodT E st.db tn → GoodT E (runAll E st es).1.db (taintRun E st tn es) := by
  intro es
  induction es with
  | nil => intro st tn h; exact h
  | cons e es ih => intro st tn h; exact ih _ _ (h.stepEv E e)

/-- **reachable_untainted_belong_to_the_code**: after ANY history from the empty server, every document
whose key (user name, problem name) is not tainted stores only what belongs to its OWN code -/
theorem reachable_untainted_belong_to_the_code (E : Env T H A R) (es : List (Event T)) (p : Problem T A R)
    (hp : p ∈ (runAll E {} es).1.db.problems)
    (hn : taintRun E {} (fun _ _ => false) es p.username p.name = false) : DocOK E p :=
  (GoodT.runAll E es {} _ (GoodT.init E _)).docs p hp hn

end
end ServerM
