import AdfObdd.SearchModel
import AdfObdd.AdfPipeline
import AdfObdd.Spec.Adf
/-! Model of `App::run` of the `adf-bdd` binary: the three hand-wired arms (hybrid / biodivine /
    naive), the fixed section order, and which flag each arm implements. Every printed line is one
    interpretation; lines are rendered by the caller. -/
namespace Cli

inductive Mode where | naive | biodivine | hybrid
deriving DecidableEq, Repr

structure Flags where
  grd : Bool := false
  com : Bool := false
  twoval : Bool := false
  stm : Bool := false
  stmca : Bool := false
  stmcb : Bool := false
  stmpre : Bool := false
  stmrew : Bool := false
  stmrew2 : Bool := false
  stmng : Bool := false

/-- the per-mode wiring table: does the arm implement the section? (the order of `sections`
below is the order of the `if self.… {}` blocks in `run`) -/
inductive Section where | grd | com | twoval | stm | stmca | stmcb | stmpre | stmrew | stmng
deriving DecidableEq, Repr

def sectionOrder : List Section := [.grd, .com, .twoval, .stm, .stmca, .stmcb, .stmpre, .stmrew, .stmng]

def wanted (f : Flags) : Section → Bool
  | .grd => f.grd | .com => f.com | .twoval => f.twoval | .stm => f.stm | .stmca => f.stmca
  | .stmcb => f.stmcb | .stmpre => f.stmpre | .stmrew => f.stmrew || f.stmrew2 | .stmng => f.stmng

def implemented : Mode → Section → Bool
  | .hybrid, _ => true
  | .biodivine, s => s == .grd || s == .com || s == .stm || s == .stmrew
  | .naive, s => s == .grd || s == .com || s == .stm || s == .stmng

/-- the sections an invocation prints, in order -/
def sections (m : Mode) (f : Flags) : List Section :=
  sectionOrder.filter (fun s => wanted f s && implemented m s)

/-- sections whose line order is biodivine's (`sat_valuations`) and is compared as a multiset -/
def unorderedSection (s : Section) : Bool := s == .stmrew

/-- `stable_with_prefilter` -/
def stablePre (s : Store) (n : Nat) (ac : List Nat) : Store × List (List Nat) :=
  let g := groundedLoop StoreRA (n + 1) s ac
  (twoValAll g.2).foldl (fun (acc : Store × List (List Nat)) cand =>
      let pre := completeCheck StoreRA acc.1 cand ac cand
      if pre.2 then
        let red := mapFalse pre.1 cand ac
        let grd := groundedLoop StoreRA (n + 1) red.1 red.2
        let ok := (cand.zip grd.2).all (fun (a, b) => sameInfo a b)
        (grd.1, if ok then acc.2 ++ [cand] else acc.2)
      else (pre.1, acc.2)) (g.1, [])

/-- one section on a native-store object -/
def runSection (heu : SM.Heu) (sec : Section) (s : Store) (n : Nat) (ac : List Nat) : Store × List (List Nat) :=
  match sec with
  | .grd => let g := groundedLoop StoreRA (n + 1) s ac; (g.1, [g.2])
  | .com => let r := completeAll s n ac; (r.1, r.2.2)
  | .twoval => let r := SM.ngSearch heu 1000000 s n ac false; (r.1, r.2.1)
  | .stm => stableAll s n ac
  | .stmca => countAll s n ac true
  | .stmcb => countAll s n ac false
  | .stmpre => stablePre s n ac
  | .stmrew => stableAll s n ac
  | .stmng => let r := SM.ngSearch heu 1000000 s n ac true; (r.1, r.2.1)

/-- all printed interpretations of an invocation on a well-formed framework (store, conditions in
variable order), section by section. The hybrid arm works on the pre-grounded conditions (the
grounded residuals, C01/C09); the biodivine arm computes the same sequences on Boolean functions
(modelled on the store: the enumeration orders depend only on decided patterns). -/
def startOf (m : Mode) (s : Store) (n : Nat) (ac : List Nat) : Store × List Nat :=
  match m with
  | .hybrid => groundedLoop StoreRA (n + 1) s ac
  | _ => (s, ac)

def runFrom (heu : SM.Heu) (n : Nat) (ac : List Nat) :
    List Section → Store × List (Section × List (List Nat)) → Store × List (Section × List (List Nat))
  | [], acc => acc
  | sec :: rest, acc =>
    let r := runSection heu sec acc.1 n ac
    runFrom heu n ac rest (r.1, acc.2 ++ [(sec, r.2)])

def run (m : Mode) (f : Flags) (heu : SM.Heu) (s : Store) (n : Nat) (ac : List Nat) : List (Section × List (List Nat)) :=
  let start := startOf m s n ac
  (runFrom heu n start.2 (sections m f) (start.1, [])).2

/-- what the definitions prescribe for a section (as a set of three-valued interpretations) -/
def specSection (n : Nat) (tts : List Nat) : Section → List Spec.I3
  | .grd => [Spec.grounded n tts]
  | .com => Spec.completeAll n tts
  | .twoval => Spec.models2 n tts
  | _ => Spec.stableAll n tts

/-- malformed input: nothing is printed and the exit status is non-zero -/
def rejected : Nat × List String := (101, [])

end Cli
