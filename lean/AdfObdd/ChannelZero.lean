import AdfObdd.ChannelFair
/-! # `bounded(0)`: the rendezvous channel

`crossbeam_channel::bounded(0)` has no buffer: `send` blocks until a receiver takes the message, the
message is handed over directly.  In `Chan.prodStep` a capacity `some 0` makes every `send` block forever
(`full (some 0) _ = true`), so that model says nothing about it.  Here the hand-over is ONE joint event,
linearised as the consumer's step: a consumer step with a message pending at the sending end (the producer
stands at `s.send(v)`, i.e. `(P.out p)[sent]? = some v`) takes `v`; a producer step with a pending message is
blocked (no-op); everything else is as in `Chan`.  `buf` stays empty.  Every real execution with a
zero-capacity channel is a schedule of this model (the rendezvous is the consumer event; which side arrived
first is not observable).

Results: the invariant `Chan.Inv … (some 0)` with `buf = []` for every schedule (so all safety consequences
of Channel.lean hold verbatim), and liveness for fair schedules via `Chan.Sys.fair_finishes`. -/
namespace Chan
namespace Zero
variable {σ α : Type}

def prodStep (P : Producer σ α) (c : Cfg σ α) : Cfg σ α :=
  if c.closed then c else
  match (P.out c.p)[c.sent]? with
  | some _ => c          -- blocked in `send` until the receiver takes the message
  | none =>
    if P.done c.p then { c with closed := true, log := c.log ++ [ChEv.close] }
    else { c with p := P.iter c.p, iters := c.iters + 1 }

def consStep (P : Producer σ α) (c : Cfg σ α) : Cfg σ α :=
  if c.consDone then c else
  if c.closed then { c with consDone := true } else
  match (P.out c.p)[c.sent]? with
  | some v => { c with sent := c.sent + 1, got := c.got ++ [v], log := c.log ++ [ChEv.send v] }   -- rendezvous
  | none => c

def step (P : Producer σ α) (c : Cfg σ α) : Ev → Cfg σ α
  | .prod => prodStep P c
  | .cons => consStep P c

def run (P : Producer σ α) (sched : List Ev) (c : Cfg σ α) : Cfg σ α := sched.foldl (step P) c

/-- the invariant of Channel.lean at capacity 0, plus: nothing is ever queued -/
def ZInv (P : Producer σ α) (p0 : σ) (c : Cfg σ α) : Prop := Inv P (some 0) p0 c ∧ c.buf = []

theorem zinv_init (P : Producer σ α) (p0 : σ) : ZInv P p0 (init p0 : Cfg σ α) := ⟨Inv.init P _ p0, rfl⟩

theorem prodStep_inv {P : Producer σ α} (hm : Mono P) {p0 : σ} {c : Cfg σ α} (h : ZInv P p0 c) :
    ZInv P p0 (prodStep P c) := by
  obtain ⟨h, hb⟩ := h
  unfold prodStep
  by_cases hcl : c.closed = true
  · rw [if_pos hcl]; exact ⟨h, hb⟩
  · rw [if_neg hcl]
    have hcl' : c.closed = false := by simpa using hcl
    cases hg : (P.out c.p)[c.sent]? with
    | some v => exact ⟨h, hb⟩
    | none =>
      simp only
      have hge : (P.out c.p).length ≤ c.sent := by
        rcases Nat.lt_or_ge c.sent (P.out c.p).length with x | x
        · rw [List.getElem?_eq_getElem x] at hg; cases hg
        · exact x
      have heq : c.sent = (P.out c.p).length := Nat.le_antisymm h.hs hge
      by_cases hdn : P.done c.p = true
      · rw [if_pos hdn]
        refine ⟨⟨h.hp, h.hs, h.hq, fun _ => ⟨hdn, heq⟩, ?_, h.hcap, ?_⟩, hb⟩
        · intro hc; have := (h.hd hc).1; exact absurd this hcl
        · show c.log ++ [ChEv.close] = _
          rw [h.hlog, hcl']; simp
      · rw [if_neg hdn]
        have hpre := hm c.p
        have hle : (P.out c.p).length ≤ (P.out (P.iter c.p)).length := hpre.length_le
        have htk : (P.out (P.iter c.p)).take c.sent = (P.out c.p).take c.sent := by
          obtain ⟨t, ht⟩ := hpre
          rw [← ht, heq]; simp
        refine ⟨⟨?_, ?_, ?_, ?_, ?_, h.hcap, ?_⟩, hb⟩
        · show P.iter c.p = runG P (c.iters + 1) p0
          show _ = (if P.done (runG P c.iters p0) then runG P c.iters p0 else P.iter (runG P c.iters p0))
          rw [← h.hp, if_neg hdn]
        · show c.sent ≤ (P.out (P.iter c.p)).length
          omega
        · show c.got ++ c.buf = (P.out (P.iter c.p)).take c.sent
          rw [htk]; exact h.hq
        · intro hc; exact absurd hc hcl
        · intro hc; exact h.hd hc
        · show c.log = ((P.out (P.iter c.p)).take c.sent).map ChEv.send ++ (if c.closed then [ChEv.close] else [])
          rw [htk]; exact h.hlog

theorem consStep_inv {P : Producer σ α} {p0 : σ} {c : Cfg σ α} (h : ZInv P p0 c) : ZInv P p0 (consStep P c) := by
  obtain ⟨h, hb⟩ := h
  unfold consStep
  by_cases hcd : c.consDone = true
  · rw [if_pos hcd]; exact ⟨h, hb⟩
  · rw [if_neg hcd]
    by_cases hcl : c.closed = true
    · rw [if_pos hcl]
      exact ⟨⟨h.hp, h.hs, h.hq, h.hc, fun _ => ⟨hcl, hb⟩, h.hcap, h.hlog⟩, hb⟩
    · rw [if_neg hcl]
      have hcl' : c.closed = false := by simpa using hcl
      cases hg : (P.out c.p)[c.sent]? with
      | none => exact ⟨h, hb⟩
      | some v =>
        simp only
        have hlt : c.sent < (P.out c.p).length := by
          rcases Nat.lt_or_ge c.sent (P.out c.p).length with x | x
          · exact x
          · rw [List.getElem?_eq_none x] at hg; cases hg
        refine ⟨⟨h.hp, hlt, ?_, ?_, ?_, ?_, ?_⟩, hb⟩
        · show c.got ++ [v] ++ c.buf = (P.out c.p).take (c.sent + 1)
          have := h.hq
          rw [hb, List.append_nil] at this ⊢
          rw [take_succ_of_get hg, this]
        · intro hc; exact absurd hc hcl
        · intro hc; exact absurd hc hcd
        · intro k hk h1; cases hk; omega
        · show c.log ++ [ChEv.send v] = ((P.out c.p).take (c.sent + 1)).map ChEv.send ++ (if c.closed then [ChEv.close] else [])
          rw [h.hlog, take_succ_of_get hg, hcl']; simp

theorem run_inv {P : Producer σ α} (hm : Mono P) {p0 : σ} (sched : List Ev) :
    ∀ c : Cfg σ α, ZInv P p0 c → ZInv P p0 (run P sched c) := by
  induction sched with
  | nil => intro c h; exact h
  | cons e es ih =>
    intro c h
    cases e with
    | prod => exact ih _ (prodStep_inv hm h)
    | cons => exact ih _ (consStep_inv h)

/-- the rendezvous system as a `Chan.Sys` -/
def sys (P : Producer σ α) (p0 : σ) (N : Nat) : Sys (Cfg σ α) where
  prod := prodStep P
  cons := consStep P
  inv := ZInv P p0
  fin := fun c => c.consDone
  meas := measure N (P.out (runG P N p0)).length

theorem sys_run (P : Producer σ α) (p0 : σ) (N : Nat) (sched : List Ev) (c : Cfg σ α) :
    (sys P p0 N).run sched c = run P sched c := by
  unfold Sys.run run
  congr 1

theorem laws {P : Producer σ α} (hm : Mono P) {p0 : σ} {N : Nat} (hN : P.done (runG P N p0) = true) :
    (sys P p0 N).Laws where
  inv_step := by
    intro c e h
    cases e with
    | prod => exact prodStep_inv hm h
    | cons => exact consStep_inv h
  progress := by
    intro c e h
    obtain ⟨h, hb⟩ := h
    have hfin := sent_le_final hm hN h
    cases e with
    | prod =>
      show prodStep P c = c ∨ measure N _ (prodStep P c) < measure N _ c
      unfold prodStep
      by_cases hcl : c.closed = true
      · left; rw [if_pos hcl]
      · rw [if_neg hcl]
        have hcl' : c.closed = false := by simpa using hcl
        cases hg : (P.out c.p)[c.sent]? with
        | some v => left; rfl
        | none =>
          simp only
          right
          by_cases hdn : P.done c.p = true
          · rw [if_pos hdn]
            simp only [measure, hcl']
            simp
          · rw [if_neg hdn]
            have : c.iters < N := by
              apply not_done_lt hN
              rw [← h.hp]; simpa using hdn
            simp only [measure]
            omega
    | cons =>
      show consStep P c = c ∨ measure N _ (consStep P c) < measure N _ c
      unfold consStep
      by_cases hcd : c.consDone = true
      · left; rw [if_pos hcd]
      · rw [if_neg hcd]
        have hcd' : c.consDone = false := by simpa using hcd
        by_cases hcl : c.closed = true
        · right; rw [if_pos hcl]
          simp only [measure, hcd']
          simp
        · rw [if_neg hcl]
          cases hg : (P.out c.p)[c.sent]? with
          | none => left; rfl
          | some v =>
            right
            simp only
            have hlt : c.sent < (P.out c.p).length := by
              rcases Nat.lt_or_ge c.sent (P.out c.p).length with x | x
              · exact x
              · rw [List.getElem?_eq_none x] at hg; cases hg
            have hl := congrArg List.length h.hq
            rw [hb] at hl
            simp at hl
            simp only [measure, List.length_append, List.length_cons, List.length_nil]
            omega
  nodead := by
    intro c h hcd
    have hcd : c.consDone = false := hcd
    by_cases hcl : c.closed = true
    · right
      show consStep P c ≠ c
      unfold consStep
      rw [hcd]; simp only [Bool.false_eq_true, if_false, hcl, if_true]
      intro e
      have := congrArg (fun x => x.consDone) e
      simp [hcd] at this
    · cases hg : (P.out c.p)[c.sent]? with
      | some v =>
        right
        show consStep P c ≠ c
        unfold consStep
        rw [hcd]; simp only [Bool.false_eq_true, if_false, hcl, hg]
        intro e
        have := congrArg (fun x => x.sent) e
        simp at this
      | none =>
        left
        show prodStep P c ≠ c
        unfold prodStep
        rw [if_neg hcl]
        simp only [hg]
        by_cases hdn : P.done c.p = true
        · rw [if_pos hdn]
          intro e
          have := congrArg (fun x => x.closed) e
          simp at this; exact hcl this
        · rw [if_neg hdn]
          intro e
          have := congrArg (fun x => x.iters) e
          simp at this
  fin_stays := by
    intro c e h
    have h : c.consDone = true := h
    cases e with
    | prod =>
      show (prodStep P c).consDone = true
      unfold prodStep
      split
      · exact h
      · split
        · exact h
        · split <;> exact h
    | cons =>
      show (consStep P c).consDone = true
      unfold consStep
      rw [if_pos h]; exact h
  pos := by
    intro c h
    have h : c.consDone = false := h
    show 0 < measure N _ c
    simp [measure, h]

/-- **delivery through a rendezvous channel.** For every schedule: (1) what the consumer has received is a
prefix of the final output and nothing is queued; (2) once the sender is dropped everything has been received
and the log at the sending end is one `send` per result, in order, then the `close`; (3) when the consumer's
iteration has ended it has received exactly the final output; (4) every schedule with enough fair rounds ends
the consumer's iteration. -/
theorem delivers {P : Producer σ α} (hm : Mono P) {p0 : σ} {N : Nat} (hN : P.done (runG P N p0) = true)
    (sched : List Ev) :
    let c := run P sched (init p0)
    let res := P.out (runG P N p0)
    (c.got <+: res ∧ c.buf = []) ∧
    (c.closed = true → c.got = res ∧ c.log = res.map ChEv.send ++ [ChEv.close]) ∧
    (c.consDone = true → c.got = res ∧ c.closed = true) ∧
    (∀ m, Fair m sched → N + res.length + 1 + res.length + 1 ≤ m → c.consDone = true) := by
  intro c res
  have hi : ZInv P p0 c := run_inv hm sched _ (zinv_init P p0)
  refine ⟨⟨got_prefix hm hN hi.1, hi.2⟩, ?_, ?_, ?_⟩
  · intro hcl
    have := closed_all_sent hN hi.1 hcl
    rw [hi.2, List.append_nil] at this
    exact ⟨this, closed_log hN hi.1 hcl⟩
  · intro hcd
    have := finished_exact hN hi.1 hcd
    exact ⟨this.1, this.2.1⟩
  · intro m hf hle
    have := Sys.fair_finishes (laws hm hN) m sched hf (init p0) (zinv_init P p0)
      (by show measure N _ (init p0 : Cfg σ α) ≤ m; rw [measure_init]; exact hle)
    rw [sys_run] at this
    exact this

/-- the toy producer of Channel.lean (emits `0, 10, 20`) through `bounded(0)`: each message is handed over at a
consumer step; the producer's steps in between are blocked -/
example :
    let c := run toy [.prod, .prod, .prod, .cons, .prod, .prod, .cons, .prod, .cons, .cons, .prod, .prod, .cons] (init 0)
    c.got = [0, 10, 20] ∧ c.consDone = true ∧ c.buf = [] ∧
    c.log = [ChEv.send 0, ChEv.send 10, ChEv.send 20, ChEv.close] := by decide

/-- blocked in `send`: producer steps alone never get past the first message -/
example : (run toy [.prod, .prod, .prod, .prod, .prod] (init 0)).sent = 0 ∧
    (run toy [.prod, .prod, .prod, .prod, .prod] (init 0)).iters = 1 := by decide

end Zero
end Chan
