import Std.Data.HashSet
import AdfObdd.WfCheck
/-! A linear-time version of the verified table checker `wfCheck` (`WfCheck.lean`): the same
    per-node test `nodeOK`, one pass over the inner positions, duplicates detected with a hash
    set of the nodes seen so far instead of the quadratic `noDupFrom`. Proved: sound
    (`wfCheckFast_sound`), complete (`wfCheckFast_complete`: no false alarm on a well-formed
    table), and equal to `wfCheck` as a function (`wfCheckFast_eq_wfCheck`; `wfCheck` is complete
    as well, `wfCheck_complete`). Core + Std only, so that the test driver can call it on dumped
    real tables with 100 000+ nodes. -/

/-- the pass: `k` positions are left, `i` is the next one, `seen` holds the nodes at the inner
positions before `i`. Tail recursive; the set is used linearly (updated in place when compiled). -/
def wfLoop (ns : Array Node) : Nat → Nat → Std.HashSet Node → Bool
  | 0, _, _ => true
  | k+1, i, seen =>
    match ns[i]? with
    | none => true
    | some n =>
      if nodeOK ns i n && !seen.contains n then wfLoop ns k (i+1) (seen.insert n) else false

/-- the fast checker: the two terminals are in place, every inner node passes `nodeOK`, no inner
node occurs twice -/
def wfCheckFast (ns : Array Node) : Bool :=
  decide (2 ≤ ns.size) && decide (ns[0]? = some ⟨VBOT, 0, 0⟩) && decide (ns[1]? = some ⟨VTOP, 1, 1⟩) &&
  wfLoop ns (ns.size - 2) 2 (Std.HashSet.emptyWithCapacity ns.size)

/-! ### soundness -/

/-- what a positive pass over the positions `i … i+k-1` establishes -/
theorem wfLoop_sound (ns : Array Node) : ∀ (k i : Nat) (seen : Std.HashSet Node),
    wfLoop ns k i seen = true →
    ∀ j n, i ≤ j → j < i + k → ns[j]? = some n →
      nodeOK ns j n = true ∧ seen.contains n = false ∧
      ∀ j', j < j' → j' < i + k → ns[j']? ≠ some n := by
  intro k
  induction k with
  | zero => intro i seen _ j n h1 h2; omega
  | succ k ih =>
    intro i seen hl j n hij hjk hn
    unfold wfLoop at hl
    cases hi : ns[i]? with
    | none =>
      -- position `i` is beyond the table, so is `j`
      have h1 : ns.size ≤ i := by
        rcases Nat.lt_or_ge i ns.size with h | h
        · have := Array.getElem?_eq_getElem h; rw [hi] at this; cases this
        · exact h
      have := lt_of_get hn
      omega
    | some ni =>
      simp only [hi] at hl
      split at hl
      · rename_i hc
        simp only [Bool.and_eq_true, Bool.not_eq_true'] at hc
        have hrec := ih (i+1) (seen.insert ni) hl
        rcases Nat.lt_or_ge i j with hlt | hge
        · -- a later position: from the recursive call; not in `seen.insert ni` ⊇ `seen`
          have ⟨a, b, c⟩ := hrec j n (by omega) (by omega) hn
          rw [Std.HashSet.contains_insert] at b
          simp only [Bool.or_eq_false_iff] at b
          exact ⟨a, b.2, fun j' h1 h2 => c j' h1 (by omega)⟩
        · -- position `i` itself
          have : j = i := by omega
          subst this
          rw [hi] at hn
          have := Option.some.inj hn
          subst this
          refine ⟨hc.1, hc.2, ?_⟩
          intro j' h1 h2 hj'
          have ⟨_, b, _⟩ := hrec j' ni (by omega) (by omega) hj'
          rw [Std.HashSet.contains_insert] at b
          simp at b
      · cases hl

theorem wfCheckFast_sound (ns : Array Node) (h : wfCheckFast ns = true) : TableWF ns := by
  unfold wfCheckFast at h
  simp only [Bool.and_eq_true, decide_eq_true_eq] at h
  obtain ⟨⟨⟨h1, h2⟩, h3⟩, h4⟩ := h
  have key := wfLoop_sound ns (ns.size - 2) 2 _ h4
  refine ⟨h1, h2, h3, ?_, ?_⟩
  · intro i n hi hn
    have hlt := lt_of_get hn
    have hok := (key i n hi (by omega) hn).1
    unfold nodeOK at hok
    simp only [Bool.and_eq_true, decide_eq_true_eq] at hok
    obtain ⟨⟨⟨⟨⟨a, b⟩, c⟩, d⟩, e⟩, f⟩ := hok
    refine ⟨a, b, c, d, ?_, ?_⟩
    · intro m hm; rw [hm] at e; simpa using e
    · intro m hm; rw [hm] at f; simpa using f
  · intro i j n hi hj hni hnj
    have hli := lt_of_get hni
    have hlj := lt_of_get hnj
    rcases Nat.lt_trichotomy i j with hlt | heq | hgt
    · exact absurd hnj ((key i n hi (by omega) hni).2.2 j hlt (by omega))
    · exact heq
    · exact absurd hni ((key j n hj (by omega) hnj).2.2 i hgt (by omega))

/-! ### completeness -/

theorem nodeOK_complete (ns : Array Node) (h : TableWF ns) (i : Nat) (n : Node) (hi : 2 ≤ i)
    (hn : ns[i]? = some n) : nodeOK ns i n = true := by
  have ⟨a, b, c, d, e, f⟩ := h.inner i n hi hn
  have hlt := lt_of_get hn
  obtain ⟨ml, hml⟩ := get_of_lt (ns := ns) (i := n.lo) (by omega)
  obtain ⟨mh, hmh⟩ := get_of_lt (ns := ns) (i := n.hi) (by omega)
  unfold nodeOK
  simp only [hml, hmh, Bool.and_eq_true, decide_eq_true_eq]
  exact ⟨⟨⟨⟨⟨a, b⟩, c⟩, d⟩, e ml hml⟩, f mh hmh⟩

/-- on a well-formed table the pass succeeds from any position whose `seen` set holds only nodes
of earlier inner positions -/
theorem wfLoop_complete (ns : Array Node) (h : TableWF ns) : ∀ (k i : Nat) (seen : Std.HashSet Node),
    2 ≤ i → (∀ n, seen.contains n = true → ∃ j, 2 ≤ j ∧ j < i ∧ ns[j]? = some n) →
    wfLoop ns k i seen = true := by
  intro k
  induction k with
  | zero => intro i seen _ _; rfl
  | succ k ih =>
    intro i seen hi hseen
    unfold wfLoop
    cases hn : ns[i]? with
    | none => rfl
    | some n =>
      simp only
      have hnot : seen.contains n = false := by
        cases hc : seen.contains n with
        | false => rfl
        | true =>
          obtain ⟨j, hj2, hji, hjn⟩ := hseen n hc
          have := h.nodup i j n hi hj2 hn hjn
          omega
      rw [nodeOK_complete ns h i n hi hn, hnot]
      simp only [Bool.not_false, Bool.and_self, if_true]
      apply ih (i+1) _ (by omega)
      intro m hm
      rw [Std.HashSet.contains_insert] at hm
      simp only [Bool.or_eq_true, beq_iff_eq] at hm
      rcases hm with e | hm
      · exact ⟨i, hi, by omega, e ▸ hn⟩
      · obtain ⟨j, a, b, c⟩ := hseen m hm
        exact ⟨j, a, by omega, c⟩

/-- no false alarm: a well-formed table passes -/
theorem wfCheckFast_complete (ns : Array Node) (h : TableWF ns) : wfCheckFast ns = true := by
  unfold wfCheckFast
  simp only [Bool.and_eq_true, decide_eq_true_eq]
  refine ⟨⟨⟨h.len, h.bot⟩, h.top⟩, ?_⟩
  apply wfLoop_complete ns h _ 2 _ (Nat.le_refl _)
  intro n hn
  rw [Std.HashSet.contains_emptyWithCapacity] at hn
  cases hn

theorem wfCheckFast_iff (ns : Array Node) : wfCheckFast ns = true ↔ TableWF ns :=
  ⟨wfCheckFast_sound ns, wfCheckFast_complete ns⟩

/-! ### the quadratic checker is complete too, so the two are the same function -/

theorem wfCheck_complete (ns : Array Node) (h : TableWF ns) : wfCheck ns = true := by
  unfold wfCheck
  simp only [Bool.and_eq_true, decide_eq_true_eq]
  refine ⟨⟨⟨⟨h.len, h.bot⟩, h.top⟩, ?_⟩, ?_⟩
  · apply List.all_eq_true.mpr
    intro i hi
    have hlt := List.mem_range.mp hi
    simp only [Bool.or_eq_true, decide_eq_true_eq]
    rcases Nat.lt_or_ge i 2 with h2 | h2
    · exact Or.inl h2
    · right
      obtain ⟨n, hn⟩ := get_of_lt hlt
      rw [hn]
      exact nodeOK_complete ns h i n h2 hn
  · unfold noDupFrom
    apply List.all_eq_true.mpr
    intro i hi
    apply List.all_eq_true.mpr
    intro j hj
    have hli := List.mem_range.mp hi
    have hlj := List.mem_range.mp hj
    simp only [Bool.or_eq_true, decide_eq_true_eq]
    rcases Nat.lt_or_ge i 2 with hi2 | hi2
    · exact Or.inl (Or.inl (Or.inl hi2))
    rcases Nat.lt_or_ge j 2 with hj2 | hj2
    · exact Or.inl (Or.inl (Or.inr hj2))
    by_cases hij : i = j
    · exact Or.inl (Or.inr hij)
    · right
      obtain ⟨n, hn⟩ := get_of_lt hli
      intro e
      exact hij (h.nodup i j n hi2 hj2 hn (e ▸ hn))

theorem wfCheck_iff (ns : Array Node) : wfCheck ns = true ↔ TableWF ns :=
  ⟨wfCheck_sound ns, wfCheck_complete ns⟩

/-- the fast checker computes the same verdict as the quadratic one, on every table -/
theorem wfCheckFast_eq_wfCheck (ns : Array Node) : wfCheckFast ns = wfCheck ns := by
  have h := (wfCheckFast_iff ns).trans (wfCheck_iff ns).symm
  cases h1 : wfCheckFast ns <;> cases h2 : wfCheck ns <;> simp_all

/-- what the fast checker buys: on a dumped table that passes it, two handles denote the same
Boolean function iff they are the same handle -/
theorem canonical_of_fast_check (s : Store) (h : wfCheckFast s.nodes = true) (a b : Nat)
    (ha : a < s.nodes.size) (hb : b < s.nodes.size) :
    (∀ σ, eval s a σ = eval s b σ) ↔ a = b :=
  Tab.canonical s (wfCheckFast_sound s.nodes h) a b ha hb

#print axioms wfCheckFast_sound
#print axioms wfCheckFast_complete
#print axioms wfCheckFast_eq_wfCheck
#print axioms canonical_of_fast_check
