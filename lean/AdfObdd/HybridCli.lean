import AdfObdd.HybridEndToEnd
import AdfObdd.CliModes
/-! # The hybrid arm of the CLI as the binary wires it (review 2, item 3)

1. `bin/src/main.rs` (hybrid arm): `naive_adf = adf.hybrid_step()` (PRE-GROUNDED native object),
   then for `--stmrew` / `--stmrew2` `naive_adf.stable_bdd_representation(&adf)`: the candidates come
   from the UN-grounded biodivine object `adf` (`stable_model_candidates`: the prepared rewriting for
   `--stmrew`, `stable_representation()` for `--stmrew2`), the reduct test runs on the pre-grounded
   native store. `Bio.nativeStableRep_exact` (`C03.native_rewriting_exact`) needs both objects to
   denote the SAME functions (`hsame`), which is false for this pairing as soon as grounding decides a
   statement. `Bio.native_rewriting_on_hybrid` is the theorem for the pairing that runs (both values of
   the flag of `hybrid_step_opt`): the printed vectors are exactly the stable models of the ORIGINAL
   conditions, each once.
2. the two models of `from_biodivine_vector` - `Bio.bridgeOne/bridgeAll/hybridStep` (HybridModel.lean,
   the object of the theorems of C01-C03/C09) and `CliM.bridgeOne/bridgeAll/hybridStep` (CliModes.lean,
   what `CliM.runText`, the driver and C15 run) - are THE SAME FUNCTION wherever a non-constant diagram
   has a dump with at least the two terminal entries (`bridgeOne_agree`, `bridgeAll_agree`,
   `hybridStep_agree`); they differ on a one-entry dump of a non-constant diagram (0 vs 1), which
   `Bio.DumpSpec` excludes. -/

namespace Bio

theorem getLast_getD (l : List Nat) : l.getLast?.getD 0 = l.getD (l.length - 1) 0 := by
  rw [List.getLast?_eq_getElem?]; simp [List.getD]

/-! ## the two bridge models -/

/-- one entry: the CLI model's bridge is the hybrid model's bridge as soon as the dump of a diagram
that is neither `is_true` nor `is_false` has its two terminal entries -/
theorem bridgeOne_agree {T : Type} (L : Lib T) (dump : T → List Node) (s : Store) (t : T)
    (h : L.isTrue t = false → L.isFalse t = false → 2 ≤ (dump t).length) :
    CliM.bridgeOne L dump s t = Bio.bridgeOne L dump s t := by
  unfold CliM.bridgeOne Bio.bridgeOne
  by_cases h1 : L.isTrue t = true
  · simp [h1]
  · by_cases h0 : L.isFalse t = true
    · simp [h1, h0]
    · simp only [h1, h0, if_false, Bool.false_eq_true]
      rw [termVec_eq _ _ (h (by simpa using h1) (by simpa using h0))]
      simp only [getLast_getD]

/-- the accumulator form of the CLI model against the structural recursion of the hybrid model -/
theorem bridgeAll_agree {T : Type} (L : Lib T) (dump : T → List Node) :
    ∀ (ts : List T) (s : Store) (acc : List Nat),
    (∀ t ∈ ts, L.isTrue t = false → L.isFalse t = false → 2 ≤ (dump t).length) →
    CliM.bridgeAll L dump ts s acc = ((Bio.bridgeAll L dump ts s).1, acc ++ (Bio.bridgeAll L dump ts s).2) := by
  intro ts
  induction ts with
  | nil => intro s acc _; simp [CliM.bridgeAll, Bio.bridgeAll]
  | cons t ts ih =>
    intro s acc h
    simp only [CliM.bridgeAll, Bio.bridgeAll]
    rw [bridgeOne_agree L dump s t (h t (List.mem_cons_self ..)),
      ih _ _ (fun x hx => h x (List.mem_cons_of_mem _ hx))]
    simp

/-- **`CliM.hybridStep` IS `Bio.hybridStep … true`** (= `hybrid_step()`, what the CLI calls) for every
lawful library whose dump satisfies `DumpSpec`: the hybrid theorems of C01-C03/C09 are about the
function the driver runs -/
theorem hybridStep_agree {T : Type} {L : Lib T} {n : Nat} (W : Lawful L n) {dump : T → List Node}
    (hd : DumpSpec W dump) (ac : List T) (hv : ∀ a ∈ ac, W.Valid a) (hn : ac.length ≤ n) :
    CliM.hybridStep L dump ac = Bio.hybridStep L dump true ac := by
  have ⟨gv, _, _, _⟩ := groundedInternal_pre W ac hv hn
  unfold CliM.hybridStep Bio.hybridStep fromBiodivineVector
  rw [bridgeAll_agree L dump _ _ _ (fun t ht h1 h0 => (hd.ok t (gv t ht) h1 h0).2.1)]
  simp

/-! ## `stable_bdd_representation(&biodivine)` on the hybrid-built object -/

/-- a two-valued model of the pre-grounded conditions is a model of the original ones -/
theorem modelOf_pre {D : List BoolFn} {g : I3} (hg : IsLfp D g) (σ : Asg) (h : ModelOf (pre D g) σ) :
    ModelOf D σ := by
  have sf := selfForced_of_fix hg.1
  have ag : Agree σ g := by
    intro i b hi
    have hl : g.length = D.length := Bio.lfp_len hg
    have hiD : i < D.length := by
      rcases Nat.lt_or_ge i g.length with h' | h'
      · omega
      · rw [List.getElem?_eq_none h'] at hi; cases hi
    have hf : D[i]? = some D[i] := List.getElem?_eq_getElem hiD
    have := h i _ (pre_get D g i _ hf)
    rw [← this]
    exact sf i b _ hi hf σ
  intro i f hf
  have := h i _ (pre_get D g i f hf)
  rw [over_of_agree ag] at this
  exact this

/-- **the rewriting variants as the hybrid arm of the CLI runs them**: native object from
`hybrid_step_opt(opt)` (the CLI: `opt = true`, pre-grounded), candidates from the ORIGINAL biodivine
object (`rw = some r`: prepared rewriting, `--stmrew`; `rw = none`: `stable_representation()`,
`--stmrew2`), reduct test on the native store. No duplicate, exactly the stable models of the original
conditions. -/
theorem native_rewriting_on_hybrid {T : Type} {L : Lib T} {n : Nat} (W : Lawful L n) {dump : T → List Node}
    (hd : DumpSpec W dump) (opt : Bool) (rw : Option T) (ac : List T) (hv : ∀ a ∈ ac, W.Valid a)
    (hn : ac.length = n) (hgr : GoodRewrite W ac rw) :
    let r := hybridStep L dump opt ac
    let res := nativeStableRep r.1 n r.2 (stableModelCandidates L rw ac)
    let out := res.2.map (fun v => v.map storeIsConst)
    (WF res.1 ∧ Ext r.1 res.1) ∧ out.Nodup ∧
    ∀ v : I3, v ∈ out ↔ (v.length = n ∧ StableExact.StableI (ac.map W.den) v) := by
  intro r res out
  obtain ⟨w, hl, hlt, g, hg, _, e⟩ := hybridStep_spec W hd opt ac hv hn
  obtain ⟨R, vals, hR, hs, he⟩ := candidates_enum W rw ac hv hn hgr
  have hc : ∀ c ∈ stableModelCandidates L rw ac, c.length = n ∧ ∀ i, i < c.length → c.getD i 0 < 2 := by
    intro c hc
    rw [he] at hc
    obtain ⟨val, hval, rfl⟩ := List.mem_map.mp hc
    exact ⟨by have := ((hs.2 val).mp hval).1; simpa [toTerms] using this, toTerms_total val⟩
  have ⟨a, b⟩ := nativeStableRep_filter r.1 n r.2 w hl hlt _ hc
  have hR' : ∀ σ, ModelOf (r.2.map (eval r.1)) σ → R σ = true := by
    intro σ hm
    apply hR
    rw [e] at hm
    cases opt with
    | false => simpa using hm
    | true => exact modelOf_pre hg σ (by simpa using hm)
  have key := rep_answers (r.2.map (eval r.1)) n (by rw [List.length_map]; exact hl) R hR' vals hs _
    (fun c _ _ => StableExact.verdict_iff _ c)
  refine ⟨a, ?_⟩
  show ((nativeStableRep r.1 n r.2 (stableModelCandidates L rw ac)).2.map _).Nodup ∧
    ∀ v : I3, v ∈ (nativeStableRep r.1 n r.2 (stableModelCandidates L rw ac)).2.map _ ↔ _
  rw [b, he]
  refine ⟨key.1, fun v => ?_⟩
  rw [key.2 v, (hyb_transfer opt hg e).2.2 v]

end Bio
