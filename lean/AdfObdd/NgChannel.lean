import AdfObdd.NgEndToEnd
import AdfObdd.Channel
/-! # The channel variants of the nogood-learning search

`nogood_internal(…, s: Sender)` as a `Chan.Producer`: one producer step is one iteration of the `loop`
(`NConc.cIter`, i.e. `SM.ngIter` for the built-in heuristics); the iteration that finds a model appends
it to `out`, and the next producer step is the `s.send(cur_interpr.clone())` of that model (in the Rust
the send sits inside the iteration; nothing observable happens between the two); when the loop has
broken and everything is sent the function returns and drops `s`.

* `stable_nogood_channel` / `two_val_nogood_channel`: `stable = true / false`, any capacity, any schedule
  (the consumer is another thread);
* `stable_nogood`: unbounded channel, the sequential schedule (`Chan.sequential_exact`). -/
namespace NConc

def ngProducer (hc : CHeu) (n : Nat) (ac : List Nat) (stable : Bool) : Chan.Producer SM.NgS (List Nat) :=
  { iter := cIter hc n ac stable, done := fun st => st.done, out := fun st => st.out }

theorem cChoice_out (hc : CHeu) (st : SM.NgS) : (cChoice hc st).out = st.out := by
  unfold cChoice
  split
  · split <;> rfl
  · rfl

theorem cBack_out (st : SM.NgS) : (cBack st).out = st.out := by
  unfold cBack
  split <;> rfl

theorem cClass_out (n : Nat) (ac : List Nat) (stable : Bool) (st : SM.NgS) :
    (cClass n ac stable st).out = st.out ∨ (cClass n ac stable st).out = st.out ++ [st.cur] := by
  unfold cClass
  by_cases h1 : (!(st.cur.all isTV)) = true
  · rw [if_pos h1]; left; rfl
  · rw [if_neg h1]
    simp only
    by_cases h2 : (if stable then stabilityCheck st.s n ac st.cur else (st.s, true)).2 = true
    · rw [if_pos h2]; right; rfl
    · rw [if_neg h2]; left; rfl

theorem cProp_out (n : Nat) (ac : List Nat) (stable : Bool) (st : SM.NgS) (u : Bool) :
    st.out <+: (cProp n ac stable st u).out := by
  unfold cProp
  simp only
  split
  · exact List.prefix_refl _
  · split
    · exact List.prefix_refl _
    · rcases cClass_out n ac stable { st with s := (applyInterp st.s st.cur st.cur).1, cur := (applyInterp st.s st.cur st.cur).2 } with h | h
      · rw [h]; exact List.prefix_refl _
      · rw [h]; exact List.prefix_append _ _

theorem cFinal_out (n : Nat) (ac : List Nat) (stable : Bool) (st : SM.NgS) (u : Bool) :
    st.out <+: (cFinal n ac stable st u).out := by
  unfold cFinal
  simp only
  split
  · exact List.prefix_refl _
  · exact cProp_out n ac stable { st with s := (applyInterp st.s st.cur ac).1 } u

theorem cTail_out (n : Nat) (ac : List Nat) (stable : Bool) (st : SM.NgS) :
    st.out <+: (cTail n ac stable st).out := by
  unfold cTail
  cases SM.closureF st.buckets st.cur with
  | inconsistent => exact List.prefix_refl _
  | update r => exact cFinal_out n ac stable { st with cur := r, stack := (false, toPA r) :: st.stack } true
  | noUpdate => exact cFinal_out n ac stable st false

/-- an iteration of the loop leaves the emitted list alone or appends to it -/
theorem cIter_out_prefix (hc : CHeu) (n : Nat) (ac : List Nat) (stable : Bool) (st : SM.NgS) :
    st.out <+: (cIter hc n ac stable st).out := by
  unfold cIter
  simp only
  split
  · show st.out <+: (cChoice hc st).out
    rw [cChoice_out]; exact List.prefix_refl _
  · have := cTail_out n ac stable (cBack (cChoice hc st))
    rw [cBack_out, cChoice_out] at this
    exact this

theorem ngProducer_mono (hc : CHeu) (n : Nat) (ac : List Nat) (stable : Bool) : Chan.Mono (ngProducer hc n ac stable) :=
  fun st => cIter_out_prefix hc n ac stable st

theorem runG_eq_cRun (hc : CHeu) (n : Nat) (ac : List Nat) (stable : Bool) (st : SM.NgS) :
    ∀ k, Chan.runG (ngProducer hc n ac stable) k st = cRun hc n ac stable k st := by
  intro k
  induction k with
  | zero => rfl
  | succ k ih =>
    rw [cRun_succ]
    show (if (Chan.runG (ngProducer hc n ac stable) k st).done = true then Chan.runG (ngProducer hc n ac stable) k st
          else cIter hc n ac stable (Chan.runG (ngProducer hc n ac stable) k st)) = _
    rw [ih]

/-- the configuration of search + channel + consumer after a schedule -/
def chanRun (hc : CHeu) (cap : Option Nat) (sched : List Chan.Ev) (s : Store) (n : Nat) (ac : List Nat) (stable : Bool) :
    Chan.Cfg SM.NgS (List Nat) :=
  Chan.run (ngProducer hc n ac stable) cap sched (Chan.init (initC s n ac))

section chan
variable (hc : CHeu) (cap : Option Nat) (s : Store) (n : Nat) (ac : List Nat) (stable : Bool)

theorem chanRun_inv (sched : List Chan.Ev) :
    Chan.Inv (ngProducer hc n ac stable) cap (initC s n ac) (chanRun hc cap sched s n ac stable) :=
  Chan.run_inv (ngProducer_mono hc n ac stable) sched _ (Chan.Inv.init _ cap _)

theorem done_runG {fuel : Nat} (hd : (cSearch hc fuel s n ac stable).2.2.2 = true) :
    (ngProducer hc n ac stable).done (Chan.runG (ngProducer hc n ac stable) fuel (initC s n ac)) = true := by
  rw [runG_eq_cRun]; exact hd

theorem out_runG (fuel : Nat) :
    (ngProducer hc n ac stable).out (Chan.runG (ngProducer hc n ac stable) fuel (initC s n ac)) =
      (cSearch hc fuel s n ac stable).2.1 := by
  rw [runG_eq_cRun]; rfl

/-- **channel variants, all at once.** If the search halts within `fuel` (it does: `search_exact_any_heuristic`),
then for EVERY capacity and EVERY schedule of producer and consumer steps:
1. what the consumer has received so far, followed by what is queued, is a prefix of the list the search returns;
2. if the sender has been dropped, every model has been sent: received ++ queued = the whole list, and the
   sequence of events at the sending end is one `send` per model, in order, followed by the `close` - nothing
   is sent after it;
3. as long as the sender has not been dropped the log contains no `close`;
4. if the consumer's iteration has ended, it has received exactly the list the search returns (same order,
   same multiplicities), the channel is closed and empty;
5. (capacity ≥ 1) a schedule with enough fair rounds ends the consumer's iteration. -/
theorem channel_delivers {fuel : Nat} (hd : (cSearch hc fuel s n ac stable).2.2.2 = true) (sched : List Chan.Ev) :
    let c := chanRun hc cap sched s n ac stable
    let res := (cSearch hc fuel s n ac stable).2.1
    (c.got ++ c.buf <+: res) ∧
    (c.closed = true → c.got ++ c.buf = res ∧ c.log = res.map Chan.ChEv.send ++ [Chan.ChEv.close]) ∧
    (c.closed = false → ∀ e ∈ c.log, e ≠ Chan.ChEv.close) ∧
    (c.consDone = true → c.got = res ∧ c.closed = true ∧ c.buf = []) ∧
    ((∀ k, cap = some k → 1 ≤ k) → ∀ m, Chan.Fair m sched → fuel + res.length + 1 + res.length + 1 ≤ m →
        c.consDone = true) := by
  intro c res
  have hm := ngProducer_mono hc n ac stable
  have hN := done_runG hc s n ac stable hd
  have hinv := chanRun_inv hc cap s n ac stable sched
  have hres : res = (ngProducer hc n ac stable).out (Chan.runG (ngProducer hc n ac stable) fuel (initC s n ac)) :=
    (out_runG hc s n ac stable fuel).symm
  refine ⟨?_, ?_, ?_, ?_, ?_⟩
  · rw [hres]; exact Chan.got_buf_prefix hm hN hinv
  · intro hcl
    rw [hres]; exact ⟨Chan.closed_all_sent hN hinv hcl, Chan.closed_log hN hinv hcl⟩
  · exact Chan.open_log hinv
  · intro hcd
    rw [hres]; exact Chan.finished_exact hN hinv hcd
  · intro hcap m hf hle
    apply Chan.fair_finishes hm hN hcap m sched hf _ (Chan.Inv.init _ cap _)
    rw [Chan.measure_init, ← hres]; exact hle

/-- the iterator variant `stable_nogood`: unbounded channel, the whole search first (`a` producer steps), then
`r.iter().collect()` (`b` consumer steps): the collection ends and is exactly the list the search returns -/
theorem iterator_variant {fuel : Nat} (hd : (cSearch hc fuel s n ac stable).2.2.2 = true) (a b : Nat)
    (ha : fuel + (cSearch hc fuel s n ac stable).2.1.length + 1 ≤ a)
    (hb : (cSearch hc fuel s n ac stable).2.1.length + 1 ≤ b) :
    let c := chanRun hc none (List.replicate a Chan.Ev.prod ++ List.replicate b Chan.Ev.cons) s n ac stable
    c.consDone = true ∧ c.got = (cSearch hc fuel s n ac stable).2.1 := by
  have hm := ngProducer_mono hc n ac stable
  have hN := done_runG hc s n ac stable hd
  have hres := out_runG hc s n ac stable fuel
  have := Chan.sequential_exact hm hN a b (by rw [hres]; exact ha) (by rw [hres]; exact hb)
  rw [hres] at this
  exact this

end chan

/-- further producer/consumer steps after the sender was dropped change neither the log nor what was delivered -/
theorem channel_frozen_after_close (hc : CHeu) (cap : Option Nat) (s : Store) (n : Nat) (ac : List Nat) (stable : Bool)
    (sched more : List Chan.Ev) (hcl : (chanRun hc cap sched s n ac stable).closed = true) :
    (chanRun hc cap (sched ++ more) s n ac stable).closed = true ∧
    (chanRun hc cap (sched ++ more) s n ac stable).log = (chanRun hc cap sched s n ac stable).log ∧
    (chanRun hc cap (sched ++ more) s n ac stable).got ++ (chanRun hc cap (sched ++ more) s n ac stable).buf =
      (chanRun hc cap sched s n ac stable).got ++ (chanRun hc cap sched s n ac stable).buf := by
  unfold chanRun at hcl ⊢
  rw [Chan.run_append]
  exact Chan.closed_frozen _ cap more _ hcl

end NConc
