import AdfObdd.Parser6

namespace ParserM
/-! necessary conditions every accepted text satisfies, as executable scanners — so that whole
    classes of malformed texts are rejected: missing terminator, leading blanks, unbalanced
    brackets, wrong arity / unknown connective, trailing garbage -/

/-! ### shape of the ends of a file -/

theorem DerFile.nil_text {t : List Char} (h : DerFile [] t) : t = [] := by cases h; rfl

theorem DerFact.ends {x : Fact} {s : List Char} (h : DerFact x s) : ∃ pre w, s = pre ++ '.' :: w ∧ AllWs w := by
  cases h with
  | stmt l sl w _ hw => exact ⟨['s','('] ++ sl ++ [')'], w, by simp, hw⟩
  | ac l sl f s' w1 w2 w _ _ _ _ hw =>
    exact ⟨['a','c','('] ++ sl ++ w1 ++ [','] ++ w2 ++ s' ++ [')'], w, by simp, hw⟩

theorem DerFile.ends {fs : List Fact} {t : List Char} (h : DerFile fs t) (hne : fs ≠ []) :
    ∃ pre w, t = pre ++ '.' :: w ∧ AllWs w := by
  induction h with
  | nil => exact absurd rfl hne
  | cons x xs s t' hx hxs ih =>
    cases xs with
    | nil =>
      obtain ⟨pre, w, e, hw⟩ := hx.ends
      exact ⟨pre, w, by rw [hxs.nil_text, List.append_nil, e], hw⟩
    | cons y ys =>
      obtain ⟨pre, w, e, hw⟩ := ih (by simp)
      exact ⟨s ++ pre, w, by rw [e, List.append_assoc], hw⟩

/-- the last character that is not a blank is the terminator `.` -/
def endsWithDot (cs : List Char) : Bool := (cs.reverse.dropWhile isWs).head? == some '.'

theorem endsWithDot_of (pre w : List Char) (hw : AllWs w) : endsWithDot (pre ++ '.' :: w) = true := by
  unfold endsWithDot
  have e : (pre ++ '.' :: w).reverse = w.reverse ++ ('.' :: pre.reverse) := by simp
  rw [e, dropWhile_ws w.reverse ('.' :: pre.reverse) (fun c hc => hw c (List.mem_reverse.mp hc))
    (by intro c hc; simp at hc; subst hc; decide)]
  rfl

theorem DerFile.starts {x : Fact} {xs : List Fact} {t : List Char} (h : DerFile (x :: xs) t) :
    t.head? = some 's' ∨ t.head? = some 'a' := by
  cases h with
  | cons _ _ s t' hx _ =>
    cases hx with
    | stmt l sl w _ _ => left; simp
    | ac l sl f s' w1 w2 w _ _ _ _ _ => right; simp

/-! ### brackets outside quoted labels are balanced -/

/-- `bal q d cs`: scanning `cs` with `q` = inside a quoted label and `d` open brackets never closes
a bracket that is not open, and ends outside quotes with no bracket open -/
def bal : Bool → Nat → List Char → Bool
  | q, d, [] => !q && d == 0
  | true, d, c :: cs => if c = '"' then bal false d cs else bal true d cs
  | false, d, c :: cs =>
    if c = '"' then bal true d cs
    else if c = '(' then bal false (d + 1) cs
    else if c = ')' then (match d with
      | 0 => false
      | d' + 1 => bal false d' cs)
    else bal false d cs

def balanced (cs : List Char) : Bool := bal false 0 cs

def Plain (c : Char) : Prop := c ≠ '"' ∧ c ≠ '(' ∧ c ≠ ')' ∧ c ≠ ','

theorem alnum_plain {c : Char} (h : isAlnum c = true) : Plain c := by
  refine ⟨alnum_not_quote h, alnum_not_paren h, ?_, ?_⟩ <;>
  · intro e; subst e; simp [isAlnum, Char.isAlphanum, Char.isAlpha, Char.isUpper, Char.isLower, Char.isDigit] at h

theorem ws_plain {c : Char} (h : isWs c = true) : Plain c ∧ isAlnum c = false := by
  simp [isWs] at h
  rcases h with ((rfl | rfl) | rfl) | rfl <;> exact ⟨⟨by decide, by decide, by decide, by decide⟩, by decide⟩

theorem bal_plain (d : Nat) : ∀ (w r : List Char), (∀ c ∈ w, c ≠ '"' ∧ c ≠ '(' ∧ c ≠ ')') →
    bal false d (w ++ r) = bal false d r := by
  intro w
  induction w with
  | nil => intro r _; rfl
  | cons c w ih =>
    intro r h
    obtain ⟨h1, h2, h3⟩ := h c (List.mem_cons_self ..)
    simp only [List.cons_append, bal, h1, h2, h3, if_false]
    exact ih r (fun x hx => h x (List.mem_cons_of_mem _ hx))

theorem bal_inq (d : Nat) : ∀ (l r : List Char), '"' ∉ l → bal true d (l ++ '"' :: r) = bal false d r := by
  intro l
  induction l with
  | nil => intro r _; simp [bal]
  | cons c l ih =>
    intro r h
    have hc : c ≠ '"' := fun e => h (e ▸ List.mem_cons_self ..)
    simp only [List.cons_append, bal, hc, if_false]
    exact ih r (fun e => h (List.mem_cons_of_mem _ e))

theorem bal_alnum (d : Nat) (w r : List Char) (h : AllAlnum w) : bal false d (w ++ r) = bal false d r :=
  bal_plain d w r (fun c hc => let p := alnum_plain (h c hc); ⟨p.1, p.2.1, p.2.2.1⟩)

theorem bal_ws (d : Nat) (w r : List Char) (h : AllWs w) : bal false d (w ++ r) = bal false d r :=
  bal_plain d w r (fun c hc => let p := (ws_plain (h c hc)).1; ⟨p.1, p.2.1, p.2.2.1⟩)

theorem bal_open (d : Nat) (r : List Char) : bal false d ('(' :: r) = bal false (d + 1) r := by simp [bal]
theorem bal_close (d : Nat) (r : List Char) : bal false (d + 1) (')' :: r) = bal false d r := by simp [bal]
theorem bal_comma (d : Nat) (r : List Char) : bal false d (',' :: r) = bal false d r := by simp [bal]
theorem bal_dot (d : Nat) (r : List Char) : bal false d ('.' :: r) = bal false d r := by simp [bal]

theorem bal_label {l sl : List Char} (h : DerL l sl) (d : Nat) (r : List Char) :
    bal false d (sl ++ r) = bal false d r := by
  cases h with
  | alnum _ hl => exact bal_alnum d _ r hl
  | quoted hq =>
    have e : ['"'] ++ l ++ ['"'] ++ r = '"' :: (l ++ '"' :: r) := by simp
    rw [e]
    simp only [bal, if_true]
    exact bal_inq d l r hq

theorem bal_bin (kw : List Char) (hk : AllAlnum kw) (s1 s2 w1 w2 : List Char) (h1 : AllWs w1) (h2 : AllWs w2)
    (ih1 : ∀ d r, bal false d (s1 ++ r) = bal false d r) (ih2 : ∀ d r, bal false d (s2 ++ r) = bal false d r)
    (d : Nat) (r : List Char) :
    bal false d (kw ++ ['('] ++ s1 ++ w1 ++ [','] ++ w2 ++ s2 ++ [')'] ++ r) = bal false d r := by
  have e : kw ++ ['('] ++ s1 ++ w1 ++ [','] ++ w2 ++ s2 ++ [')'] ++ r =
      kw ++ ('(' :: (s1 ++ (w1 ++ (',' :: (w2 ++ (s2 ++ (')' :: r))))))) := by simp
  rw [e, bal_alnum d kw _ hk, bal_open, ih1, bal_ws _ _ _ h1, bal_comma, bal_ws _ _ _ h2, ih2, bal_close]

/-- a formula text is bracket-neutral -/
theorem bal_formula {f : Fml} {s : List Char} (h : DerF f s) : ∀ (d : Nat) (r : List Char),
    bal false d (s ++ r) = bal false d r := by
  induction h with
  | top => intro d r; simp [bal]
  | bot => intro d r; simp [bal]
  | atom l s hl => intro d r; exact bal_label hl d r
  | not f s _ ih =>
    intro d r
    have e : ['n','e','g','('] ++ s ++ [')'] ++ r = ['n','e','g'] ++ ('(' :: (s ++ (')' :: r))) := by simp
    rw [e, bal_alnum d _ _ (allAlnum_lit _ (by decide)), bal_open, ih, bal_close]
  | and a b s1 s2 w1 w2 _ _ h1 h2 iha ihb =>
    intro d r
    exact bal_bin ['a','n','d'] (allAlnum_lit _ (by decide)) s1 s2 w1 w2 h1 h2 iha ihb d r
  | or a b s1 s2 w1 w2 _ _ h1 h2 iha ihb =>
    intro d r
    exact bal_bin ['o','r'] (allAlnum_lit _ (by decide)) s1 s2 w1 w2 h1 h2 iha ihb d r
  | imp a b s1 s2 w1 w2 _ _ h1 h2 iha ihb =>
    intro d r
    exact bal_bin ['i','m','p'] (allAlnum_lit _ (by decide)) s1 s2 w1 w2 h1 h2 iha ihb d r
  | xor a b s1 s2 w1 w2 _ _ h1 h2 iha ihb =>
    intro d r
    exact bal_bin ['x','o','r'] (allAlnum_lit _ (by decide)) s1 s2 w1 w2 h1 h2 iha ihb d r
  | iff a b s1 s2 w1 w2 _ _ h1 h2 iha ihb =>
    intro d r
    exact bal_bin ['i','f','f'] (allAlnum_lit _ (by decide)) s1 s2 w1 w2 h1 h2 iha ihb d r

theorem bal_fact {x : Fact} {s : List Char} (h : DerFact x s) (r : List Char) :
    bal false 0 (s ++ r) = bal false 0 r := by
  cases h with
  | stmt l sl w hl hw =>
    have e : ['s','('] ++ sl ++ [')','.'] ++ w ++ r = ['s'] ++ ('(' :: (sl ++ (')' :: ('.' :: (w ++ r))))) := by simp
    rw [e, bal_alnum 0 _ _ (allAlnum_lit _ (by decide)), bal_open, bal_label hl, bal_close, bal_dot, bal_ws _ _ _ hw]
  | ac l sl f s' w1 w2 w hl hf h1 h2 hw =>
    have e : ['a','c','('] ++ sl ++ w1 ++ [','] ++ w2 ++ s' ++ [')','.'] ++ w ++ r =
        ['a','c'] ++ ('(' :: (sl ++ (w1 ++ (',' :: (w2 ++ (s' ++ (')' :: ('.' :: (w ++ r))))))))) := by simp
    rw [e, bal_alnum 0 _ _ (allAlnum_lit _ (by decide)), bal_open, bal_label hl, bal_ws _ _ _ h1, bal_comma,
      bal_ws _ _ _ h2, bal_formula hf, bal_close, bal_dot, bal_ws _ _ _ hw]

/-- in every text of the grammar the brackets outside quoted labels are balanced -/
theorem DerFile.balanced {fs : List Fact} {t : List Char} (h : DerFile fs t) : balanced t = true := by
  unfold ParserM.balanced
  induction h with
  | nil => rfl
  | cons x xs s t' hx _ ih => rw [bal_fact hx]; exact ih

/-! ### every bracket group has the arity of its keyword -/

/-- number of commas the argument list of a keyword must contain; `none` = no bracket may follow -/
def arityOf (run : List Char) : Option Nat :=
  if run = ['a','n','d'] ∨ run = ['o','r'] ∨ run = ['i','m','p'] ∨ run = ['x','o','r'] ∨ run = ['i','f','f'] ∨
     run = ['a','c'] then some 1
  else if run = ['n','e','g'] ∨ run = ['s'] ∨ run = ['c'] then some 0
  else none

/-- `shape q run stk cs`: outside quoted labels, every `(` directly follows one of the nine
keywords (as a maximal alphanumeric word `run`), every `,` is the single top-level comma of a
group opened by `and/or/imp/xor/iff/ac`, every `)` closes a group that has all its commas, and at
the end no group and no quote is open. `stk` = commas still missing in the open groups. -/
def shape : Bool → List Char → List Nat → List Char → Bool
  | q, _, stk, [] => !q && stk.isEmpty
  | true, _, stk, c :: cs => if c = '"' then shape false [] stk cs else shape true [] stk cs
  | false, run, stk, c :: cs =>
    if c = '"' then shape true [] stk cs
    else if c = '(' then
      (match arityOf run with
      | none => false
      | some n => shape false [] (n :: stk) cs)
    else if c = ',' then
      (match stk with
      | 1 :: s => shape false [] (0 :: s) cs
      | _ => false)
    else if c = ')' then
      (match stk with
      | 0 :: s => shape false [] s cs
      | _ => false)
    else if isAlnum c then shape false (run ++ [c]) stk cs
    else shape false [] stk cs

def arityOK (cs : List Char) : Bool := shape false [] [] cs

theorem shape_run_irrel (run : List Char) (stk : List Nat) (r : List Char) (h : GoodRest r) :
    shape false run stk r = shape false [] stk r := by
  cases r with
  | nil => simp [shape]
  | cons c r' =>
    obtain ⟨ha, hp⟩ := h c rfl
    simp only [shape, hp, if_false, ha]
    simp

theorem shape_alnum (stk : List Nat) : ∀ (l run r : List Char), AllAlnum l →
    shape false run stk (l ++ r) = shape false (run ++ l) stk r := by
  intro l
  induction l with
  | nil => intro run r _; simp
  | cons c l ih =>
    intro run r h
    have hc := h c (List.mem_cons_self ..)
    obtain ⟨h1, h2, h3, h4⟩ := alnum_plain hc
    simp only [List.cons_append, shape, h1, h2, h3, h4, if_false, hc, if_true]
    rw [ih (run ++ [c]) r (fun x hx => h x (List.mem_cons_of_mem _ hx))]
    simp

theorem shape_ws (stk : List Nat) : ∀ (w r : List Char), AllWs w →
    shape false [] stk (w ++ r) = shape false [] stk r := by
  intro w
  induction w with
  | nil => intro r _; rfl
  | cons c w ih =>
    intro r h
    obtain ⟨⟨h1, h2, h3, h4⟩, h5⟩ := ws_plain (h c (List.mem_cons_self ..))
    simp only [List.cons_append, shape, h1, h2, h3, h4, if_false, h5]
    simp only [Bool.false_eq_true, if_false]
    exact ih r (fun x hx => h x (List.mem_cons_of_mem _ hx))

theorem shape_inq (stk : List Nat) : ∀ (l run r : List Char), '"' ∉ l →
    shape true run stk (l ++ '"' :: r) = shape false [] stk r := by
  intro l
  induction l with
  | nil => intro run r _; simp [shape]
  | cons c l ih =>
    intro run r h
    have hc : c ≠ '"' := fun e => h (e ▸ List.mem_cons_self ..)
    simp only [List.cons_append, shape, hc, if_false]
    exact ih [] r (fun e => h (List.mem_cons_of_mem _ e))

theorem shape_label {l sl : List Char} (h : DerL l sl) (stk : List Nat) (r : List Char) (hr : GoodRest r) :
    shape false [] stk (sl ++ r) = shape false [] stk r := by
  cases h with
  | alnum _ hl => rw [shape_alnum stk l [] r hl, shape_run_irrel _ stk r hr]
  | quoted hq =>
    have e : ['"'] ++ l ++ ['"'] ++ r = '"' :: (l ++ '"' :: r) := by simp
    rw [e]
    simp only [shape, if_true]
    exact shape_inq stk l [] r hq

theorem shape_open (kw : List Char) (n : Nat) (hk : AllAlnum kw) (ha : arityOf kw = some n) (stk : List Nat)
    (r : List Char) : shape false [] stk (kw ++ '(' :: r) = shape false [] (n :: stk) r := by
  rw [shape_alnum stk kw [] _ hk]
  simp [shape, ha]

theorem shape_close (run : List Char) (stk : List Nat) (r : List Char) :
    shape false run (0 :: stk) (')' :: r) = shape false [] stk r := by simp [shape]

theorem shape_comma (run : List Char) (stk : List Nat) (r : List Char) :
    shape false run (1 :: stk) (',' :: r) = shape false [] (0 :: stk) r := by simp [shape]

theorem shape_dot (stk : List Nat) (r : List Char) : shape false [] stk ('.' :: r) = shape false [] stk r := by
  simp [shape, isAlnum, Char.isAlphanum, Char.isAlpha, Char.isUpper, Char.isLower, Char.isDigit]

theorem goodRest_comma (r : List Char) : GoodRest (',' :: r) := by
  intro c hc; simp at hc; subst hc; exact ⟨by decide, by decide⟩

theorem shape_bin (kw : List Char) (hk : AllAlnum kw) (ha : arityOf kw = some 1) (s1 s2 w1 w2 : List Char)
    (h1 : AllWs w1) (h2 : AllWs w2)
    (ih1 : ∀ stk r, GoodRest r → shape false [] stk (s1 ++ r) = shape false [] stk r)
    (ih2 : ∀ stk r, GoodRest r → shape false [] stk (s2 ++ r) = shape false [] stk r)
    (stk : List Nat) (r : List Char) :
    shape false [] stk (kw ++ ['('] ++ s1 ++ w1 ++ [','] ++ w2 ++ s2 ++ [')'] ++ r) = shape false [] stk r := by
  have e : kw ++ ['('] ++ s1 ++ w1 ++ [','] ++ w2 ++ s2 ++ [')'] ++ r =
      kw ++ ('(' :: (s1 ++ (w1 ++ [','] ++ (w2 ++ (s2 ++ ([')'] ++ r)))))) := by simp
  rw [e, shape_open kw 1 hk ha, ih1 _ _ (goodRest_ws_comma w1 _ h1)]
  have e2 : w1 ++ [','] ++ (w2 ++ (s2 ++ ([')'] ++ r))) = w1 ++ (',' :: (w2 ++ (s2 ++ (')' :: r)))) := by simp
  rw [e2, shape_ws _ _ _ h1, shape_comma, shape_ws _ _ _ h2, ih2 (0 :: stk) (')' :: r) (goodRest_close r)]
  exact shape_close _ _ _

/-- a formula text followed by a good rest leaves the open groups as they were -/
theorem shape_formula {f : Fml} {s : List Char} (h : DerF f s) : ∀ (stk : List Nat) (r : List Char),
    GoodRest r → shape false [] stk (s ++ r) = shape false [] stk r := by
  induction h with
  | top =>
    intro stk r _
    have e : ['c','(','v',')'] ++ r = ['c'] ++ ('(' :: (['v'] ++ (')' :: r))) := by simp
    rw [e, shape_open ['c'] 0 (allAlnum_lit _ (by decide)) (by decide), shape_alnum _ _ _ _ (allAlnum_lit _ (by decide))]
    exact shape_close _ _ _
  | bot =>
    intro stk r _
    have e : ['c','(','f',')'] ++ r = ['c'] ++ ('(' :: (['f'] ++ (')' :: r))) := by simp
    rw [e, shape_open ['c'] 0 (allAlnum_lit _ (by decide)) (by decide), shape_alnum _ _ _ _ (allAlnum_lit _ (by decide))]
    exact shape_close _ _ _
  | atom l s hl => intro stk r hr; exact shape_label hl stk r hr
  | not f s _ ih =>
    intro stk r _
    have e : ['n','e','g','('] ++ s ++ [')'] ++ r = ['n','e','g'] ++ ('(' :: (s ++ ([')'] ++ r))) := by simp
    rw [e, shape_open _ 0 (allAlnum_lit _ (by decide)) (by decide), ih _ _ (goodRest_close r)]
    exact shape_close _ _ _
  | and a b s1 s2 w1 w2 _ _ h1 h2 iha ihb =>
    intro stk r _
    exact shape_bin ['a','n','d'] (allAlnum_lit _ (by decide)) (by decide) s1 s2 w1 w2 h1 h2 iha ihb stk r
  | or a b s1 s2 w1 w2 _ _ h1 h2 iha ihb =>
    intro stk r _
    exact shape_bin ['o','r'] (allAlnum_lit _ (by decide)) (by decide) s1 s2 w1 w2 h1 h2 iha ihb stk r
  | imp a b s1 s2 w1 w2 _ _ h1 h2 iha ihb =>
    intro stk r _
    exact shape_bin ['i','m','p'] (allAlnum_lit _ (by decide)) (by decide) s1 s2 w1 w2 h1 h2 iha ihb stk r
  | xor a b s1 s2 w1 w2 _ _ h1 h2 iha ihb =>
    intro stk r _
    exact shape_bin ['x','o','r'] (allAlnum_lit _ (by decide)) (by decide) s1 s2 w1 w2 h1 h2 iha ihb stk r
  | iff a b s1 s2 w1 w2 _ _ h1 h2 iha ihb =>
    intro stk r _
    exact shape_bin ['i','f','f'] (allAlnum_lit _ (by decide)) (by decide) s1 s2 w1 w2 h1 h2 iha ihb stk r

theorem shape_fact {x : Fact} {s : List Char} (h : DerFact x s) (r : List Char) :
    shape false [] [] (s ++ r) = shape false [] [] r := by
  cases h with
  | stmt l sl w hl hw =>
    have e : ['s','('] ++ sl ++ [')','.'] ++ w ++ r = ['s'] ++ ('(' :: (sl ++ ([')'] ++ ('.' :: (w ++ r))))) := by simp
    rw [e, shape_open _ 0 (allAlnum_lit _ (by decide)) (by decide), shape_label hl _ _ (goodRest_close _)]
    rw [show [')'] ++ ('.' :: (w ++ r)) = ')' :: ('.' :: (w ++ r)) from rfl, shape_close, shape_dot, shape_ws _ _ _ hw]
  | ac l sl f s' w1 w2 w hl hf h1 h2 hw =>
    have e : ['a','c','('] ++ sl ++ w1 ++ [','] ++ w2 ++ s' ++ [')','.'] ++ w ++ r =
        ['a','c'] ++ ('(' :: (sl ++ (w1 ++ [','] ++ (w2 ++ (s' ++ ([')'] ++ ('.' :: (w ++ r)))))))) := by simp
    rw [e, shape_open _ 1 (allAlnum_lit _ (by decide)) (by decide),
      shape_label hl _ _ (goodRest_ws_comma w1 _ h1)]
    have e2 : w1 ++ [','] ++ (w2 ++ (s' ++ ([')'] ++ ('.' :: (w ++ r))))) =
        w1 ++ (',' :: (w2 ++ (s' ++ ([')'] ++ ('.' :: (w ++ r)))))) := by simp
    rw [e2, shape_ws _ _ _ h1, shape_comma, shape_ws _ _ _ h2, shape_formula hf _ _ (goodRest_close _)]
    rw [show [')'] ++ ('.' :: (w ++ r)) = ')' :: ('.' :: (w ++ r)) from rfl, shape_close, shape_dot, shape_ws _ _ _ hw]

/-- in every text of the grammar, outside quoted labels, brackets follow keywords only and every
group has exactly the number of arguments of its keyword -/
theorem DerFile.arityOK {fs : List Fact} {t : List Char} (h : DerFile fs t) : arityOK t = true := by
  unfold ParserM.arityOK
  induction h with
  | nil => rfl
  | cons x xs s t' hx _ ih => rw [shape_fact hx]; exact ih

/-! ### quotes come in pairs -/

theorem count_label {l sl : List Char} (h : DerL l sl) : sl.count '"' % 2 = 0 := by
  cases h with
  | alnum _ hl =>
    have : l.count '"' = 0 := List.count_eq_zero.mpr (fun hm => alnum_not_quote (hl _ hm) rfl)
    omega
  | quoted hq =>
    have : l.count '"' = 0 := List.count_eq_zero.mpr hq
    simp [List.count_append, this]

theorem count_ws {w : List Char} (h : AllWs w) : w.count '"' = 0 :=
  List.count_eq_zero.mpr (fun hm => (ws_plain (h _ hm)).1.1 rfl)

theorem count_bin (kw s1 s2 w1 w2 : List Char) (hk : kw.count '"' = 0) (h1 : AllWs w1) (h2 : AllWs w2)
    (ih1 : s1.count '"' % 2 = 0) (ih2 : s2.count '"' % 2 = 0) :
    (kw ++ ['('] ++ s1 ++ w1 ++ [','] ++ w2 ++ s2 ++ [')']).count '"' % 2 = 0 := by
  simp only [List.count_append, hk, count_ws h1, count_ws h2]
  have a : List.count '"' ['('] = 0 := by decide
  have b : List.count '"' [','] = 0 := by decide
  have c : List.count '"' [')'] = 0 := by decide
  rw [a, b, c]; omega

theorem count_formula {f : Fml} {s : List Char} (h : DerF f s) : s.count '"' % 2 = 0 := by
  induction h with
  | top => decide
  | bot => decide
  | atom l s hl => exact count_label hl
  | not f s _ ih =>
    simp only [List.count_append]
    have a : List.count '"' ['n','e','g','('] = 0 := by decide
    have c : List.count '"' [')'] = 0 := by decide
    rw [a, c]; omega
  | and a b s1 s2 w1 w2 _ _ h1 h2 iha ihb => exact count_bin ['a','n','d'] s1 s2 w1 w2 (by decide) h1 h2 iha ihb
  | or a b s1 s2 w1 w2 _ _ h1 h2 iha ihb => exact count_bin ['o','r'] s1 s2 w1 w2 (by decide) h1 h2 iha ihb
  | imp a b s1 s2 w1 w2 _ _ h1 h2 iha ihb => exact count_bin ['i','m','p'] s1 s2 w1 w2 (by decide) h1 h2 iha ihb
  | xor a b s1 s2 w1 w2 _ _ h1 h2 iha ihb => exact count_bin ['x','o','r'] s1 s2 w1 w2 (by decide) h1 h2 iha ihb
  | iff a b s1 s2 w1 w2 _ _ h1 h2 iha ihb => exact count_bin ['i','f','f'] s1 s2 w1 w2 (by decide) h1 h2 iha ihb

theorem count_fact {x : Fact} {s : List Char} (h : DerFact x s) : s.count '"' % 2 = 0 := by
  cases h with
  | stmt l sl w hl hw =>
    simp only [List.count_append, count_ws hw]
    have a : List.count '"' ['s','('] = 0 := by decide
    have c : List.count '"' [')','.'] = 0 := by decide
    have := count_label hl
    rw [a, c]; omega
  | ac l sl f s' w1 w2 w hl hf h1 h2 hw =>
    simp only [List.count_append, count_ws hw, count_ws h1, count_ws h2]
    have a : List.count '"' ['a','c','('] = 0 := by decide
    have b : List.count '"' [','] = 0 := by decide
    have c : List.count '"' [')','.'] = 0 := by decide
    have := count_label hl
    have := count_formula hf
    rw [a, b, c]; omega

/-- the number of `"` in a text of the grammar is even -/
theorem DerFile.even_quotes {fs : List Fact} {t : List Char} (h : DerFile fs t) : t.count '"' % 2 = 0 := by
  induction h with
  | nil => rfl
  | cons x xs s t' hx _ ih =>
    have := count_fact hx
    simp only [List.count_append]; omega

/-! ### what follows the last terminator -/

theorem dropWhile_append_of_ne (p : Char → Bool) : ∀ (a b : List Char), a.dropWhile p ≠ [] →
    (a ++ b).dropWhile p = a.dropWhile p ++ b := by
  intro a
  induction a with
  | nil => intro b h; simp at h
  | cons c a ih =>
    intro b h
    simp only [List.cons_append, List.dropWhile] at h ⊢
    cases hc : p c with
    | true => rw [hc] at h; exact ih b h
    | false => rfl

theorem dropWhile_ne_nil (p : Char → Bool) : ∀ (a : List Char), (∃ c ∈ a, p c = false) → a.dropWhile p ≠ [] := by
  intro a
  induction a with
  | nil => intro ⟨c, hc, _⟩; simp at hc
  | cons d a ih =>
    intro ⟨c, hc, hp⟩
    simp only [List.dropWhile]
    cases hd : p d with
    | false => simp
    | true =>
      rcases List.mem_cons.mp hc with rfl | h
      · rw [hd] at hp; cases hp
      · exact ih ⟨c, h, hp⟩

/-- whether a text ends in `.` and blanks is decided by its tail, once the tail has a non-blank -/
theorem endsWithDot_append (cs g : List Char) (hg : ∃ c ∈ g, isWs c = false) :
    endsWithDot (cs ++ g) = endsWithDot g := by
  unfold endsWithDot
  have hne : g.reverse.dropWhile isWs ≠ [] :=
    dropWhile_ne_nil isWs g.reverse (let ⟨c, hc, hp⟩ := hg; ⟨c, List.mem_reverse.mpr hc, hp⟩)
  rw [List.reverse_append, dropWhile_append_of_ne isWs _ _ hne]
  cases h : g.reverse.dropWhile isWs with
  | nil => exact absurd h hne
  | cons _ _ => rfl

/-! ### from the parser object back to the grammar -/

theorem parse_some_der (t : List Char) (st : PState) (h : parse t = some st) :
    ∃ fs, fs ≠ [] ∧ DerFile fs t ∧ st = PState.ofFacts fs := by
  rw [parse_eq] at h
  cases hf : parseFacts t with
  | none => rw [hf] at h; cases h
  | some fs =>
    rw [hf] at h
    obtain ⟨a, b⟩ := parseFacts_sound t fs hf
    exact ⟨fs, a, b, (Option.some.inj h).symm⟩

/-- a text that violates a necessary condition of the grammar is rejected -/
theorem reject_of (t : List Char) (P : Prop) (hP : ∀ fs, fs ≠ [] → DerFile fs t → P) (hn : ¬ P) :
    parse t = none := by
  cases h : parse t with
  | none => rfl
  | some st =>
    obtain ⟨fs, a, b, _⟩ := parse_some_der t st h
    exact absurd (hP fs a b) hn

end ParserM
