import AdfObdd.CliModel
import AdfObdd.BioModel
import AdfObdd.SortModel
import AdfObdd.Bridge
/-! # `App::run` of the `adf-bdd` binary on the TEXT of the input file, arm by arm

`Cli.run` (CliModel.lean, what the model driver executes) starts from a built native framework and
does not distinguish the `biodivine` arm from the `naive` one. This file models the three
hand-wired arms of `bin/src/main.rs` as they are written, from the text of the file to the exit
status and the lines on stdout:

* every arm: `AdfParser::parse` (`ParserM.parse`; `Err` → `panic!` → exit status 101, nothing
  printed), then `--lx` / `--an` on the parser object (`varsort_lexi` / `varsort_alphanum`,
  SortModel.lean) BEFORE the framework is built;
* `naive`: `Adf::from_parser` (`FromParser.fromParser`), then `grounded` / `complete` / `stable` /
  `stable_nogood` on the own store — `runNaive`, which IS `Cli.run .naive` (`CliMP.runNaive_eq`);
* `biodivine`: `adfbiodivine::Adf::from_parser` (+ `stm_rewriting` iff `--stmrew`) on the external
  library (`Bio.Lib`), then `Bio.bioGrounded` / `bioComplete` / `bioStable` / `bioStableRep`;
* `hybrid`: the same construction, `grounded_internal` ON THE LIBRARY, `from_biodivine_vector`
  (`bridgeAll`: the library's node dump replayed into a fresh own store), then the native functions;
  `--stmrew` / `--stmrew2` run `Adf::stable_bdd_representation(&biodivine)`
  (`Bio.nativeStableRep`: candidates from the library's `sat_valuations` of the single rewriting
  formula, test on the own store);
* every printed line is `PrintableInterpretation`'s `Display`: `render`.

The external world of the binary (`World`): the BDD library for a set of `nv` variables, the node
dump `Bdd::to_string()` the bridge parses, the comparison-sort of crate `lexical-sort`.
Definitions only (Mathlib-free); theorems in `CliModesProofs.lean`, property statements in
`Props/C15.lean` and `Props/C08.lean`. -/
namespace CliM
open ParserM FromParser Cli

/-- `--lx` / `--an` (clap group `sorting`: at most one of them) -/
inductive Sorting where | none | lx | an
deriving DecidableEq, Repr

/-- one invocation: `--lib`, the semantics flags, the sorting flag, `--heu` -/
structure Inv where
  mode : Mode
  flags : Flags
  sort : Sorting := .none
  heu : SM.Heu := .simple

/-- what the binary gets from other crates -/
structure World (T : Type) where
  /-- `biodivine_lib_bdd` for a variable set of `nv` variables -/
  lib : Nat → Bio.Lib T
  /-- `Bdd::to_string()` as `from_biodivine_vector` reads it: the list of `var,low,high` triples,
  entries 0 and 1 are the terminals -/
  dump : T → List Node
  /-- the name list after `string_sort_unstable(natural_lexical_cmp)` -/
  anSort : List Label → List Label

/-- exit status and stdout (one entry per line, without the line break) -/
structure Out where
  exit : Nat
  stdout : List (List Char)
deriving DecidableEq, Repr

/-- `panic!` before anything is printed: exit status 101, empty stdout (`Cli.rejected`) -/
def rejected : Out := ⟨101, []⟩

/-! ## the line format -/

/-- `T` / `F` / `u` of `PrintableInterpretation::fmt`: `is_truth_value` (`Term` 0 or 1), `is_true` -/
def mark (t : Nat) : Char := if t == 1 then 'T' else if t == 0 then 'F' else 'u'

/-- one statement: `T(name) ` -/
def entry (name : Label) (t : Nat) : List Char := mark t :: '(' :: (name ++ [')', ' '])

/-- the line of one interpretation, without the final line break of `writeln!`: for every position
`pos` of the vector, in order, the entry under `ordering.name(Var(pos))` = `namelist[pos]`
(the `expect` cannot fail: every vector the arms print has one entry per name, `CliMP`) -/
def render (names : List Label) (v : List Nat) : List Char :=
  v.zipIdx.flatMap fun p => entry (names.getD p.2 []) p.1

/-! ## sorting -/

/-- the parser object after the sorting flag -/
def sortState (an : List Label → List Label) : Sorting → PState → PState
  | .none, st => st
  | .lx, st => SortModel.varsortLexi st
  | .an, st => st.resort (an st.namelist)

/-! ## running sections on the own store -/

abbrev Block := Section × List (List Nat)

/-- the `if self.… { … }` blocks of an arm in order, threading the store -/
def runWith (R : Section → Store → Store × List (List Nat)) :
    List Section → Store × List Block → Store × List Block
  | [], acc => acc
  | sec :: rest, acc =>
    let r := R sec acc.1
    runWith R rest (r.1, acc.2 ++ [(sec, r.2)])

/-- a section of the naive arm; the two sections that run the nogood-learning search get the bound
`fuel` on the number of loop iterations (`Cli.runSection` is the instance `fuel = 1000000`) -/
def secNaive (fuel : Nat) (heu : SM.Heu) (n : Nat) (ac : List Nat) (sec : Section) (s : Store) :
    Store × List (List Nat) :=
  match sec with
  | .twoval => let r := SM.ngSearch heu fuel s n ac false; (r.1, r.2.1)
  | .stmng => let r := SM.ngSearch heu fuel s n ac true; (r.1, r.2.1)
  | sec => runSection heu sec s n ac

/-- a section of the hybrid arm: as the naive one on the bridged object, except that `--stmrew` /
`--stmrew2` is `naive_adf.stable_bdd_representation(&adf)` with the candidates of the library object -/
def secHybrid (fuel : Nat) (heu : SM.Heu) (cands : List (List Nat)) (n : Nat) (ac : List Nat) (sec : Section)
    (s : Store) : Store × List (List Nat) :=
  match sec with
  | .stmrew => Bio.nativeStableRep s n ac cands
  | sec => secNaive fuel heu n ac sec s

/-- did the section's search (if it runs one) reach its end within the bound? -/
def secHalts (fuel : Nat) (heu : SM.Heu) (n : Nat) (ac : List Nat) (sec : Section) (s : Store) : Bool :=
  match sec with
  | .twoval => (SM.ngSearch heu fuel s n ac false).2.2.2
  | .stmng => (SM.ngSearch heu fuel s n ac true).2.2.2
  | _ => true

def haltsWith (H : Section → Store → Bool) (R : Section → Store → Store × List (List Nat)) :
    List Section → Store → Bool
  | [], _ => true
  | sec :: rest, s => H sec s && haltsWith H R rest (R sec s).1

/-! ## the naive arm -/

/-- `Adf::from_parser`, then the sections; `none` = `from_parser` panics -/
def runNaive (fuel : Nat) (f : Flags) (heu : SM.Heu) (st : PState) : Option (List Block) :=
  (fromParser st).map fun b =>
    (runWith (secNaive fuel heu (dictSizeOf st) b.2) (sections .naive f) (b.1, [])).2

/-! ## construction on the external library (`adfbiodivine::Adf::from_parser`) -/

/-- characters `BddVariableSetBuilder::make_variable` refuses in a variable name (`NOT_IN_VAR_NAME`
of biodivine_lib_bdd 0.5.23) — it panics on them -/
def notInVarName : List Char := ['!', '&', '|', '^', '=', '<', '>', '(', ')', '?', ':']

def bioNameOK (l : Label) : Bool := l.all fun c => !notInVarName.contains c

/-- `Formula::to_boolean_expr` followed by the name resolution of `eval_expression`
(constructor for constructor) -/
def fmToBExpr : Fm → Bio.BExpr
  | .top => .const true
  | .bot => .const false
  | .atom v => .var v
  | .not f => .not (fmToBExpr f)
  | .and a b => .and (fmToBExpr a) (fmToBExpr b)
  | .or a b => .or (fmToBExpr a) (fmToBExpr b)
  | .imp a b => .imp (fmToBExpr a) (fmToBExpr b)
  | .xor a b => .xor (fmToBExpr a) (fmToBExpr b)
  | .iff a b => .iff (fmToBExpr a) (fmToBExpr b)

/-- the work list of the library-side `from_parser`: as `FromParser.workList` (the same four
panics: `formula_order`, `ac_at`, index out of bounds, unknown variable in `eval_expression`), but an
atom is resolved by the LIBRARY's own name → variable map, the position map of the `namelist` the
variables were created from -/
def workListBio (st : PState) : Option (List (Nat × Fm)) :=
  match st.formulaOrder with
  | none => none
  | some ord =>
    if st.formulae.length < ord.length then none
    else if ord.any (fun p => decide (dictSizeOf st ≤ p)) then none
    else match (st.formulae.take ord.length).mapM (resolveFml (indexOf st.namelist)) with
      | none => none
      | some fms => some (ord.zip fms)

/-- the library-side object: `ac` and the prepared rewriting (`from_parser_with_stm_rewrite` iff
`--stmrew`; NOT for `--stmrew2`). `none` = panic: a label `make_variable` refuses (labels are
pairwise different, the other panic of `make_variable` cannot occur), or one of `workListBio`. -/
def bioBuild {T : Type} (L : Bio.Lib T) (st : PState) (rew : Bool) : Option (List T × Option T) :=
  if st.namelist.all bioNameOK then
    (workListBio st).map fun items =>
      let ord := items.map (·.1)
      let es := items.map fun pf => fmToBExpr pf.2
      (Bio.acOf L (dictSizeOf st) ord es, if rew then some (Bio.stmRewriting L ord es) else none)
  else none

/-! ## the biodivine arm -/

/-- the four blocks the arm implements (`Cli.implemented .biodivine`) -/
def secBio {T : Type} (L : Bio.Lib T) (rw : Option T) (acB : List T) : Section → List (List Nat)
  | .grd => [Bio.bioGrounded L acB]
  | .com => Bio.bioComplete L acB
  | .stm => Bio.bioStable L acB
  | .stmrew => Bio.bioStableRep L rw acB
  | _ => []

def runBio {T : Type} (L : Bio.Lib T) (f : Flags) (st : PState) : Option (List Block) :=
  (bioBuild L st f.stmrew).map fun b =>
    (sections .biodivine f).map fun sec => (sec, secBio L b.2 b.1 sec)

/-! ## the hybrid arm -/

/-- `from_biodivine_vector`, one entry: constants directly, otherwise the dump is replayed through
`Bdd::node` into the running store and the entry becomes the handle of the last dump entry -/
def bridgeOne {T : Type} (L : Bio.Lib T) (dump : T → List Node) (s : Store) (t : T) : Store × Nat :=
  if L.isTrue t then (s, 1)
  else if L.isFalse t then (s, 0)
  else
    let r := replayL ((dump t).drop 2) s [0, 1]
    (r.1, r.2.getD (r.2.length - 1) 0)

/-- `from_biodivine_vector`: entry by entry on the running store, starting from `Bdd::new()` -/
def bridgeAll {T : Type} (L : Bio.Lib T) (dump : T → List Node) : List T → Store → List Nat → Store × List Nat
  | [], s, acc => (s, acc)
  | t :: ts, s, acc => let r := bridgeOne L dump s t; bridgeAll L dump ts r.1 (acc ++ [r.2])

/-- `adf.hybrid_step()`: `grounded_internal` on the library, then the bridge -/
def hybridStep {T : Type} (L : Bio.Lib T) (dump : T → List Node) (acB : List T) : Store × List Nat :=
  bridgeAll L dump (Bio.groundedInternal L acB) Store.init []

def runHybrid {T : Type} (L : Bio.Lib T) (dump : T → List Node) (fuel : Nat) (f : Flags) (heu : SM.Heu)
    (st : PState) : Option (List Block) :=
  (bioBuild L st f.stmrew).map fun b =>
    let h := hybridStep L dump b.1
    let cands := Bio.stableModelCandidates L b.2 b.1
    (runWith (secHybrid fuel heu cands (dictSizeOf st) h.2) (sections .hybrid f) (h.1, [])).2

/-! compiled form of `runHybrid`: Lean is strict, so `runHybrid` as written would compute the candidate
list of `--stmrew`/`--stmrew2` (for `--stmrew2`: the conjunction `stable_representation()` over ALL
conditions on the library and its `sat_valuations`) for EVERY hybrid invocation, whether or not the
section is printed; Rust computes it inside `stable_bdd_representation`, i.e. only for that section. The
compiled form computes it only if the section is printed; proved equal (`@[csimp]`), the theorems keep
speaking about `runHybrid`. -/

theorem runWith_congr (R R' : Section → Store → Store × List (List Nat)) :
    ∀ (l : List Section) (acc : Store × List Block), (∀ sec ∈ l, ∀ s, R sec s = R' sec s) →
      runWith R l acc = runWith R' l acc := by
  intro l
  induction l with
  | nil => intro acc _; rfl
  | cons x xs ih =>
    intro acc h
    simp only [runWith]
    rw [h x (List.mem_cons_self ..) acc.1]
    exact ih _ (fun sec hs s => h sec (List.mem_cons_of_mem _ hs) s)

theorem secHybrid_cands_irrelevant (fuel : Nat) (heu : SM.Heu) (c c' : List (List Nat)) (n : Nat) (ac : List Nat)
    (sec : Section) (s : Store) (h : sec ≠ .stmrew) :
    secHybrid fuel heu c n ac sec s = secHybrid fuel heu c' n ac sec s := by
  cases sec <;> first | rfl | exact absurd rfl h

def runHybridL {T : Type} (L : Bio.Lib T) (dump : T → List Node) (fuel : Nat) (f : Flags) (heu : SM.Heu)
    (st : PState) : Option (List Block) :=
  (bioBuild L st f.stmrew).map fun b =>
    let h := hybridStep L dump b.1
    let cands := if Section.stmrew ∈ sections .hybrid f then Bio.stableModelCandidates L b.2 b.1 else []
    (runWith (secHybrid fuel heu cands (dictSizeOf st) h.2) (sections .hybrid f) (h.1, [])).2

@[csimp] theorem runHybrid_eq_runHybridL : @runHybrid = @runHybridL := by
  funext T L dump fuel f heu st
  unfold runHybrid runHybridL
  congr 1
  funext b
  by_cases hm : Section.stmrew ∈ sections .hybrid f
  · simp only [if_pos hm]
  · simp only [if_neg hm]
    rw [runWith_congr _ _ (sections .hybrid f) _ (fun sec hs s =>
      secHybrid_cands_irrelevant fuel heu _ [] (dictSizeOf st) _ sec s (fun e => hm (e ▸ hs)))]

/-! ## the whole run -/

/-- the blocks of an invocation on a (sorted) parser object; `none` = the construction panics -/
def runParsed {T : Type} (W : World T) (fuel : Nat) (i : Inv) (st : PState) : Option (List Block) :=
  match i.mode with
  | .naive => runNaive fuel i.flags i.heu st
  | .biodivine => runBio (W.lib (dictSizeOf st)) i.flags st
  | .hybrid => runHybrid (W.lib (dictSizeOf st)) W.dump fuel i.flags i.heu st

/-- the parser object the framework is built from -/
def parsed {T : Type} (W : World T) (i : Inv) (t : List Char) : Option PState :=
  (parse t).map (sortState W.anSort i.sort)

/-- **the binary on the text of the file**: exit status and stdout. `fuel` bounds the iterations
of each nogood-learning search (the Rust loop has no bound; see `CliMP.Halted`). -/
def runText {T : Type} (W : World T) (fuel : Nat) (i : Inv) (t : List Char) : Out :=
  match parsed W i t with
  | none => rejected
  | some st =>
    match runParsed W fuel i st with
    | none => rejected
    | some blocks => ⟨0, blocks.flatMap fun b => b.2.map (render st.namelist)⟩

/-- no nogood-learning search of the invocation hit the bound `fuel` (a Boolean the model computes) -/
def haltedParsed {T : Type} (W : World T) (fuel : Nat) (i : Inv) (st : PState) : Bool :=
  match i.mode with
  | .biodivine => true
  | .naive =>
    match fromParser st with
    | none => true
    | some b => haltsWith (secHalts fuel i.heu (dictSizeOf st) b.2) (secNaive fuel i.heu (dictSizeOf st) b.2)
        (sections .naive i.flags) b.1
  | .hybrid =>
    match bioBuild (W.lib (dictSizeOf st)) st i.flags.stmrew with
    | none => true
    | some b =>
      let h := hybridStep (W.lib (dictSizeOf st)) W.dump b.1
      let cands := Bio.stableModelCandidates (W.lib (dictSizeOf st)) b.2 b.1
      haltsWith (secHalts fuel i.heu (dictSizeOf st) h.2)
        (secHybrid fuel i.heu cands (dictSizeOf st) h.2) (sections .hybrid i.flags) h.1

end CliM
