
namespace Iter3M
/-! prototype 23: the three-valued odometer (`decrement_vec`) enumerates all `3^k` digit vectors,
    starting with "keep everywhere", in the reference order -/

/-- `decrement_vec`: first digit > 0 is decremented, the zeros before it become 2 -/
def pred3 : List Nat → Option (List Nat)
  | [] => none
  | d :: rest => if 0 < d then some ((d - 1) :: rest) else (pred3 rest).map (fun r => 2 :: r)

def collect3 : Nat → List Nat → List (List Nat)
  | 0, _ => []
  | fuel+1, cur => cur :: (match pred3 cur with | none => [] | some nxt => collect3 fuel nxt)

/-- reference enumeration of digit vectors of length k (fastest digit first) -/
def enumD : Nat → List (List Nat)
  | 0 => [[]]
  | k+1 => (enumD k).map (· ++ [2]) ++ ((enumD k).map (· ++ [1]) ++ (enumD k).map (· ++ [0]))

theorem enumD_length (k : Nat) : (enumD k).length = 3 ^ k := by
  induction k with
  | zero => rfl
  | succ k ih => simp [enumD, ih, Nat.pow_succ]; omega

theorem replicate_snoc (k : Nat) (outer : List Nat) :
    List.replicate (k+1) 2 ++ outer = List.replicate k 2 ++ (2 :: outer) := by
  rw [List.replicate_succ', List.append_assoc]; rfl

theorem chain3 : ∀ (k : Nat) (outer : List Nat) (fuel : Nat), 3 ^ k ≤ fuel →
    collect3 fuel (List.replicate k 2 ++ outer) =
      (enumD k).map (· ++ outer) ++
        (match pred3 outer with
         | none => []
         | some o' => collect3 (fuel - 3 ^ k) (List.replicate k 2 ++ o')) := by
  intro k
  induction k with
  | zero =>
    intro outer fuel hf
    cases fuel with
    | zero => simp at hf
    | succ f => simp [collect3, enumD]
  | succ k ih =>
    intro outer fuel hf
    have hpow : 3 ^ (k+1) = 3 ^ k + 3 ^ k + 3 ^ k := by simp [Nat.pow_succ]; omega
    have p2 : pred3 (2 :: outer) = some (1 :: outer) := by simp [pred3]
    have p1 : pred3 (1 :: outer) = some (0 :: outer) := by simp [pred3]
    have p0 : pred3 (0 :: outer) = (pred3 outer).map (fun r => 2 :: r) := by simp [pred3]
    rw [replicate_snoc, ih (2 :: outer) fuel (by omega), p2]
    simp only
    rw [ih (1 :: outer) (fuel - 3 ^ k) (by omega), p1]
    simp only
    rw [ih (0 :: outer) (fuel - 3 ^ k - 3 ^ k) (by omega), p0]
    have hfuel : fuel - 3 ^ k - 3 ^ k - 3 ^ k = fuel - 3 ^ (k+1) := by omega
    simp only [enumD, List.map_append, List.map_map, List.append_assoc]
    congr 1
    · apply List.map_congr_left; intro x _; simp
    congr 1
    · apply List.map_congr_left; intro x _; simp
    congr 1
    · apply List.map_congr_left; intro x _; simp
    cases hp : pred3 outer with
    | none => simp
    | some o' => simp only [Option.map_some]; rw [hfuel, replicate_snoc]

/-- C20 (three-valued): started at "keep everywhere" the odometer yields exactly the reference
enumeration of all `3^k` digit vectors, the first being all-keep -/
theorem collect3_eq (k fuel : Nat) (hf : 3 ^ k ≤ fuel) :
    collect3 fuel (List.replicate k 2) = enumD k := by
  have := chain3 k [] fuel hf
  simpa [pred3] using this
#print axioms collect3_eq

end Iter3M
