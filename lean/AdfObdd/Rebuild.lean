import AdfObdd.StoreOps
/-! prototype 18: rebuilding a store from its plain node list (`impl From<Vec<BddNode>> for Bdd`,
    what the web service's database layer does) reproduces the node table exactly -/

def rebuildL (nodes : List Node) (s : Store) : Store :=
  nodes.foldl (fun s n => (mkNode s n.var n.lo n.hi).1) s

def rebuild (nodes : Array Node) : Store := rebuildL nodes.toList Store.init

/-- the store reached after replaying the first `k ≥ 2` nodes of a well-formed table -/
structure Prefix (orig : Store) (k : Nat) (s : Store) : Prop where
  size : s.nodes.size = k
  nodes : ∀ i, i < k → s.nodes[i]? = orig.nodes[i]?
  uniq : ∀ n t, s.uniq[n]? = some t ↔ (2 ≤ t ∧ t < k ∧ orig.nodes[t]? = some n)

theorem mkNode_fresh_push (s : Store) (v lo hi : Nat) (hne : lo ≠ hi)
    (hf : s.uniq[(⟨v, lo, hi⟩ : Node)]? = none) :
    (mkNode s v lo hi).1 = { s with nodes := s.nodes.push ⟨v, lo, hi⟩, uniq := s.uniq.insert ⟨v, lo, hi⟩ s.nodes.size } := by
  unfold mkNode; rw [if_neg hne, hf]

theorem prefix_step (orig : Store) (w : WF orig) (k : Nat) (hk2 : 2 ≤ k) (hk : k < orig.nodes.size)
    (s : Store) (p : Prefix orig k s) :
    Prefix orig (k+1) (mkNode s orig.nodes[k].var orig.nodes[k].lo orig.nodes[k].hi).1 := by
  have hget : orig.nodes[k]? = some orig.nodes[k] := Array.getElem?_eq_getElem hk
  have ⟨_, hlo, hhi, hne, _, _⟩ := w.inner k _ hk2 hget
  have hsz : s.nodes.size = k := p.size
  have hfresh : s.uniq[(⟨orig.nodes[k].var, orig.nodes[k].lo, orig.nodes[k].hi⟩ : Node)]? = none := by
    cases hu : s.uniq[(⟨orig.nodes[k].var, orig.nodes[k].lo, orig.nodes[k].hi⟩ : Node)]? with
    | none => rfl
    | some t =>
      have ⟨ht2, htk, hgt⟩ := (p.uniq _ t).mp hu
      have : t = k := w.nodup t k _ ht2 hk2 hgt hget
      omega
  rw [mkNode_fresh_push s _ _ _ hne hfresh]
  constructor
  · simp [hsz]
  · intro i hi
    simp only [Array.getElem?_push, hsz]
    by_cases hik : i = k
    · subst hik; rw [if_pos rfl, hget]
    · rw [if_neg hik]; exact p.nodes i (by omega)
  · intro n t
    simp only [Std.HashMap.getElem?_insert, hsz]
    by_cases hkn : (⟨orig.nodes[k].var, orig.nodes[k].lo, orig.nodes[k].hi⟩ : Node) = n
    · subst hkn
      simp only [beq_self_eq_true, if_true, Option.some.injEq]
      constructor
      · intro h; subst h; exact ⟨hk2, by omega, hget⟩
      · intro ⟨ht2, _, hgt⟩
        exact (w.nodup t k _ ht2 hk2 hgt hget).symm
    · have : ((⟨orig.nodes[k].var, orig.nodes[k].lo, orig.nodes[k].hi⟩ : Node) == n) = false := by simpa using hkn
      simp only [this, Bool.false_eq_true, if_false]
      rw [p.uniq n t]
      constructor
      · intro ⟨a, b, c⟩; exact ⟨a, by omega, c⟩
      · intro ⟨a, b, c⟩
        refine ⟨a, ?_, c⟩
        rcases Nat.lt_or_ge t k with h | h
        · exact h
        · have : t = k := by omega
          subst this
          rw [hget] at c; cases c
          exact absurd rfl hkn

/-- replaying the rest of the table from a prefix state reaches the whole table -/
theorem rebuild_from (orig : Store) (w : WF orig) : ∀ (m k : Nat) (s : Store), 2 ≤ k → k + m = orig.nodes.size →
    Prefix orig k s → Prefix orig orig.nodes.size (rebuildL (orig.nodes.toList.drop k) s) := by
  intro m
  induction m with
  | zero =>
    intro k s _ hkm p
    have : k = orig.nodes.size := by omega
    subst this
    have hd : orig.nodes.toList.drop orig.nodes.size = [] := by
      apply List.drop_eq_nil_of_le; simp
    rw [hd]; exact p
  | succ m ih =>
    intro k s hk2 hkm p
    have hk : k < orig.nodes.size := by omega
    have hdrop : orig.nodes.toList.drop k = orig.nodes[k] :: orig.nodes.toList.drop (k+1) := by
      rw [List.drop_eq_getElem_cons (by simpa using hk)]; simp
    rw [hdrop]
    simp only [rebuildL, List.foldl_cons]
    exact ih (k+1) _ (by omega) (by omega) (prefix_step orig w k hk2 hk s p)

theorem init_after_two (orig : Store) (w : WF orig) :
    Prefix orig 2 (rebuildL (orig.nodes.toList.take 2) Store.init) := by
  have hl := w.len
  have h0 : orig.nodes[0]? = some ⟨VBOT, 0, 0⟩ := w.bot
  have h1 : orig.nodes[1]? = some ⟨VTOP, 1, 1⟩ := w.top
  have e0 : orig.nodes[0]'(by omega) = ⟨VBOT, 0, 0⟩ := by
    have := Array.getElem?_eq_getElem (xs := orig.nodes) (i := 0) (by omega); rw [this] at h0; simpa using h0
  have e1 : orig.nodes[1]'(by omega) = ⟨VTOP, 1, 1⟩ := by
    have := Array.getElem?_eq_getElem (xs := orig.nodes) (i := 1) (by omega); rw [this] at h1; simpa using h1
  have ht : orig.nodes.toList.take 2 = [⟨VBOT, 0, 0⟩, ⟨VTOP, 1, 1⟩] := by
    apply List.ext_getElem
    · simp; omega
    · intro i hi1 hi2
      have : i < 2 := by simp at hi2; omega
      rcases Nat.lt_or_ge i 1 with h | h
      · have : i = 0 := by omega
        subst this; simp [e0]
      · have : i = 1 := by omega
        subst this; simp [e1]
  rw [ht]
  -- both constants fall out through `lo = hi`
  have : rebuildL [⟨VBOT, 0, 0⟩, ⟨VTOP, 1, 1⟩] Store.init = Store.init := by
    simp [rebuildL, mkNode]
  rw [this]
  constructor
  · rfl
  · intro i hi
    rcases Nat.lt_or_ge i 1 with h | h
    · have : i = 0 := by omega
      subst this; rw [h0]; rfl
    · have : i = 1 := by omega
      subst this; rw [h1]; rfl
  · intro n t
    constructor
    · intro h; simp [Store.init] at h
    · intro ⟨a, b, _⟩; omega

/-- C14 core: rebuilding from the plain node list gives back the same node table (same
numbering) and a unique table that is exact for it -/
theorem rebuild_id (orig : Store) (w : WF orig) :
    (rebuild orig.nodes).nodes = orig.nodes ∧
    ∀ n t, (rebuild orig.nodes).uniq[n]? = some t ↔ (2 ≤ t ∧ orig.nodes[t]? = some n) := by
  have hsplit : orig.nodes.toList = orig.nodes.toList.take 2 ++ orig.nodes.toList.drop 2 := by simp
  have hfold : rebuild orig.nodes = rebuildL (orig.nodes.toList.drop 2) (rebuildL (orig.nodes.toList.take 2) Store.init) := by
    unfold rebuild
    have happ : ∀ (l1 l2 : List Node) (s : Store), rebuildL (l1 ++ l2) s = rebuildL l2 (rebuildL l1 s) := by
      intro l1 l2 s; unfold rebuildL; rw [List.foldl_append]
    conv => lhs; rw [hsplit]
    exact happ _ _ _
  have p := rebuild_from orig w (orig.nodes.size - 2) 2 _ (Nat.le_refl _) (by have := w.len; omega)
    (init_after_two orig w)
  rw [← hfold] at p
  constructor
  · apply Array.ext
    · exact p.size
    · intro i h1 h2
      have := p.nodes i h2
      rw [Array.getElem?_eq_getElem h1, Array.getElem?_eq_getElem h2] at this
      simpa using this
  · intro n t
    rw [p.uniq n t]
    constructor
    · intro ⟨a, _, c⟩; exact ⟨a, c⟩
    · intro ⟨a, c⟩; exact ⟨a, lt_of_get c, c⟩
#print axioms rebuild_id
