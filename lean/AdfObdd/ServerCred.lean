import AdfObdd.ServerProofs
/-! Credential invariant of the web-service model (C17): what the `users` collection stores, in
    terms of an observer's record of the passwords that were set. -/
namespace ServerM
section
variable {T H A R : Type} [DecidableEq T]

/-- The observer's bookkeeping of "the password most recently set for the account named `n`",
updated from what a client can see: the request, the identity it was sent with and the status of
the response. -/
def credStep (g : T → Option T) (id : Option T) (rq : Req T) (status : Nat) : T → Option T :=
  if status = 200 then
    match rq with
    | .register u p _ => fun n => if n = u then some p else g n
    | .update u' p' _ => fun n => if n = u' then some p' else if some n = id then none else g n
    | .deleteAccount => fun n => if some n = id then none else g n
    | _ => g
  else g

/-- every user record is a temporary account without password, or stores `hash salt pw` for the
password the observer recorded; account names are unique; nothing is recorded for absent accounts -/
structure CredInv (E : Env T H A R) (users : List (User T H)) (g : T → Option T) : Prop where
  nodup : (users.map (·.username)).Nodup
  temp : ∀ x ∈ users, x.password = none → g x.username = none
  cred : ∀ x ∈ users, ∀ h, x.password = some h → ∃ salt pw, h = E.hash salt pw ∧ g x.username = some pw
  absent : ∀ n, (∀ x ∈ users, x.username ≠ n) → g n = none

theorem CredInv.init (E : Env T H A R) : CredInv E [] (fun _ => none) :=
  ⟨by simp, by simp, by simp, fun _ _ => rfl⟩

theorem find_none_iff (n : T) (l : List (User T H)) : l.find? (isUser n) = none ↔ ∀ x ∈ l, x.username ≠ n := by
  simp [List.find?_eq_none, isUser]

theorem any_isUser (n : T) (l : List (User T H)) : l.any (isUser n) = true ↔ ∃ x ∈ l, x.username = n := by
  simp [List.any_eq_true, isUser]

theorem updFirst_none {α : Type} (q : α → Bool) (f : α → α) : ∀ l : List α, (∀ x ∈ l, q x = false) → updFirst q f l = l := by
  intro l
  induction l with
  | nil => intro _; rfl
  | cons x xs ih =>
    intro h
    simp only [updFirst, h x (List.mem_cons_self ..), Bool.false_eq_true, if_false]
    rw [ih (fun y hy => h y (List.mem_cons_of_mem _ hy))]

theorem delFirst_none {α : Type} (q : α → Bool) : ∀ l : List α, (∀ x ∈ l, q x = false) → delFirst q l = l := by
  intro l
  induction l with
  | nil => intro _; rfl
  | cons x xs ih =>
    intro h
    simp only [delFirst, h x (List.mem_cons_self ..), Bool.false_eq_true, if_false]
    rw [ih (fun y hy => h y (List.mem_cons_of_mem _ hy))]

/-- replacing the record named `v` in a list with unique names -/
theorem mem_updFirst_user (v : T) (new : User T H) : ∀ (l : List (User T H)), (l.map (·.username)).Nodup →
    ∀ x, x ∈ updFirst (isUser v) (fun _ => new) l ↔
      (x ∈ l ∧ x.username ≠ v) ∨ (x = new ∧ ∃ y ∈ l, y.username = v) := by
  intro l
  induction l with
  | nil => intro _ x; simp [updFirst]
  | cons y ys ih =>
    intro hnd x
    simp only [List.map_cons, List.nodup_cons, List.mem_map, not_exists, not_and] at hnd
    by_cases hy : y.username = v
    · have hrest : ∀ z ∈ ys, z.username ≠ v := fun z hz hzv => hnd.1 z hz (by rw [hzv, hy])
      simp only [updFirst, isUser, hy, decide_true, if_true, List.mem_cons]
      constructor
      · rintro (h | h)
        · exact Or.inr ⟨h, y, Or.inl rfl, hy⟩
        · exact Or.inl ⟨Or.inr h, hrest x h⟩
      · rintro (⟨h | h, hne⟩ | ⟨h, _⟩)
        · exact absurd (h ▸ hy) hne
        · exact Or.inr h
        · exact Or.inl h
    · simp only [updFirst, isUser, hy, decide_false, Bool.false_eq_true, if_false, List.mem_cons]
      rw [ih hnd.2 x]
      constructor
      · rintro (h | ⟨h, hne⟩ | ⟨h, z, hz, hzv⟩)
        · exact Or.inl ⟨Or.inl h, h ▸ hy⟩
        · exact Or.inl ⟨Or.inr h, hne⟩
        · exact Or.inr ⟨h, z, Or.inr hz, hzv⟩
      · rintro (⟨h | h, hne⟩ | ⟨h, z, hz | hz, hzv⟩)
        · exact Or.inl h
        · exact Or.inr (Or.inl ⟨h, hne⟩)
        · exact absurd (hz ▸ hzv) hy
        · exact Or.inr (Or.inr ⟨h, z, hz, hzv⟩)

theorem mem_delFirst_user (v : T) : ∀ (l : List (User T H)), (l.map (·.username)).Nodup →
    ∀ x, x ∈ delFirst (isUser v) l ↔ (x ∈ l ∧ x.username ≠ v) := by
  intro l
  induction l with
  | nil => intro _ x; simp [delFirst]
  | cons y ys ih =>
    intro hnd x
    simp only [List.map_cons, List.nodup_cons, List.mem_map, not_exists, not_and] at hnd
    by_cases hy : y.username = v
    · have hrest : ∀ z ∈ ys, z.username ≠ v := fun z hz hzv => hnd.1 z hz (by rw [hzv, hy])
      simp only [delFirst, isUser, hy, decide_true, if_true, List.mem_cons]
      constructor
      · intro h; exact ⟨Or.inr h, hrest x h⟩
      · rintro ⟨h | h, hne⟩
        · exact absurd (h ▸ hy) hne
        · exact h
    · simp only [delFirst, isUser, hy, decide_false, Bool.false_eq_true, if_false, List.mem_cons]
      rw [ih hnd.2 x]
      constructor
      · rintro (h | ⟨h, hne⟩)
        · exact ⟨Or.inl h, h ▸ hy⟩
        · exact ⟨Or.inr h, hne⟩
      · rintro ⟨h | h, hne⟩
        · exact Or.inl h
        · exact Or.inr ⟨h, hne⟩

theorem nodup_updFirst_user (v : T) (new : User T H) : ∀ (l : List (User T H)), (l.map (·.username)).Nodup →
    (new.username = v ∨ ∀ x ∈ l, x.username ≠ new.username) →
    ((updFirst (isUser v) (fun _ => new) l).map (·.username)).Nodup := by
  intro l
  induction l with
  | nil => intro _ _; simp [updFirst]
  | cons y ys ih =>
    intro hnd hnew
    have hnd' := hnd
    simp only [List.map_cons, List.nodup_cons, List.mem_map, not_exists, not_and] at hnd
    by_cases hy : y.username = v
    · simp only [updFirst, isUser, hy, decide_true, if_true, List.map_cons, List.nodup_cons, List.mem_map,
        not_exists, not_and]
      refine ⟨?_, hnd.2⟩
      intro z hz hzn
      rcases hnew with h | h
      · exact hnd.1 z hz (by rw [hzn, h, hy])
      · exact h z (List.mem_cons_of_mem _ hz) hzn
    · simp only [updFirst, isUser, hy, decide_false, Bool.false_eq_true, if_false, List.map_cons, List.nodup_cons,
        List.mem_map, not_exists, not_and]
      refine ⟨?_, ih hnd.2 (hnew.imp id (fun h x hx => h x (List.mem_cons_of_mem _ hx)))⟩
      intro z hz hzn
      rw [mem_updFirst_user v new ys hnd.2 z] at hz
      rcases hz with ⟨hz, _⟩ | ⟨hz, _⟩
      · exact hnd.1 z hz hzn
      · subst hz
        rcases hnew with h | h
        · exact hy (by rw [← hzn, h])
        · exact h y (List.mem_cons_self ..) hzn.symm

theorem nodup_delFirst_user (v : T) : ∀ (l : List (User T H)), (l.map (·.username)).Nodup →
    ((delFirst (isUser v) l).map (·.username)).Nodup := by
  intro l
  induction l with
  | nil => intro _; simp [delFirst]
  | cons y ys ih =>
    intro hnd
    simp only [List.map_cons, List.nodup_cons, List.mem_map, not_exists, not_and] at hnd
    by_cases hy : y.username = v
    · simp only [delFirst, isUser, hy, decide_true, if_true]; exact hnd.2
    · simp only [delFirst, isUser, hy, decide_false, Bool.false_eq_true, if_false, List.map_cons, List.nodup_cons,
        List.mem_map, not_exists, not_and]
      refine ⟨?_, ih hnd.2⟩
      intro z hz hzn
      rw [mem_delFirst_user v ys hnd.2 z] at hz
      exact hnd.1 z hz.1 hzn

/-! ### the four ways the collection changes -/

theorem CredInv.insert_cred {E : Env T H A R} {users : List (User T H)} {g : T → Option T} (inv : CredInv E users g)
    (u p : T) (salt : Nat) (hnew : ∀ x ∈ users, x.username ≠ u) :
    CredInv E (users ++ [⟨u, some (E.hash salt p)⟩]) (fun n => if n = u then some p else g n) := by
  refine ⟨?_, ?_, ?_, ?_⟩
  · simp only [List.map_append, List.map_cons, List.map_nil]
    rw [List.nodup_append]
    refine ⟨inv.nodup, by simp, ?_⟩
    intro a ha b hb
    simp only [List.mem_singleton] at hb
    simp only [List.mem_map] at ha
    obtain ⟨x, hx, rfl⟩ := ha
    rw [hb]; exact hnew x hx
  · intro x hx hpw
    simp only [List.mem_append, List.mem_singleton] at hx
    rcases hx with hx | hx
    · simp only [hnew x hx, if_false]; exact inv.temp x hx hpw
    · subst hx; simp at hpw
  · intro x hx h hpw
    simp only [List.mem_append, List.mem_singleton] at hx
    rcases hx with hx | hx
    · simp only [hnew x hx, if_false]; exact inv.cred x hx h hpw
    · subst hx
      simp only [Option.some.injEq] at hpw
      exact ⟨salt, p, hpw.symm, by simp⟩
  · intro n hn
    have hne : n ≠ u := fun h => hn ⟨u, some (E.hash salt p)⟩ (by simp) h.symm
    simp only [hne, if_false]
    exact inv.absent n (fun x hx => hn x (List.mem_append_left _ hx))

theorem CredInv.insert_temp {E : Env T H A R} {users : List (User T H)} {g : T → Option T} (inv : CredInv E users g)
    (u : T) (hnew : ∀ x ∈ users, x.username ≠ u) : CredInv E (users ++ [⟨u, none⟩]) g := by
  refine ⟨?_, ?_, ?_, ?_⟩
  · simp only [List.map_append, List.map_cons, List.map_nil]
    rw [List.nodup_append]
    refine ⟨inv.nodup, by simp, ?_⟩
    intro a ha b hb
    simp only [List.mem_singleton] at hb
    simp only [List.mem_map] at ha
    obtain ⟨x, hx, rfl⟩ := ha
    rw [hb]; exact hnew x hx
  · intro x hx hpw
    simp only [List.mem_append, List.mem_singleton] at hx
    rcases hx with hx | hx
    · exact inv.temp x hx hpw
    · subst hx; exact inv.absent u hnew
  · intro x hx h hpw
    simp only [List.mem_append, List.mem_singleton] at hx
    rcases hx with hx | hx
    · exact inv.cred x hx h hpw
    · subst hx; simp at hpw
  · intro n hn
    exact inv.absent n (fun x hx => hn x (List.mem_append_left _ hx))

theorem CredInv.replace {E : Env T H A R} {users : List (User T H)} {g : T → Option T} (inv : CredInv E users g)
    (v u' p' : T) (salt : Nat) (hex : ∃ y ∈ users, y.username = v) (hnew : u' = v ∨ ∀ x ∈ users, x.username ≠ u') :
    CredInv E (updFirst (isUser v) (fun _ => ⟨u', some (E.hash salt p')⟩) users)
      (fun n => if n = u' then some p' else if some n = some v then none else g n) := by
  have hm := mem_updFirst_user v (⟨u', some (E.hash salt p')⟩ : User T H) users inv.nodup
  have hold : ∀ x ∈ users, x.username ≠ v → x.username ≠ u' := by
    intro x hx hxv hxu
    rcases hnew with h | h
    · exact hxv (by rw [hxu, h])
    · exact h x hx hxu
  refine ⟨nodup_updFirst_user v _ users inv.nodup hnew, ?_, ?_, ?_⟩
  · intro x hx hpw
    rcases (hm x).mp hx with ⟨hx, hne⟩ | ⟨hx, _⟩
    · simp only [hold x hx hne, if_false, Option.some.injEq, hne]; exact inv.temp x hx hpw
    · subst hx; simp at hpw
  · intro x hx h hpw
    rcases (hm x).mp hx with ⟨hx, hne⟩ | ⟨hx, _⟩
    · simp only [hold x hx hne, if_false, Option.some.injEq, hne]; exact inv.cred x hx h hpw
    · subst hx
      simp only [Option.some.injEq] at hpw
      exact ⟨salt, p', hpw.symm, by simp⟩
  · intro n hn
    have hne : n ≠ u' := fun h => hn ⟨u', some (E.hash salt p')⟩ ((hm _).mpr (Or.inr ⟨rfl, hex⟩)) h.symm
    simp only [hne, if_false, Option.some.injEq]
    split
    · rfl
    · rename_i hnv
      exact inv.absent n (fun x hx hxn => by
        have hxv : x.username ≠ v := by rw [hxn]; exact hnv
        exact hn x ((hm x).mpr (Or.inl ⟨hx, hxv⟩)) hxn)

theorem CredInv.delete {E : Env T H A R} {users : List (User T H)} {g : T → Option T} (inv : CredInv E users g) (v : T) :
    CredInv E (delFirst (isUser v) users) (fun n => if some n = some v then none else g n) := by
  have hm := mem_delFirst_user v users inv.nodup
  refine ⟨nodup_delFirst_user v users inv.nodup, ?_, ?_, ?_⟩
  · intro x hx hpw
    have := (hm x).mp hx
    simp only [Option.some.injEq, this.2, if_false]; exact inv.temp x this.1 hpw
  · intro x hx h hpw
    have := (hm x).mp hx
    simp only [Option.some.injEq, this.2, if_false]; exact inv.cred x this.1 h hpw
  · intro n hn
    simp only [Option.some.injEq]
    split
    · rfl
    · rename_i hnv
      exact inv.absent n (fun x hx hxn => by
        have hxv : x.username ≠ v := by rw [hxn]; exact hnv
        exact hn x ((hm x).mpr ⟨hx, hxv⟩) hxn)

end
end ServerM

namespace ServerM
section
variable {T H A R : Type} [DecidableEq T]

/-- commands that do not write the user collection -/
def NoUserWrite : Cmd T H A R → Prop
  | .uInsert _ => False
  | .uReplace _ _ => False
  | .uDelete _ => False
  | _ => True

theorem exec_users (db : Db T H A R) (c : Cmd T H A R) (h : NoUserWrite c) : (exec db c).1.users = db.users := by
  cases c <;> first | rfl | exact h.elim

theorem run_users {α : Type} {L : α → Prop} {p : Prog T H A R α} (h : AllCmds NoUserWrite L p) (db : Db T H A R) :
    (run p db).1.users = db.users :=
  run_inv (fun d => d.users = db.users) (fun d c hc hd => by rw [exec_users d c hc]; exact hd) h db rfl

theorem any_false_of_find_none (n : T) (l : List (User T H)) (h : l.find? (isUser n) = none) : l.any (isUser n) = false := by
  cases ha : l.any (isUser n) with
  | false => rfl
  | true =>
    obtain ⟨x, hx, hxn⟩ := (any_isUser n l).mp ha
    exact absurd hxn ((find_none_iff n l).mp h x hx)

theorem none_of_any_false (v : T) (l : List (User T H)) (h : l.any (isUser v) = false) : ∀ x ∈ l, isUser v x = false := by
  intro x hx
  cases hxv : isUser v x with
  | false => rfl
  | true => rw [List.any_eq_false] at h; exact absurd hxv (by simpa using h x hx)

theorem exec_uInsert_new (db : Db T H A R) (u : User T H) (h : db.users.any (isUser u.username) = false) :
    exec db (.uInsert u) = ({ db with users := db.users ++ [u] }, true) := by
  simp [exec, h]

theorem exec_uDelete_absent (db : Db T H A R) (v : T) (h : db.users.any (isUser v) = false) :
    exec db (.uDelete v) = (db, 0) := by
  simp only [exec, h, Bool.false_eq_true, if_false, delFirst_none _ _ (none_of_any_false v _ h)]

theorem exec_uDelete_present (db : Db T H A R) (v : T) (h : db.users.any (isUser v) = true) :
    exec db (.uDelete v) = ({ db with users := delFirst (isUser v) db.users }, 1) := by
  simp [exec, h]

theorem exec_uReplace_absent (db : Db T H A R) (v : T) (u : User T H)
    (hc : (decide (u.username ≠ v) && db.users.any (isUser u.username)) = false) (h : db.users.any (isUser v) = false) :
    exec db (.uReplace v u) = (db, some 0) := by
  simp only [exec, hc, h, Bool.false_eq_true, if_false, updFirst_none _ _ _ (none_of_any_false v _ h)]

theorem exec_uReplace_present (db : Db T H A R) (v : T) (u : User T H)
    (hc : (decide (u.username ≠ v) && db.users.any (isUser u.username)) = false) (h : db.users.any (isUser v) = true) :
    exec db (.uReplace v u) = ({ db with users := updFirst (isUser v) (fun _ => u) db.users }, some 1) := by
  simp only [exec, hc, h, Bool.false_eq_true, if_false, if_true]

theorem addFor_nowrite (jar : Nat) (ck : Cookie T) (u name code : T) (parsing : Parsing) (emp fp : T) :
    AllCmds NoUserWrite (fun _ => True) (addFor jar ck u name code parsing emp fp : P T H A R) := by
  have hins : ∀ n : T, AllCmds NoUserWrite (fun _ => True)
      (.cmd (.pInsert { name := n, username := u, code := code, parsing := parsing }) fun _ =>
       .cmd (.spawn { jar := jar, username := u, name := n, input := .parse code parsing }) fun _ =>
       .ret ⟨200, ck, .msg .parsingStarted⟩ : P T H A R) := by
    intro n
    refine .cmd _ _ trivial ?_
    intro _ _
    refine .cmd _ _ trivial ?_
    intro _ _; exact .ret _ trivial
  unfold addFor
  simp only
  split
  · refine .cmd _ _ trivial ?_
    intro r _
    cases r with
    | some _ => exact .ret _ trivial
    | none => exact hins _
  · refine .cmd _ _ trivial ?_
    intro r _
    cases r with
    | some _ => exact .ret _ trivial
    | none => exact hins _

/-- a request keeps the credential invariant, with the observer's bookkeeping -/
theorem step_cred (E : Env T H A R) (st : State T H A R) (rq : Request T) (g : T → Option T)
    (inv : CredInv E st.db.users g) :
    CredInv E (step E st rq).1.db.users (credStep g (st.sess rq.jar) rq.req (step E st rq).2.status) := by
  have hshape := handler_shape E rq.jar (st.sess rq.jar) rq.req
  -- requests whose commands never write the user collection
  have readonly : (∀ c, Shape E rq.jar (st.sess rq.jar) rq.req c → NoUserWrite c) →
      (∀ s, credStep g (st.sess rq.jar) rq.req s = g) →
      CredInv E (step E st rq).1.db.users (credStep g (st.sess rq.jar) rq.req (step E st rq).2.status) := by
    intro h1 h2
    rw [h2]
    simp only [step, stepT]
    rw [run_users (hshape.mono h1 (fun _ h => h))]
    exact inv
  cases hq : rq.req with
  | login u p =>
    rw [hq] at readonly
    exact readonly (by intro c hc; simp only [Shape] at hc; subst hc; trivial) (by intro s; simp [credStep])
  | logout =>
    rw [hq] at readonly
    exact readonly (by intro c hc; obtain ⟨v, _, hc⟩ := hc; subst hc; trivial) (by intro s; simp [credStep])
  | info =>
    rw [hq] at readonly
    exact readonly (by intro c hc; obtain ⟨v, _, hc⟩ := hc; subst hc; trivial) (by intro s; simp [credStep])
  | solve name s =>
    rw [hq] at readonly
    exact readonly (by
      intro c hc; obtain ⟨v, _, hc⟩ := hc
      rcases hc with hc | hc | ⟨t, hc, _⟩ <;> subst hc <;> trivial) (by intro s; simp [credStep])
  | get name =>
    rw [hq] at readonly
    exact readonly (by
      intro c hc; obtain ⟨v, _, hc⟩ := hc
      rcases hc with hc | ⟨n, hc⟩ <;> subst hc <;> trivial) (by intro s; simp [credStep])
  | delete name =>
    rw [hq] at readonly
    exact readonly (by intro c hc; obtain ⟨v, _, hc⟩ := hc; subst hc; trivial) (by intro s; simp [credStep])
  | list =>
    rw [hq] at readonly
    exact readonly (by
      intro c hc; obtain ⟨v, _, hc⟩ := hc
      rcases hc with hc | ⟨n, hc⟩ <;> subst hc <;> trivial) (by intro s; simp [credStep])
  | malformed =>
    rw [hq] at readonly
    exact readonly (by intro c hc; exact hc.elim) (by intro s; simp [credStep])
  | register u p salt =>
    simp only [step, stepT, hq, handler, hRegister]
    split
    · simpa [run, reply, credStep] using inv
    · simp only [run, exec]
      cases hf : st.db.users.find? (isUser u) with
      | some x => simpa [run, reply, credStep] using inv
      | none =>
        have hany := any_false_of_find_none u _ hf
        simp only [run, exec_uInsert_new st.db ⟨u, some (E.hash salt p)⟩ hany, if_true, reply, credStep]
        exact inv.insert_cred u p salt ((find_none_iff u _).mp hf)
  | deleteAccount =>
    simp only [step, stepT, hq, handler, hDeleteAccount]
    cases hid : st.sess rq.jar with
    | none => simpa [run, reply, credStep] using inv
    | some v =>
      have hp : ∀ d : Db T H A R, (exec d (.pDeleteAll v)).1.users = d.users := fun _ => rfl
      simp only [run]
      by_cases hany : st.db.users.any (isUser v) = true
      · have hany' : (exec st.db (.pDeleteAll v)).1.users.any (isUser v) = true := hany
        simp only [exec_uDelete_present _ v hany', Nat.one_ne_zero, if_false, run, credStep, if_true]
        exact inv.delete v
      · have hany' : (exec st.db (.pDeleteAll v)).1.users.any (isUser v) = false := Bool.eq_false_iff.mpr hany
        simp only [exec_uDelete_absent _ v hany', if_true, run, reply, credStep]
        first | exact inv | (simp; exact inv)
  | update u' p' salt =>
    simp only [step, stepT, hq, handler, hUpdate]
    split
    · simpa [run, reply, credStep] using inv
    · cases hid : st.sess rq.jar with
      | none => simpa [run, reply, credStep] using inv
      | some v =>
        -- the common tail: replace, then rename
        have tail : (u' = v ∨ ∀ x ∈ st.db.users, x.username ≠ u') →
            CredInv E
              (run (.cmd (.uReplace v ⟨u', some (E.hash salt p')⟩) fun m => match m with
                | none => reply 500 .dbError
                | some 0 => reply 500 .accountNotUpdated
                | some _ => .cmd (.pRename v u') fun _ => .ret ⟨200, .login u', .userInfo u' false⟩ : P T H A R) st.db).1.users
              (credStep g (some v) (.update u' p' salt)
                (run (.cmd (.uReplace v ⟨u', some (E.hash salt p')⟩) fun m => match m with
                | none => reply 500 .dbError
                | some 0 => reply 500 .accountNotUpdated
                | some _ => .cmd (.pRename v u') fun _ => .ret ⟨200, .login u', .userInfo u' false⟩ : P T H A R) st.db).2.1.status) := by
          intro hnew
          have hcond : (decide (u' ≠ v) && st.db.users.any (isUser u')) = false := by
            rcases hnew with h | h
            · simp [h]
            · have : st.db.users.any (isUser u') = false := by
                rw [List.any_eq_false]; intro x hx; simp [isUser, h x hx]
              simp [this]
          simp only [run]
          by_cases hany : st.db.users.any (isUser v) = true
          · simp only [exec_uReplace_present st.db v ⟨u', some (E.hash salt p')⟩ hcond hany, run, credStep, if_true]
            simp only [exec]
            exact inv.replace v u' p' salt ((any_isUser v _).mp hany) hnew
          · have hany' : st.db.users.any (isUser v) = false := Bool.eq_false_iff.mpr hany
            simp only [exec_uReplace_absent st.db v ⟨u', some (E.hash salt p')⟩ hcond hany', run, reply, credStep]
            first | exact inv | (simp; exact inv)
        simp only
        split
        · rename_i hne
          simp only [run, exec]
          cases hf : st.db.users.find? (isUser u') with
          | some x => simpa [run, reply, credStep] using inv
          | none => exact tail (Or.inr ((find_none_iff u' _).mp hf))
        · rename_i heq
          exact tail (Or.inl (by simpa using heq))
  | add name code file parsing fu fp =>
    have hcs : ∀ s, credStep g (st.sess rq.jar) (.add name code file parsing fu fp) s = g := by intro s; simp [credStep]
    rw [hcs]
    simp only [step, stepT, hq, handler, hAdd]
    split
    · simpa [run, reply] using inv
    · split
      · simpa [run, reply] using inv
      · rename_i c _ _
        cases hid : st.sess rq.jar with
        | some v =>
          simp only
          rw [run_users (addFor_nowrite rq.jar .keep v name c parsing E.emp fp)]
          exact inv
        | none =>
          simp only [run, exec]
          cases hf : st.db.users.find? (isUser fu) with
          | some x => simpa [run, reply] using inv
          | none =>
            have hany := any_false_of_find_none fu _ hf
            simp only [run, exec_uInsert_new st.db ⟨fu, none⟩ hany, if_true]
            rw [run_users (addFor_nowrite rq.jar (.login fu) fu name c parsing E.emp fp)]
            exact inv.insert_temp fu ((find_none_iff fu _).mp hf)

end
end ServerM
