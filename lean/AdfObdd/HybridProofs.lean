import AdfObdd.HybridModel
import AdfObdd.BioProofs
import AdfObdd.PreGround3
import AdfObdd.CompleteExact
import AdfObdd.StableExact
/-! # The hybrid back-end, proofs (part 1): residual vector, bridge, `hybridStep`

1. the vector returned by biodivine's `grounded_internal` denotes `pre D g` - every condition with the
   grounded interpretation `g` substituted (`Bio.groundedInternal_pre`);
2. `from_biodivine_vector` over a dump satisfying `Bio.DumpSpec` builds a well-formed native store whose
   handles denote the diagrams' functions, position by position (`Bio.bridgeAll_spec`);
3. `Bio.hybridStep_spec`: both together, for both values of the flag. -/

/-! ## the semantic loop keeps the vector of the form `pre D h` -/

theorem pre_nil (D : List BoolFn) : pre D [] = D := by
  simp [pre, over]

theorem pre_pre (D : List BoolFn) (h w : I3) (l : Le3 h w) : pre (pre D h) w = pre D w := by
  unfold pre
  rw [List.map_map]
  apply List.map_congr_left
  intro f _
  funext σ
  show f (over (over σ 0 w) 0 h) = f (over σ 0 w)
  rw [over_of_agree ((agree_over σ w).mono l)]

theorem semRound_eq_pre (V : List BoolFn) : semRound V = pre V (cv V) := rfl

/-- the residual vector is the original one with SOME interpretation below its own constants
substituted -/
def PreInv (D V : List BoolFn) : Prop := ∃ h : I3, V = pre D h ∧ Le3 h (cv V)

theorem preInv_init (D : List BoolFn) : PreInv D D :=
  ⟨[], (pre_nil D).symm, fun i b h => by simp at h⟩

theorem preInv_round_eq {D V : List BoolFn} (p : PreInv D V) : semRound V = pre D (cv V) := by
  obtain ⟨h, e, l⟩ := p
  rw [semRound_eq_pre]
  conv => lhs; arg 1; rw [e]
  exact pre_pre D h (cv V) l

theorem preInv_round {D V : List BoolFn} (p : PreInv D V) : PreInv D (semRound V) :=
  ⟨cv V, preInv_round_eq p, cv_le_round V⟩

/-- with enough rounds the loop ends in a vector that is the original one restricted by ITS OWN
constants (the last round found nothing new, so its snapshot is the final interpretation) -/
theorem semLoop_pre (D : List BoolFn) : ∀ (fuel : Nat) (V : List BoolFn), PreInv D V →
    V.length - countSome (cv V) < fuel → semLoop fuel V = pre D (cv (semLoop fuel V)) := by
  intro fuel
  induction fuel with
  | zero => intro V _ h; omega
  | succ f ih =>
    intro V p hf
    unfold semLoop
    have hlen : (cv V).length = (cv (semRound V)).length := by simp [cv, semRound]
    by_cases hc : countSome ((semRound V).map constOf) = countSome (V.map constOf)
    · rw [if_pos hc]
      have e : cv (semRound V) = cv V := eq_of_le_count _ _ hlen (cv_le_round V) hc
      rw [e]
      exact preInv_round_eq p
    · rw [if_neg hc]
      apply ih _ (preInv_round p)
      have h1 := countSome_mono _ _ hlen (cv_le_round V)
      have h2 := countSome_le_length (cv (semRound V))
      have h3 : (semRound V).length = V.length := by simp [semRound]
      simp only [cv, List.length_map] at *
      omega

theorem semLoop_pre_lfp (D : List BoolFn) (fuel : Nat) (hf : D.length < fuel) :
    semLoop fuel D = pre D (cv (semLoop fuel D)) ∧ IsLfp D (cv (semLoop fuel D)) :=
  ⟨semLoop_pre D fuel D (preInv_init D) (by omega), grounded_sem D fuel hf⟩

/-! ## uniqueness of the least fixpoint and transfer along `pre` -/

theorem isLfp_unique {D : List BoolFn} {g g' : I3} (h : IsLfp D g) (h' : IsLfp D g') : g = g' :=
  Le3_antisymm (by rw [Bio.lfp_len h, Bio.lfp_len h']) (h.2 g' h'.1) (h'.2 g h.1)

theorem pre_isLfp_iff (D : List BoolFn) (g x : I3) (hg : IsLfp D g) : IsLfp (pre D g) x ↔ IsLfp D x := by
  constructor
  · intro hx
    rw [← isLfp_unique (pre_lfp D g hg) hx]; exact hg
  · intro hx
    rw [← isLfp_unique hg hx]; exact pre_lfp D g hg

theorem pre_stableI_iff (D : List BoolFn) (g v : I3) (hg : IsLfp D g) :
    StableExact.StableI (pre D g) v ↔ StableExact.StableI D v := by
  unfold StableExact.StableI
  constructor
  · intro ⟨ht, hfix, hre⟩
    have hfix' := (pre_complete_iff D g v hg).mp hfix
    have hgv : Le3 g v := hg.2 v hfix'
    exact ⟨ht, hfix', fun w hw => hre w ((pre_reduct_lfp_iff D g v w hg hgv).mpr hw)⟩
  · intro ⟨ht, hfix, hre⟩
    have hgv : Le3 g v := hg.2 v hfix
    exact ⟨ht, (pre_complete_iff D g v hg).mpr hfix,
      fun w hw => hre w ((pre_reduct_lfp_iff D g v w hg hgv).mp hw)⟩

namespace Bio

/-! ## the residual vector of biodivine's `grounded_internal` -/
section residual
variable {T : Type} {L : Lib T} {nv : Nat} (W : Lawful L nv)

/-- **`grounded_internal` returns the conditions restricted by the grounded interpretation**: the
diagrams are valid, denote `pre D g` position by position, where `g` - their information values,
what `Adf::grounded` reports - is the least fixpoint of Γ for the original conditions `D` -/
theorem groundedInternal_pre (ac : List T) (hv : ∀ x ∈ ac, W.Valid x) (hl : ac.length ≤ nv) :
    (∀ y ∈ groundedInternal L ac, W.Valid y) ∧ (groundedInternal L ac).length = ac.length ∧
    IsLfp (ac.map W.den) ((groundedInternal L ac).map L.isConst) ∧
    (groundedInternal L ac).map W.den = pre (ac.map W.den) ((groundedInternal L ac).map L.isConst) := by
  have ⟨a, b, c⟩ := groundedLoopB_sem W (ac.length + 1) ac hv hl
  have ⟨p, q⟩ := semLoop_pre_lfp (ac.map W.den) (ac.length + 1) (by simp)
  have e : (groundedInternal L ac).map L.isConst = cv (semLoop (ac.length + 1) (ac.map W.den)) := by
    unfold groundedInternal
    rw [map_isConst W _ a, c]
  refine ⟨a, b, ?_, ?_⟩
  · rw [e]; exact q
  · rw [e]
    show (groundedLoopB L (ac.length + 1) ac).map W.den = _
    rw [c]; exact p

end residual

/-! ## the bridge -/

theorem termVec_eq (d : List Node) (s : Store) (hlen : 2 ≤ d.length) :
    termVec d s = replayL (d.drop 2) s [0, 1] := by
  match d, hlen with
  | _ :: _ :: rest, _ => rfl

section bridge
variable {T : Type} {L : Lib T} {nv : Nat} (W : Lawful L nv) {dump : T → List Node} (hd : DumpSpec W dump)
include hd

/-- one condition: the store stays well formed and is only extended, the handle is valid and denotes
the diagram's function -/
theorem bridgeOne_spec (s : Store) (w : WF s) (t : T) (ht : W.Valid t) :
    WF (bridgeOne L dump s t).1 ∧ Ext s (bridgeOne L dump s t).1 ∧
    (bridgeOne L dump s t).2 < (bridgeOne L dump s t).1.nodes.size ∧
    ∀ σ, eval (bridgeOne L dump s t).1 (bridgeOne L dump s t).2 σ = W.den t σ := by
  unfold bridgeOne
  by_cases h1 : L.isTrue t = true
  · rw [if_pos h1]
    refine ⟨w, Ext.refl s, by have := w.len; show 1 < s.nodes.size; omega, fun σ => ?_⟩
    rw [eval_one, (W.isTrue_spec t ht).mp h1 σ]
  · rw [if_neg h1]
    by_cases h0 : L.isFalse t = true
    · rw [if_pos h0]
      refine ⟨w, Ext.refl s, by have := w.len; show 0 < s.nodes.size; omega, fun σ => ?_⟩
      rw [eval_zero, (W.isFalse_spec t ht).mp h0 σ]
    · rw [if_neg h0]
      have ⟨ok, len, den⟩ := hd.ok t ht (by simpa using h1) (by simpa using h0)
      simp only [termVec_eq (dump t) s len]
      have ⟨a, b, c, e⟩ := bridge_correct (dump t) ok len s w
      have hlast : (replayL ((dump t).drop 2) s [0, 1]).2.getLast? =
          (replayL ((dump t).drop 2) s [0, 1]).2[(dump t).length - 1]? := by
        rw [List.getLast?_eq_getElem?, c]
      have hlt : (dump t).length - 1 < (replayL ((dump t).drop 2) s [0, 1]).2.length := by omega
      have hsome : (replayL ((dump t).drop 2) s [0, 1]).2[(dump t).length - 1]? =
          some ((replayL ((dump t).drop 2) s [0, 1]).2[(dump t).length - 1]) :=
        List.getElem?_eq_getElem hlt
      rw [hlast, hsome]
      have := e _ _ _ hsome den
      exact ⟨a, b, this.1, this.2⟩

/-- the whole vector, one store, statement order -/
theorem bridgeAll_spec : ∀ (ts : List T) (s : Store), WF s → (∀ t ∈ ts, W.Valid t) →
    WF (bridgeAll L dump ts s).1 ∧ Ext s (bridgeAll L dump ts s).1 ∧
    (bridgeAll L dump ts s).2.length = ts.length ∧
    (∀ h ∈ (bridgeAll L dump ts s).2, h < (bridgeAll L dump ts s).1.nodes.size) ∧
    (bridgeAll L dump ts s).2.map (eval (bridgeAll L dump ts s).1) = ts.map W.den := by
  intro ts
  induction ts with
  | nil => intro s w _; exact ⟨w, Ext.refl s, rfl, by simp [bridgeAll], rfl⟩
  | cons t ts ih =>
    intro s w hv
    have ⟨w1, e1, v1, d1⟩ := bridgeOne_spec W hd s w t (hv t (by simp))
    have ⟨w2, e2, l2, v2, d2⟩ := ih (bridgeOne L dump s t).1 w1 (fun x hx => hv x (by simp [hx]))
    simp only [bridgeAll]
    refine ⟨w2, Ext.trans e1 e2, by simp [l2], ?_, ?_⟩
    · intro h hh
      simp only [List.mem_cons] at hh
      rcases hh with rfl | hh
      · exact Nat.lt_of_lt_of_le v1 e2.1
      · exact v2 h hh
    · simp only [List.map_cons]
      rw [d2]
      congr 1
      funext σ
      rw [eval_ext w1 e2 _ σ v1]
      exact d1 σ

end bridge

/-! ## `hybrid_step_opt` -/
section hybrid
variable {T : Type} {L : Lib T} {n : Nat} (W : Lawful L n) {dump : T → List Node} (hd : DumpSpec W dump)
include hd

/-- **the native object built by `hybrid_step_opt(opt)`**: a well-formed store, `n` valid handles, and
the functions they denote are the acceptance conditions themselves (`opt = false`) resp. the
acceptance conditions with the grounded interpretation `g` (the least fixpoint of Γ) substituted
(`opt = true`) -/
theorem hybridStep_spec (opt : Bool) (ac : List T) (hv : ∀ a ∈ ac, W.Valid a) (hn : ac.length = n) :
    let r := hybridStep L dump opt ac
    WF r.1 ∧ r.2.length = n ∧ (∀ h ∈ r.2, h < r.1.nodes.size) ∧
    ∃ g : I3, IsLfp (ac.map W.den) g ∧ g = (bioGrounded L ac).map storeIsConst ∧
      r.2.map (eval r.1) = if opt then pre (ac.map W.den) g else ac.map W.den := by
  intro r
  have ⟨gv, gl, glfp, gpre⟩ := groundedInternal_pre W ac hv (by omega)
  have eg : (bioGrounded L ac).map storeIsConst = (groundedInternal L ac).map L.isConst := by
    unfold bioGrounded
    rw [List.map_map]
    apply List.map_congr_left
    intro t _; exact toTerm_info t
  cases opt with
  | true =>
    have ⟨a, _, c, d, e⟩ := bridgeAll_spec W hd (groundedInternal L ac) Store.init WF_init' gv
    refine ⟨a, by rw [← hn, ← gl]; exact c, d, _, glfp, eg.symm, ?_⟩
    rw [if_pos rfl, ← gpre]; exact e
  | false =>
    have ⟨a, _, c, d, e⟩ := bridgeAll_spec W hd ac Store.init WF_init' hv
    exact ⟨a, by rw [← hn]; exact c, d, _, glfp, eg.symm, e⟩

end hybrid
end Bio
