import AdfObdd.CliModes
import AdfObdd.StoreLib
/-! # A concrete, executable `CliM.World`: what the model driver runs `CliM.runText` with

* the BDD library: truth tables (`Bio.ttLib`), every diagram TAGGED with the number of variables of
  its variable set (`Bio.Lib.tag`; a real `biodivine_lib_bdd::Bdd` carries `num_vars` too) — the tag is
  what lets ONE dump function serve every variable set;
* the node dump: `Bio.ttDump nv t`, the complete decision tree of the table in biodivine's layout
  (two terminal entries, children before parents, the root last);
* the alphanumeric sort: `CliM.NatLex.anSort`, `natural_lexical_cmp` of crate `lexical-sort` 0.3.1
  (`cmp.rs`, `iter.rs`) written down, with the transliteration table of crate `any_ascii` for
  U+0080–U+00FF (checked against the crate for these 128 code points).

A second world, `CliM.storeWorld`, takes the project's own ROBDD store as the library (it scales to
the 65-130 statements of the `cliwide` runs, where truth tables do not).

Definitions only (Mathlib-free, the driver imports this file); the laws are in `CliWorldProofs.lean`. -/
namespace Bio

/-! ## tagging a library with its variable set -/

/-- the library `L` with every diagram paired with a tag (operations ignore the tags of their
arguments and tag their results with `k`) -/
def Lib.tag {T K : Type} (L : Lib T) (k : K) : Lib (K × T) where
  evalExpr := fun e => (k, L.evalExpr e)
  mkFalse := (k, L.mkFalse)
  isTrue := fun p => L.isTrue p.2
  isFalse := fun p => L.isFalse p.2
  select := fun p l => (k, L.select p.2 l)
  exist := fun p vs => (k, L.exist p.2 vs)
  restrict := fun p l => (k, L.restrict p.2 l)
  and := fun p q => (k, L.and p.2 q.2)
  iff := fun p q => (k, L.iff p.2 q.2)
  satVals := fun p => L.satVals p.2

/-- the truth-table library whose diagrams know their number of variables -/
def tagLib (nv : Nat) : Lib (Nat × Nat) := (ttLib nv).tag nv

/-! ## the dump of a truth table over `nv` variables, any `nv` -/

/-- the terminal index of one table entry -/
def ttBit (t a : Nat) : Nat := if t.testBit a then 1 else 0

/-- the decision tree below variable `k` for the valuation `a` of the variables `0 … k-1`, appended
to `d` (post-order: low subtree, high subtree, node); `fuel` = number of variables left; result:
the extended dump and the index of the subtree's root -/
def ttDumpGo (t : Nat) : Nat → Nat → Nat → List Node → List Node × Nat
  | 0, _, a, d => (d, ttBit t a)
  | f + 1, k, a, d =>
    let l := ttDumpGo t f (k + 1) a d
    let h := ttDumpGo t f (k + 1) (2 ^ k + a) l.1
    (h.1 ++ [⟨k, l.2, h.2⟩], h.1.length)

/-- `Bdd::to_string()` of the table `t` over `nv` variables as `from_biodivine_vector` reads it:
`|nv,0,0|nv,1,1|` then the complete (unreduced) decision tree, root last -/
def ttDump (nv t : Nat) : List Node := (ttDumpGo t nv 0 0 [⟨nv, 0, 0⟩, ⟨nv, 1, 1⟩]).1

end Bio

namespace CliM
namespace NatLex
open ParserM

/-- `char::to_ascii_lowercase` -/
def lower (c : Char) : Char := if 'A' ≤ c ∧ c ≤ 'Z' then Char.ofNat (c.toNat + 32) else c

/-- `any_ascii_char` on U+00AA–U+00FF (alphanumeric code points only; the values were read off the
crate). Outside this range the model has no table: the code point stands for itself. -/
def translit (n : Nat) : List Char :=
  if n = 0xaa then ['a'] else if n = 0xb2 then ['2'] else if n = 0xb3 then ['3'] else if n = 0xb5 then ['u']
  else if n = 0xb9 then ['1'] else if n = 0xba then ['o'] else if n = 0xbc then ['1', '/', '4']
  else if n = 0xbd then ['1', '/', '2'] else if n = 0xbe then ['3', '/', '4']
  else if 0xc0 ≤ n ∧ n ≤ 0xc5 then ['A'] else if n = 0xc6 then ['A', 'E'] else if n = 0xc7 then ['C']
  else if 0xc8 ≤ n ∧ n ≤ 0xcb then ['E'] else if 0xcc ≤ n ∧ n ≤ 0xcf then ['I'] else if n = 0xd0 then ['D']
  else if n = 0xd1 then ['N'] else if (0xd2 ≤ n ∧ n ≤ 0xd6) ∨ n = 0xd8 then ['O']
  else if 0xd9 ≤ n ∧ n ≤ 0xdc then ['U'] else if n = 0xdd then ['Y'] else if n = 0xde then ['T', 'h']
  else if n = 0xdf then ['s', 's'] else if 0xe0 ≤ n ∧ n ≤ 0xe5 then ['a'] else if n = 0xe6 then ['a', 'e']
  else if n = 0xe7 then ['c'] else if 0xe8 ≤ n ∧ n ≤ 0xeb then ['e'] else if 0xec ≤ n ∧ n ≤ 0xef then ['i']
  else if n = 0xf0 then ['d'] else if n = 0xf1 then ['n'] else if (0xf2 ≤ n ∧ n ≤ 0xf6) ∨ n = 0xf8 then ['o']
  else if 0xf9 ≤ n ∧ n ≤ 0xfc then ['u'] else if n = 0xfd ∨ n = 0xff then ['y'] else if n = 0xfe then ['t', 'h']
  else []

/-- `char::is_alphanumeric` (Unicode `Alphabetic` or numeric): exact for U+0000–U+024F (ASCII,
Latin-1 Supplement, Latin Extended-A/B); beyond that the model answers `false` -/
def isAlnumU (c : Char) : Bool :=
  let n := c.toNat
  if n < 128 then c.isAlphanum
  else n = 0xaa || n = 0xb2 || n = 0xb3 || n = 0xb5 || n = 0xb9 || n = 0xba || n = 0xbc || n = 0xbd || n = 0xbe
    || (0xc0 ≤ n && n ≤ 0x24f && n != 0xd7 && n != 0xf7)

/-- `iterate_lexical_char`: lowercase / transliterate / drop combining marks -/
def lexChar (c : Char) : List Char :=
  if c.toNat < 128 then [lower c]
  else if isAlnumU c then
    match translit c.toNat with
    | [] => [c]
    | s => s.map lower
  else if 0x300 ≤ c.toNat ∧ c.toNat ≤ 0x36f then []
  else [c]

/-- `iterate_lexical` -/
def lexical (s : Label) : List Char := s.flatMap lexChar

/-- `ret_ordering` -/
def retOrdering (a b : Char) : Ordering :=
  if isAlnumU a == isAlnumU b then compare a.toNat b.toNat
  else if isAlnumU a then .gt else .lt

def digitVal (c : Char) : Nat := c.toNat - '0'.toNat

/-- the loop of `natural_lexical_cmp` on the two transliterated streams; `dig = some (n1, n2)`: inside
`cmp_ascii_digits!` with the two numbers read so far (`u64` in the crate, unbounded here: the crate
overflows on runs of 20 digits). `none` = both streams ended (`s1.cmp(&s2)` decides). `fuel`: every
step consumes a character of one stream or leaves the digit mode. -/
def cmpGo : Nat → Option (Nat × Nat) → List Char → List Char → Option Ordering
  | 0, _, _, _ => none
  | fuel + 1, some (n1, n2), as, bs =>
    match as.head?.filter Char.isDigit, bs.head?.filter Char.isDigit with
    | some a, some b => cmpGo fuel (some (n1 * 10 + digitVal a, n2 * 10 + digitVal b)) as.tail bs.tail
    | some _, none => some .gt
    | none, some _ => some .lt
    | none, none => if n1 != n2 then some (compare n1 n2) else cmpGo fuel none as bs
  | fuel + 1, none, as, bs =>
    match as, bs with
    | [], [] => none
    | _ :: _, [] => some .gt
    | [], _ :: _ => some .lt
    | a :: as, b :: bs =>
      if a.isDigit && b.isDigit then cmpGo fuel (some (digitVal a, digitVal b)) as bs
      else if a != b then some (retOrdering a b)
      else cmpGo fuel none as bs

/-- `natural_lexical_cmp(s1, s2) != Greater` -/
def le (s1 s2 : Label) : Bool :=
  match cmpGo (2 * (lexical s1).length + 2 * (lexical s2).length + 4) none (lexical s1) (lexical s2) with
  | some o => o != .gt
  | none => SortModel.byteLe s1 s2

/-- `string_sort_unstable(natural_lexical_cmp)` on a list of pairwise different labels (insertion
sort: the result of a comparison sort is determined by the comparison function when that is a strict
total order on the elements, see SortModel.lean) -/
def anSort (ns : List Label) : List Label := SortModel.isort le ns

end NatLex

/-- the world the driver runs: tagged truth tables, decision-tree dump, the natural-lexical sort -/
def drvWorld : World (Nat × Nat) where
  lib := Bio.tagLib
  dump := fun p => Bio.ttDump p.1 p.2
  anSort := NatLex.anSort

/-- the world the driver runs BEYOND truth-table size (more than `Drv.ttLimit` statements): the
project's own verified ROBDD store as the BDD library (`Bio.storeLib`, StoreLib.lean: diagrams are pairs
(node table, handle); lawful for every `nv ≤ VBOT`, `Bio.storeLawful`), its node-table dump
(`Bio.storeDump`: reduced, shared, satisfies `Bio.DumpSpec`), the same natural-lexical sort -/
def storeWorld : World (Store × Nat) where
  lib := Bio.storeLib
  dump := Bio.storeDump
  anSort := NatLex.anSort

end CliM
