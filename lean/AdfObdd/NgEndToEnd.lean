import AdfObdd.NgSimulation
import AdfObdd.AdfPipeline
/-! # C05 end to end: the concrete nogood-learning search terminates and is exact

`sim_run` carries a halting run of the semantic machine (`NSem.sem_halts`, `NSem.sem_exact`) to the
concrete loop `SM.ngRun` through the lock-step simulation `sim_iter`; the heuristic oracle of the
semantic machine is read off the concrete run itself (`rawOf`: the answer the concrete heuristic
gives in iteration `k`). `ng_end_to_end` is the statement about `SM.ngSearch`. -/
namespace NConc
open NSem

/-! ### the concrete run, iteration by iteration, for an arbitrary concrete heuristic -/

/-- the loop of `nogood_internal` with an arbitrary heuristic function in the place of `SM.heuCall h` -/
def cRun (hc : CHeu) (n : Nat) (ac : List Nat) (stable : Bool) : Nat → SM.NgS → SM.NgS
  | 0, st => st
  | fuel+1, st => if st.done then st else cRun hc n ac stable fuel (cIter hc n ac stable st)

theorem ngRun_eq (h : SM.Heu) (n : Nat) (ac : List Nat) (stable : Bool) : ∀ (k : Nat) (st : SM.NgS),
    SM.ngRun h n ac stable k st = cRun (SM.heuCall h) n ac stable k st := by
  intro k
  induction k with
  | zero => intro st; rfl
  | succ k ih =>
    intro st
    unfold SM.ngRun cRun
    rw [ngIter_eq, ih]

theorem cRun_succ (hc : CHeu) (n : Nat) (ac : List Nat) (stable : Bool) : ∀ (k : Nat) (st : SM.NgS),
    cRun hc n ac stable (k + 1) st =
      (if (cRun hc n ac stable k st).done then cRun hc n ac stable k st
       else cIter hc n ac stable (cRun hc n ac stable k st)) := by
  intro k
  induction k with
  | zero =>
    intro st
    by_cases hd : st.done = true
    · simp [cRun, hd]
    · simp [cRun, hd]
  | succ k ih =>
    intro st
    by_cases hd : st.done = true
    · have e : ∀ j, cRun hc n ac stable (j + 1) st = st := by
        intro j; unfold cRun; rw [if_pos hd]
      rw [e (k + 1), e k, if_pos hd]
    · have e : ∀ j, cRun hc n ac stable (j + 1) st = cRun hc n ac stable j (cIter hc n ac stable st) := by
        intro j
        conv => lhs; unfold cRun
        rw [if_neg hd]
      rw [e (k + 1), e k]
      exact ih _

/-- the start state of `SM.ngSearch` -/
def initC (s : Store) (n : Nat) (ac : List Nat) : SM.NgS :=
  { s := (groundedLoop StoreRA (n + 1) s ac).1, cur := (groundedLoop StoreRA (n + 1) s ac).2,
    buckets := List.replicate (n + 1) [], stack := [], hist := [] }

/-- `SM.ngSearch` with an arbitrary heuristic function -/
def cSearch (hc : CHeu) (fuel : Nat) (s : Store) (n : Nat) (ac : List Nat) (stable : Bool) :
    Store × List (List Nat) × List (List Nat) × Bool :=
  ((cRun hc n ac stable fuel (initC s n ac)).s, (cRun hc n ac stable fuel (initC s n ac)).out,
   (cRun hc n ac stable fuel (initC s n ac)).trace, (cRun hc n ac stable fuel (initC s n ac)).done)

theorem ngSearch_eq (h : SM.Heu) (fuel : Nat) (s : Store) (n : Nat) (ac : List Nat) (stable : Bool) :
    SM.ngSearch h fuel s n ac stable = cSearch (SM.heuCall h) fuel s n ac stable := by
  have e : SM.ngSearch h fuel s n ac stable =
      ((SM.ngRun h n ac stable fuel (initC s n ac)).s, (SM.ngRun h n ac stable fuel (initC s n ac)).out,
       (SM.ngRun h n ac stable fuel (initC s n ac)).trace, (SM.ngRun h n ac stable fuel (initC s n ac)).done) := rfl
  rw [e, ngRun_eq]
  rfl

def cState (hc : CHeu) (s : Store) (n : Nat) (ac : List Nat) (stable : Bool) (k : Nat) : SM.NgS :=
  cRun hc n ac stable k (initC s n ac)

/-- the heuristic oracle: what the concrete heuristic answers in iteration `k` of the concrete run -/
def rawOf (hc : CHeu) (s : Store) (n : Nat) (ac : List Nat) (stable : Bool) (k : Nat) : Option (Nat × Bool) :=
  conv (hc (cState hc s n ac stable k).s (cState hc s n ac stable k).cur (cState hc s n ac stable k).time)

section run
variable (h : CHeu) (s : Store) (n : Nat) (ac : List Nat) (stable : Bool)

/-- a halting abstract run gives a halting concrete run with the same outputs -/
theorem sim_run (hok : HeuOK h) (w0 : WF s) (hac0 : ∀ t ∈ ac, t < s.nodes.size) (hn : ac.length = n) :
    ∀ (fuel k : Nat) (a a' : ASt), Rel (cState h s n ac stable k) a → CInv s n (cState h s n ac stable k) →
    NGen.run (PP s n ac stable (rawOf h s n ac stable)) k fuel a = some a' →
    ∃ m, (cState h s n ac stable m).done = true ∧ (cState h s n ac stable m).out.map toPA = a'.out := by
  intro fuel
  induction fuel with
  | zero => intro k a a' _ _ hr; cases hr
  | succ f ih =>
    intro k a a' hr hi hrun
    have hnext : cState h s n ac stable (k + 1) = cIter h n ac stable (cState h s n ac stable k) := by
      have hnd : (cRun h n ac stable k (initC s n ac)).done = false := hi.nd
      unfold cState
      rw [cRun_succ, hnd]
      simp only [Bool.false_eq_true, if_false]
    have hsim := sim_iter ac stable (rawOf h s n ac stable) w0 hac0 hn hok k hr hi rfl
    unfold NGen.run at hrun
    cases hit : NGen.iter (PP s n ac stable (rawOf h s n ac stable)) k a with
    | done a1 =>
      rw [hit] at hrun hsim
      simp only [Option.some.injEq] at hrun
      subst hrun
      exact ⟨k + 1, by rw [hnext]; exact hsim.1, by rw [hnext]; exact hsim.2⟩
    | cont a1 =>
      rw [hit] at hrun hsim
      simp only at hrun hsim
      exact ih (k + 1) a1 a' (by rw [hnext]; exact hsim.1) (by rw [hnext]; exact hsim.2) hrun

end run

/-! ### the start state: the grounded interpretation -/

theorem reach_grounded (D : List BoolFn) (fuel : Nat) (hf : D.length < fuel) : Reach D (semLoop fuel D) := by
  have r0 : Reach D D := by
    apply reach_init
    intro w' hw' i b h
    simp only [cv, List.getElem?_map] at h
    cases hd : D[i]? with
    | none => simp [hd] at h
    | some f =>
      simp only [hd, Option.map_some, Option.some.injEq] at h
      rw [constOf_some] at h
      rw [← hw']
      simp only [Gam, List.getElem?_map, hd, Option.map_some, Option.some.injEq]
      rw [constOf_some]
      intro σ; exact h _
  exact (semLoop_spec D fuel D r0 (by omega)).1

theorem okV_of_reach {D : List BoolFn} {n : Nat} {stable : Bool} (hD : D.length = n) {V : List BoolFn}
    (r : Reach D V) : OkV D n stable V ∧ ∀ σ, Target D n stable σ → Matches (cv V) σ := by
  refine ⟨⟨by rw [r.len, hD], ?_⟩, ?_⟩
  · intro σ hT hm i f hf
    have hi : i < D.length := by
      rw [← r.len]
      rcases Nat.lt_or_ge i V.length with c | c
      · exact c
      · rw [List.getElem?_eq_none c] at hf; cases hf
    have hg : D[i]? = some D[i] := List.getElem?_eq_getElem hi
    rw [r.res i f D[i] hf hg σ (matches_iff_agree.mp hm)]
    exact target_model hD hT hg
  · intro σ hT
    apply matches_iff_agree.mpr
    exact (agree_vOf n σ).mono (r.snd _ hT.1)

theorem init_facts (s : Store) (n : Nat) (ac : List Nat) (stable : Bool) (w0 : WF s)
    (hac0 : ∀ t ∈ ac, t < s.nodes.size) (hn : ac.length = n) :
    Rel (initC s n ac) (initSt ((initC s n ac).cur.map (eval (initC s n ac).s)) n) ∧ CInv s n (initC s n ac) ∧
    OkV (ac.map (eval s)) n stable ((initC s n ac).cur.map (eval (initC s n ac).s)) ∧
    (∀ σ, Target (ac.map (eval s)) n stable σ → Matches (cv ((initC s n ac).cur.map (eval (initC s n ac).s))) σ) := by
  have ⟨i1, l1, v1, d1⟩ := groundedLoop_sem StoreRA (n + 1) s ac w0 hac0
  have hDl : (ac.map (eval s)).length = n := by simp [hn]
  have hreach := reach_grounded (ac.map (eval s)) (n + 1) (by omega)
  have hV : (initC s n ac).cur.map (eval (initC s n ac).s) = semLoop (n + 1) (ac.map (eval s)) := d1
  have ⟨o1, o2⟩ := okV_of_reach (stable := stable) hDl hreach
  refine ⟨⟨rfl, rfl, StackRel.nil _, rfl, rfl, rfl⟩, ⟨i1, l1, v1, ?_, (fun _ hx => by cases hx), rfl⟩, ?_, ?_⟩
  · have := congrArg List.length hV
    rw [List.length_map, hreach.len, hDl] at this
    exact this
  · rw [hV]; exact o1
  · rw [hV]; exact o2

/-! ### end to end -/

/-- the assignment read off a total interpretation -/
def sigOf (v : I3) : Asg := fun i => (pget v i).getD false

theorem matches_sigOf (v : I3) : Matches v (sigOf v) := by
  intro i b h; simp [sigOf, h]

theorem twoV_of_total {v : I3} (h : TotalI v) : twoV v = true := by
  unfold twoV
  rw [List.all_eq_true]
  intro x hx
  obtain ⟨i, hi, rfl⟩ := List.getElem_of_mem hx
  obtain ⟨b, hb⟩ := h i hi
  rw [List.getElem?_eq_getElem hi] at hb
  rw [Option.some.inj hb]; rfl

theorem total_of_twoV {v : I3} (h : twoV v = true) : TotalI v := fun i hi => twoV_true h i hi

/-- **C05 for the concrete loop with ANY heuristic function** that always proposes an undecided
statement with a truth value (`HeuOK`): the loop halts within some fuel and the emitted
interpretations are, without repetition, exactly the two-valued models (`stable = false`) resp. the
stable models (`stable = true`) -/
theorem search_exact_any_heuristic (hc : CHeu) (hok : HeuOK hc) (s : Store) (n : Nat) (ac : List Nat) (stable : Bool)
    (w0 : WF s) (hn : ac.length = n) (hac0 : ∀ t ∈ ac, t < s.nodes.size)
    (hsup : stable = false → ∀ t ∈ ac, ∀ σ τ : Asg, (∀ i, i < n → σ i = τ i) → eval s t σ = eval s t τ) :
    ∃ fuel, (cSearch hc fuel s n ac stable).2.2.2 = true ∧
      let D := ac.map (eval s)
      let out := (cSearch hc fuel s n ac stable).2.1.map (fun v => v.map storeIsConst)
      out.Nodup ∧ ∀ v : I3, v ∈ out ↔
        (v.length = n ∧ TotalI v ∧ Gam D v = v ∧
          (stable = true → ∀ w : I3, IsLfp (redu D v) w → ∀ i : Nat, v[i]? = some (some true) → w[i]? = some (some true))) := by
  have hDl : (ac.map (eval s)).length = n := by simp [hn]
  have hS : stable = false → ∀ f ∈ ac.map (eval s), Supp n f := by
    intro hst f hf
    obtain ⟨t, ht, rfl⟩ := List.mem_map.mp hf
    exact hsup hst t ht
  have ⟨hrel, hinv, hokv, hg⟩ := init_facts s n ac stable w0 hac0 hn
  obtain ⟨fuel, a', hrun⟩ := sem_halts (D := ac.map (eval s)) (stable := stable) (rawOf hc s n ac stable) _ hokv
  have ⟨e1, e2, e3, e4⟩ := sem_exact hDl hS (rawOf hc s n ac stable) _ hokv hg fuel a' hrun
  obtain ⟨m, hdone, hout⟩ := sim_run hc s n ac stable hok w0 hac0 hn fuel 0 _ a' hrel hinv hrun
  refine ⟨m, hdone, ?_⟩
  · simp only
    have hout' : (cSearch hc m s n ac stable).2.1.map (fun v => v.map storeIsConst) = a'.out := hout
    simp only [hout']
    refine ⟨e3, ?_⟩
    intro v
    constructor
    · intro hv
      have ⟨t1, t2⟩ := e4 v hv
      have hT := e2 v hv (sigOf v) (matches_sigOf v)
      have hvo := vOf_of_matches t2 t1 (matches_sigOf v)
      rw [Target, hvo] at hT
      refine ⟨t2, total_of_twoV t1, hT.1, ?_⟩
      intro hs w hw i hi
      rw [hT.2 hs w hw]; exact hi
    · intro ⟨hl, ht, hfix, hcond⟩
      have t1 := twoV_of_total ht
      have hvo := vOf_of_matches hl t1 (matches_sigOf v)
      have hT : Target (ac.map (eval s)) n stable (sigOf v) := by
        rw [Target, hvo]
        refine ⟨hfix, ?_⟩
        intro hs w hw
        exact (stable_check_iff _ v w (by rw [hl, hDl]) ht hw).mpr ⟨hfix, hcond hs w hw⟩
      obtain ⟨o, ho, hm⟩ := e1 (sigOf v) hT
      have ⟨o1, o2⟩ := e4 o ho
      have := vOf_of_matches o2 o1 hm
      rw [hvo] at this
      rw [this]; exact ho

/-- **C05 for the concrete model**: for every heuristic of `SM.Heu`, every well-formed store and every
valid vector of acceptance conditions over the statements `0 … n-1`, `SM.ngSearch` halts within some
fuel and the emitted interpretations are, without repetition, exactly the two-valued models
(`stable = false`) resp. the stable models (`stable = true`). -/
theorem ng_end_to_end (h : SM.Heu) (s : Store) (n : Nat) (ac : List Nat) (stable : Bool)
    (w0 : WF s) (hn : ac.length = n) (hac0 : ∀ t ∈ ac, t < s.nodes.size)
    (hsup : stable = false → ∀ t ∈ ac, ∀ σ τ : Asg, (∀ i, i < n → σ i = τ i) → eval s t σ = eval s t τ) :
    ∃ fuel, (SM.ngSearch h fuel s n ac stable).2.2.2 = true ∧
      let D := ac.map (eval s)
      let out := (SM.ngSearch h fuel s n ac stable).2.1.map (fun v => v.map storeIsConst)
      out.Nodup ∧ ∀ v : I3, v ∈ out ↔
        (v.length = n ∧ TotalI v ∧ Gam D v = v ∧
          (stable = true → ∀ w : I3, IsLfp (redu D v) w → ∀ i : Nat, v[i]? = some (some true) → w[i]? = some (some true))) := by
  have := search_exact_any_heuristic (SM.heuCall h) (heuOK_builtin h) s n ac stable w0 hn hac0 hsup
  simp only [← ngSearch_eq] at this
  exact this

/-! ### from the written acceptance conditions: the support hypothesis is a property of the text -/

/-- every atom of the formula is one of the statements `0 … n-1` (what "every atom is declared"
means after `from_parser` has numbered the statements) -/
def atomsLt (n : Nat) : Fm → Prop
  | .top => True | .bot => True
  | .atom v => v < n
  | .not f => atomsLt n f
  | .and a b => atomsLt n a ∧ atomsLt n b | .or a b => atomsLt n a ∧ atomsLt n b
  | .imp a b => atomsLt n a ∧ atomsLt n b | .xor a b => atomsLt n a ∧ atomsLt n b
  | .iff a b => atomsLt n a ∧ atomsLt n b

theorem atomsOK_of_lt {n : Nat} (hn : n ≤ VBOT) : ∀ f : Fm, atomsLt n f → f.atomsOK := by
  intro f
  induction f with
  | top => intro _; trivial
  | bot => intro _; trivial
  | atom v => intro h; exact Nat.lt_of_lt_of_le h hn
  | not f ih => intro h; exact ih h
  | and a b iha ihb => intro h; exact ⟨iha h.1, ihb h.2⟩
  | or a b iha ihb => intro h; exact ⟨iha h.1, ihb h.2⟩
  | imp a b iha ihb => intro h; exact ⟨iha h.1, ihb h.2⟩
  | xor a b iha ihb => intro h; exact ⟨iha h.1, ihb h.2⟩
  | iff a b iha ihb => intro h; exact ⟨iha h.1, ihb h.2⟩

theorem sem_supp {n : Nat} : ∀ f : Fm, atomsLt n f → Supp n f.sem := by
  intro f
  induction f with
  | top => intro _ σ τ _; rfl
  | bot => intro _ σ τ _; rfl
  | atom v => intro h σ τ e; exact e v h
  | not f ih => intro h σ τ e; simp only [Fm.sem, ih h σ τ e]
  | and a b iha ihb => intro h σ τ e; simp only [Fm.sem, iha h.1 σ τ e, ihb h.2 σ τ e]
  | or a b iha ihb => intro h σ τ e; simp only [Fm.sem, iha h.1 σ τ e, ihb h.2 σ τ e]
  | imp a b iha ihb => intro h σ τ e; simp only [Fm.sem, iha h.1 σ τ e, ihb h.2 σ τ e]
  | xor a b iha ihb => intro h σ τ e; simp only [Fm.sem, iha h.1 σ τ e, ihb h.2 σ τ e]
  | iff a b iha ihb => intro h σ τ e; simp only [Fm.sem, iha h.1 σ τ e, ihb h.2 σ τ e]

/-- **C05 from the written framework** (`from_parser` model + nogood search): for every list of
acceptance conditions whose atoms are statements of the framework, every heuristic and both modes,
the search halts and emits exactly the two-valued resp. stable models of the WRITTEN conditions -/
theorem ng_end_to_end_compiled (h : SM.Heu) (fms : List Fm) (stable : Bool) (hn : fms.length ≤ VBOT)
    (hv : ∀ f ∈ fms, atomsLt fms.length f) :
    ∃ fuel, (SM.ngSearch h fuel (buildNative fms.length fms).1 fms.length (buildNative fms.length fms).2 stable).2.2.2 = true ∧
      let D := fms.map Fm.sem
      let out := (SM.ngSearch h fuel (buildNative fms.length fms).1 fms.length (buildNative fms.length fms).2 stable).2.1.map
        (fun v => v.map storeIsConst)
      out.Nodup ∧ ∀ v : I3, v ∈ out ↔
        (v.length = fms.length ∧ TotalI v ∧ Gam D v = v ∧
          (stable = true → ∀ w : I3, IsLfp (redu D v) w → ∀ i : Nat, v[i]? = some (some true) → w[i]? = some (some true))) := by
  have hok : ∀ f ∈ fms, f.atomsOK := fun f hf => atomsOK_of_lt hn f (hv f hf)
  have ⟨w, hl, hc⟩ := buildNative_correct fms.length fms hn hok
  have hvalid : ∀ t ∈ (buildNative fms.length fms).2, t < (buildNative fms.length fms).1.nodes.size := by
    intro t ht
    obtain ⟨i, hi, rfl⟩ := List.getElem_of_mem ht
    have hi' : i < fms.length := by omega
    exact (hc i _ _ (List.getElem?_eq_getElem hi) (List.getElem?_eq_getElem hi')).1
  have e : (buildNative fms.length fms).2.map (eval (buildNative fms.length fms).1) = fms.map Fm.sem :=
    map_eval_eq_sem _ _ fms hl (fun i t f a c => (hc i t f a c).2)
  have hsup : stable = false → ∀ t ∈ (buildNative fms.length fms).2, ∀ σ τ : Asg,
      (∀ i, i < fms.length → σ i = τ i) → eval (buildNative fms.length fms).1 t σ = eval (buildNative fms.length fms).1 t τ := by
    intro _ t ht σ τ hst
    obtain ⟨i, hi, rfl⟩ := List.getElem_of_mem ht
    have hi' : i < fms.length := by omega
    have hev := (hc i _ _ (List.getElem?_eq_getElem hi) (List.getElem?_eq_getElem hi')).2
    rw [hev σ, hev τ]
    exact sem_supp _ (hv _ (List.getElem_mem hi')) σ τ hst
  have := ng_end_to_end h _ fms.length _ stable w hl hvalid hsup
  simp only [e] at this
  exact this

end NConc
#print axioms NConc.search_exact_any_heuristic
#print axioms NConc.ng_end_to_end
#print axioms NConc.ng_end_to_end_compiled
