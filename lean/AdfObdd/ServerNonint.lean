import AdfObdd.ServerProofs
/-! Unwinding lemmas for the noninterference statement of C17: the part of the state that
    belongs to a set `S` of account names and to one cookie jar `j` evolves, under the events of
    `j`, exactly as it would alone, and is not changed by events that stay outside `S`. -/
namespace ServerM
section
variable {T H A R : Type} [DecidableEq T]

/-- the view of jar `j` with name space `S` agrees between the full state `s` and the alone state `a` -/
structure Sim (S : T → Bool) (j : Nat) (s a : State T H A R) : Prop where
  db : DbSim S (fun k => decide (k = j)) s.db a.db
  sess : s.sess j = a.sess j

/-- the name-space discipline: `j`'s session and tasks live inside `S`, everybody else's outside -/
structure NsInv (S : T → Bool) (j : Nat) (s : State T H A R) : Prop where
  mine : ∀ u, s.sess j = some u → S u = true
  others : ∀ k, k ≠ j → ∀ u, s.sess k = some u → S u = false
  tasks : ∀ t ∈ s.db.tasks, S t.username = decide (t.jar = j)

/-- the account names an event mentions lie in `S` -/
def Event.namesIn (S : T → Bool) : Event T → Prop
  | .req rq => ∀ n ∈ reqNames rq.req, S n = true
  | _ => True

/-- tasks keep their tags -/
def TasksTagged (S : T → Bool) (j : Nat) (db : Db T H A R) : Prop :=
  ∀ t ∈ db.tasks, S t.username = decide (t.jar = j)

theorem exec_tagged_in {S : T → Bool} {j : Nat} (db : Db T H A R) (c : Cmd T H A R)
    (hc : CmdIn S (fun k => decide (k = j)) c) (h : TasksTagged S j db) : TasksTagged S j (exec db c).1 := by
  cases c with
  | spawn t =>
    intro x hx
    simp only [exec, List.mem_append, List.mem_singleton] at hx
    rcases hx with hx | hx
    · exact h x hx
    · subst hx
      have h2 : decide (x.jar = j) = true := hc.2
      rw [hc.1, h2]
  | uInsert u => simp only [exec]; split <;> exact h
  | uReplace n u => simp only [exec]; split <;> exact h
  | _ => exact h

theorem exec_tagged_out {S : T → Bool} {j : Nat} (db : Db T H A R) (c : Cmd T H A R)
    (hc : CmdIn (fun x => !S x) (fun k => !decide (k = j)) c) (h : TasksTagged S j db) :
    TasksTagged S j (exec db c).1 := by
  cases c with
  | spawn t =>
    intro x hx
    simp only [exec, List.mem_append, List.mem_singleton] at hx
    rcases hx with hx | hx
    · exact h x hx
    · subst hx
      have h1 : S x.username = false := by have := hc.1; cases hS : S x.username <;> simp_all
      have h2 : decide (x.jar = j) = false := by have := hc.2; cases hd : decide (x.jar = j) <;> simp_all
      rw [h1, h2]
  | uInsert u => simp only [exec]; split <;> exact h
  | uReplace n u => simp only [exec]; split <;> exact h
  | _ => exact h

/-! ### requests -/

theorem applyCookie_in {S : T → Bool} (id : Option T) (ck : Cookie T) (names : List T)
    (hid : ∀ u, id = some u → S u = true) (hn : ∀ n ∈ names, S n = true) (hck : ∀ u, ck = .login u → u ∈ names) :
    ∀ u, applyCookie id ck = some u → S u = true := by
  intro u hu
  cases ck with
  | keep => exact hid u hu
  | login x => simp only [applyCookie, Option.some.injEq] at hu; subst hu; exact hn _ (hck _ rfl)
  | logout => simp [applyCookie] at hu

/-- a request of jar `j` whose names lie in `S`: same response, views stay related -/
theorem step_mine (E : Env T H A R) {S : T → Bool} {j : Nat} {s a : State T H A R} (rq : Request T) (hj : rq.jar = j)
    (sim : Sim S j s a) (is : NsInv S j s) (ia : NsInv S j a) (hn : ∀ n ∈ reqNames rq.req, S n = true) :
    (step E s rq).2 = (step E a rq).2 ∧ Sim S j (step E s rq).1 (step E a rq).1 ∧
    NsInv S j (step E s rq).1 ∧ NsInv S j (step E a rq).1 := by
  subst hj
  have hsess := sim.sess
  have hown := handler_owned E rq.jar (s.sess rq.jar) rq.req
  have hU : ∀ u, actor (s.sess rq.jar) rq.req = some u → S u = true := by
    intro u hu
    cases hq : rq.req with
    | add name code file parsing fu fp =>
      rw [hq] at hu hn
      simp only [actor, Option.some.injEq] at hu
      cases hs : s.sess rq.jar with
      | none => rw [hs] at hu; simp only [addUser] at hu; subst hu; exact hn _ (by simp [reqNames])
      | some v => rw [hs] at hu; simp only [addUser] at hu; subst hu; exact is.mine _ hs
    | _ => rw [hq] at hu; exact is.mine u hu
  have hin := hown.mono (Q' := CmdIn S (fun k => decide (k = rq.jar))) (P' := RetShape (s.sess rq.jar) rq.req)
    (Owned.cmdIn hU hn (by simp)) (fun _ h => h)
  have hrun := run_in hin s.db a.db sim.db
  have hret := run_ret hown s.db
  have key : run (handler E rq.jar (a.sess rq.jar) rq.req) a.db = run (handler E rq.jar (s.sess rq.jar) rq.req) a.db := by
    rw [hsess]
  refine ⟨?_, ⟨?_, ?_⟩, ⟨?_, ?_, ?_⟩, ⟨?_, ?_, ?_⟩⟩
  · simp only [step, stepT]; rw [key]; exact hrun.1
  · simp only [step, stepT]; rw [key]; exact hrun.2
  · simp only [step, stepT, if_true]; rw [key, hrun.1, hsess]
  · -- NsInv of the full state
    intro u hu
    simp only [step, stepT, if_true] at hu
    exact applyCookie_in _ _ _ is.mine hn hret.2 u hu
  · intro k hk u hu
    simp only [step, stepT, if_neg hk] at hu
    exact is.others k hk u hu
  · simp only [step, stepT]
    exact run_inv (TasksTagged S rq.jar) (fun db c hc h => exec_tagged_in db c hc h) hin s.db is.tasks
  · intro u hu
    simp only [step, stepT, if_true] at hu
    rw [key, ← hrun.1, ← hsess] at hu
    exact applyCookie_in _ _ _ is.mine hn hret.2 u hu
  · intro k hk u hu
    simp only [step, stepT, if_neg hk] at hu
    exact ia.others k hk u hu
  · simp only [step, stepT]
    rw [key]
    exact run_inv (TasksTagged S rq.jar) (fun db c hc h => exec_tagged_in db c hc h) hin a.db ia.tasks

/-- a request of another jar whose names lie outside `S` does not change the view -/
theorem step_other (E : Env T H A R) {S : T → Bool} {j : Nat} {s a : State T H A R} (rq : Request T) (hj : rq.jar ≠ j)
    (sim : Sim S j s a) (is : NsInv S j s) (hn : ∀ n ∈ reqNames rq.req, S n = false) :
    Sim S j (step E s rq).1 a ∧ NsInv S j (step E s rq).1 := by
  have hown := handler_owned E rq.jar (s.sess rq.jar) rq.req
  have hU : ∀ u, actor (s.sess rq.jar) rq.req = some u → (!S u) = true := by
    intro u hu
    have : S u = false := by
      cases hq : rq.req with
      | add name code file parsing fu fp =>
        rw [hq] at hu hn
        simp only [actor, Option.some.injEq] at hu
        cases hs : s.sess rq.jar with
        | none => rw [hs] at hu; simp only [addUser] at hu; subst hu; exact hn _ (by simp [reqNames])
        | some v => rw [hs] at hu; simp only [addUser] at hu; subst hu; exact is.others _ hj _ hs
      | _ => rw [hq] at hu; exact is.others _ hj u hu
    simp [this]
  have hout := hown.mono (Q' := CmdIn (fun x => !S x) (fun k => !(fun k => decide (k = j)) k)) (P' := fun _ => True)
    (Owned.cmdIn hU (by intro n hn'; simp [hn n hn']) (by simpa using hj)) (fun _ _ => trivial)
  have hret := run_ret hown s.db
  refine ⟨⟨?_, ?_⟩, ⟨?_, ?_, ?_⟩⟩
  · simp only [step, stepT]
    exact (run_out hout s.db).trans sim.db
  · simp only [step, stepT, if_neg (Ne.symm hj)]
    exact sim.sess
  · intro u hu
    simp only [step, stepT, if_neg (Ne.symm hj)] at hu
    exact is.mine u hu
  · intro k hk u hu
    simp only [step, stepT] at hu
    by_cases hkr : k = rq.jar
    · rw [if_pos hkr] at hu
      cases hc : (run (handler E rq.jar (s.sess rq.jar) rq.req) s.db).2.1.cookie with
      | keep => rw [hc] at hu; simp only [applyCookie] at hu; exact is.others _ hj u hu
      | login x =>
        rw [hc] at hu; simp only [applyCookie, Option.some.injEq] at hu; subst hu
        exact hn _ (hret.2 _ hc)
      | logout => rw [hc] at hu; simp [applyCookie] at hu
    · rw [if_neg hkr] at hu
      exact is.others k hk u hu
  · simp only [step, stepT]
    exact run_inv (TasksTagged S j) (fun db c hc h => exec_tagged_out db c hc h) hout s.db is.tasks

/-! ### task events -/

theorem mem_updNth (jar : Nat) (f : TaskRec T A → TaskRec T A) : ∀ (n : Nat) (l : List (TaskRec T A)) (x : TaskRec T A),
    x ∈ updNth jar f n l → x ∈ l ∨ ∃ y ∈ l, x = f y := by
  intro n l
  induction l generalizing n with
  | nil => intro x hx; simp [updNth] at hx
  | cons t ts ih =>
    intro x hx
    unfold updNth at hx
    by_cases ht : t.jar = jar
    · rw [if_pos ht] at hx
      cases n with
      | zero =>
        simp only [List.mem_cons] at hx
        rcases hx with hx | hx
        · exact Or.inr ⟨t, List.mem_cons_self .., hx⟩
        · exact Or.inl (List.mem_cons_of_mem _ hx)
      | succ k =>
        simp only [List.mem_cons] at hx
        rcases hx with hx | hx
        · exact Or.inl (hx ▸ List.mem_cons_self ..)
        · rcases ih k x hx with h | ⟨y, hy, h⟩
          · exact Or.inl (List.mem_cons_of_mem _ h)
          · exact Or.inr ⟨y, List.mem_cons_of_mem _ hy, h⟩
    · rw [if_neg ht] at hx
      simp only [List.mem_cons] at hx
      rcases hx with hx | hx
      · exact Or.inl (hx ▸ List.mem_cons_self ..)
      · rcases ih n x hx with h | ⟨y, hy, h⟩
        · exact Or.inl (List.mem_cons_of_mem _ h)
        · exact Or.inr ⟨y, List.mem_cons_of_mem _ hy, h⟩

theorem tagged_updNth {S : T → Bool} {j : Nat} (jar n : Nat) (f : TaskRec T A → TaskRec T A)
    (hf : ∀ t, (f t).jar = t.jar ∧ (f t).username = t.username) (l : List (TaskRec T A))
    (h : ∀ t ∈ l, S t.username = decide (t.jar = j)) : ∀ t ∈ updNth jar f n l, S t.username = decide (t.jar = j) := by
  intro t ht
  rcases mem_updNth jar f n l t ht with h' | ⟨y, hy, h'⟩
  · exact h t h'
  · subst h'; rw [(hf y).1, (hf y).2]; exact h y hy

theorem filter_erase_in (S : T → Bool) (i : RInfo T) (l : List (RInfo T)) :
    (eraseInfo i l).filter (fun x => S x.username) = eraseInfo i (l.filter (fun x => S x.username)) := by
  simp only [eraseInfo, List.filter_filter]
  apply List.filter_congr
  intro x _
  exact Bool.and_comm _ _

theorem filter_erase_out (S : T → Bool) (i : RInfo T) (hi : S i.username = false) (l : List (RInfo T)) :
    (eraseInfo i l).filter (fun x => S x.username) = l.filter (fun x => S x.username) := by
  simp only [eraseInfo, List.filter_filter]
  apply List.filter_congr
  intro x _
  by_cases hx : isInfo i x = true
  · have : x.username = i.username := by
      simp only [isInfo, Bool.and_eq_true, decide_eq_true_eq] at hx; exact hx.1.1
    simp [this, hi]
  · simp [hx]

/-- the database part of a task event of jar `j` -/
theorem dbEv_mine (E : Env T H A R) {S : T → Bool} {j : Nat} {d a : Db T H A R} (e : Event T) (hj : e.jar = j)
    (hreq : ∀ rq, e ≠ .req rq)
    (sim : DbSim S (fun k => decide (k = j)) d a) (td : TasksTagged S j d) (ta : TasksTagged S j a) :
    DbSim S (fun k => decide (k = j)) (dbEv E d e) (dbEv E a e) ∧ TasksTagged S j (dbEv E d e) ∧ TasksTagged S j (dbEv E a e) := by
  have hnth : ∀ n, nthOf j n d.tasks = nthOf j n a.tasks := by
    intro n; rw [← nthOf_filter j n d.tasks, ← nthOf_filter j n a.tasks, sim.tasks]
  have hSt : ∀ n t, nthOf j n d.tasks = some t → S t.username = true := by
    intro n t ht
    have := nthOf_mem j n d.tasks t ht
    rw [td t this.1]; simp [this.2]
  cases e with
  | req rq => exact absurd rfl (hreq rq)
  | finish k n =>
    simp only [Event.jar] at hj; subst hj
    simp only [dbEv]
    rw [← hnth n]
    cases ht : nthOf k n d.tasks with
    | none => exact ⟨sim, td, ta⟩
    | some t =>
      simp only
      split
      · exact ⟨sim, td, ta⟩
      · refine ⟨⟨sim.users, sim.probs, ?_, ?_⟩, ?_, ?_⟩
        · simp only; rw [filter_erase_in, filter_erase_in, sim.running]
        · simp only
          rw [updNth_filter_in k (fun t => { t with blockingDone := true }) (fun _ => rfl), updNth_filter_in k (fun t => { t with blockingDone := true }) (fun _ => rfl), sim.tasks]
        · exact tagged_updNth k n (fun t => { t with blockingDone := true }) (fun _ => ⟨rfl, rfl⟩) d.tasks td
        · exact tagged_updNth k n (fun t => { t with blockingDone := true }) (fun _ => ⟨rfl, rfl⟩) a.tasks ta
  | write k n =>
    simp only [Event.jar] at hj; subst hj
    simp only [dbEv]
    rw [← hnth n]
    cases ht : nthOf k n d.tasks with
    | none => exact ⟨sim, td, ta⟩
    | some t =>
      simp only
      split
      · have hc : CmdIn S (fun x => decide (x = k)) (.pSet t.username t.name (taskWrite E t.input) : Cmd T H A R) := hSt n t ht
        have hx := (exec_in sim _ hc).2
        refine ⟨⟨hx.users, hx.probs, hx.running, ?_⟩, ?_, ?_⟩
        · simp only
          rw [updNth_filter_in k (fun t => { t with written := true }) (fun _ => rfl), updNth_filter_in k (fun t => { t with written := true }) (fun _ => rfl)]
          exact congrArg _ hx.tasks
        · exact tagged_updNth k n (fun t => { t with written := true }) (fun _ => ⟨rfl, rfl⟩) _ td
        · exact tagged_updNth k n (fun t => { t with written := true }) (fun _ => ⟨rfl, rfl⟩) _ ta
      · exact ⟨sim, td, ta⟩
  | timeout k n =>
    simp only [Event.jar] at hj; subst hj
    simp only [dbEv]
    rw [← hnth n]
    cases ht : nthOf k n d.tasks with
    | none => exact ⟨sim, td, ta⟩
    | some t =>
      simp only
      split
      · have hc : CmdIn S (fun x => decide (x = k)) (.pSet t.username t.name (timeoutWrite t.input) : Cmd T H A R) := hSt n t ht
        have hx := (exec_in sim _ hc).2
        refine ⟨⟨hx.users, hx.probs, hx.running, ?_⟩, ?_, ?_⟩
        · simp only
          rw [updNth_filter_in k (fun t => { t with written := true }) (fun _ => rfl), updNth_filter_in k (fun t => { t with written := true }) (fun _ => rfl)]
          exact congrArg _ hx.tasks
        · exact tagged_updNth k n (fun t => { t with written := true }) (fun _ => ⟨rfl, rfl⟩) _ td
        · exact tagged_updNth k n (fun t => { t with written := true }) (fun _ => ⟨rfl, rfl⟩) _ ta
      · exact ⟨sim, td, ta⟩

/-- the database part of a task event of another jar -/
theorem dbEv_other (E : Env T H A R) {S : T → Bool} {j : Nat} {d : Db T H A R} (e : Event T) (hj : e.jar ≠ j)
    (hreq : ∀ rq, e ≠ .req rq) (td : TasksTagged S j d) :
    DbSim S (fun k => decide (k = j)) (dbEv E d e) d ∧ TasksTagged S j (dbEv E d e) := by
  have hSt : ∀ k n t, k ≠ j → nthOf k n d.tasks = some t → S t.username = false := by
    intro k n t hk ht
    have := nthOf_mem k n d.tasks t ht
    rw [td t this.1]; simp [this.2, hk]
  cases e with
  | req rq => exact absurd rfl (hreq rq)
  | finish k n =>
    simp only [Event.jar] at hj
    simp only [dbEv]
    cases ht : nthOf k n d.tasks with
    | none => exact ⟨DbSim.refl .., td⟩
    | some t =>
      simp only
      split
      · exact ⟨DbSim.refl .., td⟩
      · refine ⟨⟨rfl, rfl, ?_, ?_⟩, ?_⟩
        · exact filter_erase_out S t.info (hSt k n t hj ht) d.running
        · exact updNth_filter_out j k hj (fun t => { t with blockingDone := true }) (fun _ => rfl) n d.tasks
        · exact tagged_updNth k n (fun t => { t with blockingDone := true }) (fun _ => ⟨rfl, rfl⟩) d.tasks td
  | write k n =>
    simp only [Event.jar] at hj
    simp only [dbEv]
    cases ht : nthOf k n d.tasks with
    | none => exact ⟨DbSim.refl .., td⟩
    | some t =>
      simp only
      split
      · have hc : CmdIn (fun x => !S x) (fun x => !(fun k => decide (k = j)) x)
            (.pSet t.username t.name (taskWrite E t.input) : Cmd T H A R) := by
          simp [CmdIn, hSt k n t hj ht]
        have hx := exec_out (S := S) (J := fun k => decide (k = j)) d _ hc
        refine ⟨⟨hx.users, hx.probs, hx.running, ?_⟩, ?_⟩
        · simp only
          rw [updNth_filter_out j k hj (fun t => { t with written := true }) (fun _ => rfl)]
          exact hx.tasks
        · exact tagged_updNth k n (fun t => { t with written := true }) (fun _ => ⟨rfl, rfl⟩) _ td
      · exact ⟨DbSim.refl .., td⟩
  | timeout k n =>
    simp only [Event.jar] at hj
    simp only [dbEv]
    cases ht : nthOf k n d.tasks with
    | none => exact ⟨DbSim.refl .., td⟩
    | some t =>
      simp only
      split
      · have hc : CmdIn (fun x => !S x) (fun x => !(fun k => decide (k = j)) x)
            (.pSet t.username t.name (timeoutWrite t.input) : Cmd T H A R) := by
          simp [CmdIn, hSt k n t hj ht]
        have hx := exec_out (S := S) (J := fun k => decide (k = j)) d _ hc
        refine ⟨⟨hx.users, hx.probs, hx.running, ?_⟩, ?_⟩
        · simp only
          rw [updNth_filter_out j k hj (fun t => { t with written := true }) (fun _ => rfl)]
          exact hx.tasks
        · exact tagged_updNth k n (fun t => { t with written := true }) (fun _ => ⟨rfl, rfl⟩) _ td
      · exact ⟨DbSim.refl .., td⟩

end
end ServerM

namespace ServerM
section
variable {T H A R : Type} [DecidableEq T]

theorem stepEv_mine (E : Env T H A R) {S : T → Bool} {j : Nat} {s a : State T H A R} (e : Event T) (hj : e.jar = j)
    (sim : Sim S j s a) (is : NsInv S j s) (ia : NsInv S j a) (hn : e.namesIn S) :
    (stepEv E s e).2 = (stepEv E a e).2 ∧ Sim S j (stepEv E s e).1 (stepEv E a e).1 ∧
    NsInv S j (stepEv E s e).1 ∧ NsInv S j (stepEv E a e).1 := by
  cases he : e with
  | req rq =>
    subst he
    have h := step_mine E rq hj sim is ia hn
    simp only [stepEv]
    exact ⟨by rw [h.1], h.2.1, h.2.2.1, h.2.2.2⟩
  | finish k n =>
    have h := dbEv_mine E e hj (by intro rq; rw [he]; simp) sim.db is.tasks ia.tasks
    rw [he] at h
    exact ⟨rfl, ⟨h.1, sim.sess⟩, ⟨is.mine, is.others, h.2.1⟩, ⟨ia.mine, ia.others, h.2.2⟩⟩
  | write k n =>
    have h := dbEv_mine E e hj (by intro rq; rw [he]; simp) sim.db is.tasks ia.tasks
    rw [he] at h
    exact ⟨rfl, ⟨h.1, sim.sess⟩, ⟨is.mine, is.others, h.2.1⟩, ⟨ia.mine, ia.others, h.2.2⟩⟩
  | timeout k n =>
    have h := dbEv_mine E e hj (by intro rq; rw [he]; simp) sim.db is.tasks ia.tasks
    rw [he] at h
    exact ⟨rfl, ⟨h.1, sim.sess⟩, ⟨is.mine, is.others, h.2.1⟩, ⟨ia.mine, ia.others, h.2.2⟩⟩

theorem stepEv_other (E : Env T H A R) {S : T → Bool} {j : Nat} {s a : State T H A R} (e : Event T) (hj : e.jar ≠ j)
    (sim : Sim S j s a) (is : NsInv S j s) (hn : e.namesIn (fun x => !S x)) :
    Sim S j (stepEv E s e).1 a ∧ NsInv S j (stepEv E s e).1 := by
  cases he : e with
  | req rq =>
    subst he
    have hn' : ∀ n ∈ reqNames rq.req, S n = false := by
      intro n hn'; have := hn n hn'; cases hS : S n <;> simp_all
    exact step_other E rq hj sim is hn'
  | finish k n =>
    have h := dbEv_other E e hj (by intro rq; rw [he]; simp) is.tasks
    rw [he] at h
    exact ⟨⟨h.1.trans sim.db, sim.sess⟩, ⟨is.mine, is.others, h.2⟩⟩
  | write k n =>
    have h := dbEv_other E e hj (by intro rq; rw [he]; simp) is.tasks
    rw [he] at h
    exact ⟨⟨h.1.trans sim.db, sim.sess⟩, ⟨is.mine, is.others, h.2⟩⟩
  | timeout k n =>
    have h := dbEv_other E e hj (by intro rq; rw [he]; simp) is.tasks
    rw [he] at h
    exact ⟨⟨h.1.trans sim.db, sim.sess⟩, ⟨is.mine, is.others, h.2⟩⟩

/-- what jar `j` observes: the responses to its own requests, in order -/
def obs (j : Nat) (out : List (Nat × Resp T R)) : List (Resp T R) :=
  (out.filter (fun x => decide (x.1 = j))).map (·.2)

theorem obs_append (j : Nat) (x y : List (Nat × Resp T R)) : obs j (x ++ y) = obs j x ++ obs j y := by
  simp [obs, List.filter_append]

/-- the unwinding argument over a whole history -/
theorem nonint_run (E : Env T H A R) (S : T → Bool) (j : Nat) : ∀ (es : List (Event T)) (s a : State T H A R),
    Sim S j s a → NsInv S j s → NsInv S j a →
    (∀ e ∈ es, (e.jar = j → e.namesIn S) ∧ (e.jar ≠ j → e.namesIn (fun x => !S x))) →
    obs j (runAll E s es).2 = obs j (runAll E a (es.filter (fun e => decide (e.jar = j)))).2 := by
  intro es
  induction es with
  | nil => intro s a _ _ _ _; rfl
  | cons e es ih =>
    intro s a sim is ia h
    have he := h e (List.mem_cons_self ..)
    have hrest : ∀ e' ∈ es, (e'.jar = j → e'.namesIn S) ∧ (e'.jar ≠ j → e'.namesIn (fun x => !S x)) :=
      fun e' he' => h e' (List.mem_cons_of_mem _ he')
    by_cases hj : e.jar = j
    · have hm := stepEv_mine E e hj sim is ia (he.1 hj)
      simp only [List.filter_cons, hj, decide_true, if_true, runAll, obs_append]
      rw [ih _ _ hm.2.1 hm.2.2.1 hm.2.2.2 hrest, hm.1]
    · have ho := stepEv_other E e hj sim is (he.2 hj)
      simp only [List.filter_cons, hj, decide_false, Bool.false_eq_true, if_false, runAll, obs_append]
      rw [ih _ _ ho.1 ho.2 ia hrest]
      cases (stepEv E s e).2 with
      | none => simp [obs]
      | some r => simp [obs, hj]

end
end ServerM
