import AdfObdd.ServerProofs
/-! Unwinding lemmas for the noninterference statement of C17: the part of the state that
    belongs to a set `S` of account names and to one cookie jar `j` evolves, under the events of
    `j`, exactly as it would alone, and is not changed by events that stay outside `S`. -/
namespace ServerM
section
variable {T H A R : Type} [DecidableEq T]

/-- the view of jar `j` with name space `S` agrees between the full state `s` and the alone state `a` -/
structure Sim (S : T → Bool) (j : Nat) (s a : State T H A R) : Prop where
  db : DbSim S (fun k => decide (k = j)) s.db a.db
  sess : s.sess j = a.sess j

/-- a task that may still act: its blocking part has not ended or its result is not written yet -/
def live (t : TaskRec T A) : Bool := !(t.blockingDone && t.written)

/-- the name-space discipline: `j`'s session and live tasks lie inside `S`, everybody else's outside -/
structure NsInv (S : T → Bool) (j : Nat) (s : State T H A R) : Prop where
  mine : ∀ u, s.sess j = some u → S u = true
  others : ∀ k, k ≠ j → ∀ u, s.sess k = some u → S u = false
  tasks : ∀ t ∈ s.db.tasks, live t = true → S t.username = decide (t.jar = j)

/-- the account names an event mentions lie in `S` -/
def Event.namesIn (S : T → Bool) : Event T → Prop
  | .req rq => ∀ n ∈ reqNames rq.req, S n = true
  | _ => True

/-- tasks keep their tags -/
def TasksTagged (S : T → Bool) (j : Nat) (db : Db T H A R) : Prop :=
  ∀ t ∈ db.tasks, live t = true → S t.username = decide (t.jar = j)

theorem exec_tagged_in {S : T → Bool} {j : Nat} (db : Db T H A R) (c : Cmd T H A R)
    (hc : CmdIn S (fun k => decide (k = j)) c) (h : TasksTagged S j db) : TasksTagged S j (exec db c).1 := by
  cases c with
  | spawn t =>
    intro x hx _
    simp only [exec, List.mem_append, List.mem_singleton] at hx
    rcases hx with hx | hx
    · exact h x hx ‹_›
    · subst hx
      have h2 : decide (x.jar = j) = true := hc.2
      rw [hc.1, h2]
  | uInsert u => simp only [exec]; split <;> exact h
  | uReplace n u => simp only [exec]; split <;> exact h
  | _ => exact h

theorem exec_tagged_out {S : T → Bool} {j : Nat} (db : Db T H A R) (c : Cmd T H A R)
    (hc : CmdIn (fun x => !S x) (fun k => !decide (k = j)) c) (h : TasksTagged S j db) :
    TasksTagged S j (exec db c).1 := by
  cases c with
  | spawn t =>
    intro x hx _
    simp only [exec, List.mem_append, List.mem_singleton] at hx
    rcases hx with hx | hx
    · exact h x hx ‹_›
    · subst hx
      have h1 : S x.username = false := by have := hc.1; cases hS : S x.username <;> simp_all
      have h2 : decide (x.jar = j) = false := by have := hc.2; cases hd : decide (x.jar = j) <;> simp_all
      rw [h1, h2]
  | uInsert u => simp only [exec]; split <;> exact h
  | uReplace n u => simp only [exec]; split <;> exact h
  | _ => exact h

/-! ### requests -/

theorem applyCookie_in {S : T → Bool} (id : Option T) (ck : Cookie T) (names : List T)
    (hid : ∀ u, id = some u → S u = true) (hn : ∀ n ∈ names, S n = true) (hck : ∀ u, ck = .login u → u ∈ names) :
    ∀ u, applyCookie id ck = some u → S u = true := by
  intro u hu
  cases ck with
  | keep => exact hid u hu
  | login x => simp only [applyCookie, Option.some.injEq] at hu; subst hu; exact hn _ (hck _ rfl)
  | logout => simp [applyCookie] at hu

/-- a request of jar `j` whose names lie in `S`: same response, views stay related -/
theorem step_mine (E : Env T H A R) {S : T → Bool} {j : Nat} {s a : State T H A R} (rq : Request T) (hj : rq.jar = j)
    (sim : Sim S j s a) (is : NsInv S j s) (ia : NsInv S j a) (hn : ∀ n ∈ reqNames rq.req, S n = true) :
    (step E s rq).2 = (step E a rq).2 ∧ Sim S j (step E s rq).1 (step E a rq).1 ∧
    NsInv S j (step E s rq).1 ∧ NsInv S j (step E a rq).1 := by
  subst hj
  have hsess := sim.sess
  have hown := handler_owned E rq.jar (s.sess rq.jar) rq.req
  have hU : ∀ u, actor (s.sess rq.jar) rq.req = some u → S u = true := by
    intro u hu
    cases hq : rq.req with
    | add name code file parsing fu fp =>
      rw [hq] at hu hn
      simp only [actor, Option.some.injEq] at hu
      cases hs : s.sess rq.jar with
      | none => rw [hs] at hu; simp only [addUser] at hu; subst hu; exact hn _ (by simp [reqNames])
      | some v => rw [hs] at hu; simp only [addUser] at hu; subst hu; exact is.mine _ hs
    | _ => rw [hq] at hu; exact is.mine u hu
  have hin := hown.mono (Q' := CmdIn S (fun k => decide (k = rq.jar))) (P' := RetShape (s.sess rq.jar) rq.req)
    (Owned.cmdIn hU hn (by simp)) (fun _ h => h)
  have hrun := run_in hin s.db a.db sim.db
  have hret := run_ret hown s.db
  have key : run (handler E rq.jar (a.sess rq.jar) rq.req) a.db = run (handler E rq.jar (s.sess rq.jar) rq.req) a.db := by
    rw [hsess]
  refine ⟨?_, ⟨?_, ?_⟩, ⟨?_, ?_, ?_⟩, ⟨?_, ?_, ?_⟩⟩
  · simp only [step, stepT]; rw [key]; exact hrun.1
  · simp only [step, stepT]; rw [key]; exact hrun.2
  · simp only [step, stepT, if_true]; rw [key, hrun.1, hsess]
  · -- NsInv of the full state
    intro u hu
    simp only [step, stepT, if_true] at hu
    exact applyCookie_in _ _ _ is.mine hn hret.2 u hu
  · intro k hk u hu
    simp only [step, stepT, if_neg hk] at hu
    exact is.others k hk u hu
  · simp only [step, stepT]
    exact run_inv (TasksTagged S rq.jar) (fun db c hc h => exec_tagged_in db c hc h) hin s.db is.tasks
  · intro u hu
    simp only [step, stepT, if_true] at hu
    rw [key, ← hrun.1, ← hsess] at hu
    exact applyCookie_in _ _ _ is.mine hn hret.2 u hu
  · intro k hk u hu
    simp only [step, stepT, if_neg hk] at hu
    exact ia.others k hk u hu
  · simp only [step, stepT]
    rw [key]
    exact run_inv (TasksTagged S rq.jar) (fun db c hc h => exec_tagged_in db c hc h) hin a.db ia.tasks

/-- a request of another jar whose names lie outside `S` does not change the view -/
theorem step_other (E : Env T H A R) {S : T → Bool} {j : Nat} {s a : State T H A R} (rq : Request T) (hj : rq.jar ≠ j)
    (sim : Sim S j s a) (is : NsInv S j s) (hn : ∀ n ∈ reqNames rq.req, S n = false) :
    Sim S j (step E s rq).1 a ∧ NsInv S j (step E s rq).1 := by
  have hown := handler_owned E rq.jar (s.sess rq.jar) rq.req
  have hU : ∀ u, actor (s.sess rq.jar) rq.req = some u → (!S u) = true := by
    intro u hu
    have : S u = false := by
      cases hq : rq.req with
      | add name code file parsing fu fp =>
        rw [hq] at hu hn
        simp only [actor, Option.some.injEq] at hu
        cases hs : s.sess rq.jar with
        | none => rw [hs] at hu; simp only [addUser] at hu; subst hu; exact hn _ (by simp [reqNames])
        | some v => rw [hs] at hu; simp only [addUser] at hu; subst hu; exact is.others _ hj _ hs
      | _ => rw [hq] at hu; exact is.others _ hj u hu
    simp [this]
  have hout := hown.mono (Q' := CmdIn (fun x => !S x) (fun k => !(fun k => decide (k = j)) k)) (P' := fun _ => True)
    (Owned.cmdIn hU (by intro n hn'; simp [hn n hn']) (by simpa using hj)) (fun _ _ => trivial)
  have hret := run_ret hown s.db
  refine ⟨⟨?_, ?_⟩, ⟨?_, ?_, ?_⟩⟩
  · simp only [step, stepT]
    exact (run_out hout s.db).trans sim.db
  · simp only [step, stepT, if_neg (Ne.symm hj)]
    exact sim.sess
  · intro u hu
    simp only [step, stepT, if_neg (Ne.symm hj)] at hu
    exact is.mine u hu
  · intro k hk u hu
    simp only [step, stepT] at hu
    by_cases hkr : k = rq.jar
    · rw [if_pos hkr] at hu
      cases hc : (run (handler E rq.jar (s.sess rq.jar) rq.req) s.db).2.1.cookie with
      | keep => rw [hc] at hu; simp only [applyCookie] at hu; exact is.others _ hj u hu
      | login x =>
        rw [hc] at hu; simp only [applyCookie, Option.some.injEq] at hu; subst hu
        exact hn _ (hret.2 _ hc)
      | logout => rw [hc] at hu; simp [applyCookie] at hu
    · rw [if_neg hkr] at hu
      exact is.others k hk u hu
  · simp only [step, stepT]
    exact run_inv (TasksTagged S j) (fun db c hc h => exec_tagged_out db c hc h) hout s.db is.tasks

/-! ### task events -/

theorem mem_updNth (jar : Nat) (f : TaskRec T A → TaskRec T A) : ∀ (n : Nat) (l : List (TaskRec T A)) (x : TaskRec T A),
    x ∈ updNth jar f n l → x ∈ l ∨ ∃ y ∈ l, x = f y := by
  intro n l
  induction l generalizing n with
  | nil => intro x hx; simp [updNth] at hx
  | cons t ts ih =>
    intro x hx
    unfold updNth at hx
    by_cases ht : t.jar = jar
    · rw [if_pos ht] at hx
      cases n with
      | zero =>
        simp only [List.mem_cons] at hx
        rcases hx with hx | hx
        · exact Or.inr ⟨t, List.mem_cons_self .., hx⟩
        · exact Or.inl (List.mem_cons_of_mem _ hx)
      | succ k =>
        simp only [List.mem_cons] at hx
        rcases hx with hx | hx
        · exact Or.inl (hx ▸ List.mem_cons_self ..)
        · rcases ih k x hx with h | ⟨y, hy, h⟩
          · exact Or.inl (List.mem_cons_of_mem _ h)
          · exact Or.inr ⟨y, List.mem_cons_of_mem _ hy, h⟩
    · rw [if_neg ht] at hx
      simp only [List.mem_cons] at hx
      rcases hx with hx | hx
      · exact Or.inl (hx ▸ List.mem_cons_self ..)
      · rcases ih n x hx with h | ⟨y, hy, h⟩
        · exact Or.inl (List.mem_cons_of_mem _ h)
        · exact Or.inr ⟨y, List.mem_cons_of_mem _ hy, h⟩

theorem tagged_updNth {S : T → Bool} {j : Nat} (jar n : Nat) (f : TaskRec T A → TaskRec T A)
    (hf : ∀ t, (f t).jar = t.jar ∧ (f t).username = t.username ∧ (live (f t) = true → live t = true)) (l : List (TaskRec T A))
    (h : ∀ t ∈ l, live t = true → S t.username = decide (t.jar = j)) :
    ∀ t ∈ updNth jar f n l, live t = true → S t.username = decide (t.jar = j) := by
  intro t ht hl
  rcases mem_updNth jar f n l t ht with h' | ⟨y, hy, h'⟩
  · exact h t h' hl
  · subst h'; rw [(hf y).1, (hf y).2.1]; exact h y hy ((hf y).2.2 hl)

theorem filter_erase_in (S : T → Bool) (i : RInfo T) (l : List (RInfo T)) :
    (eraseInfo i l).filter (fun x => S x.username) = eraseInfo i (l.filter (fun x => S x.username)) := by
  simp only [eraseInfo, List.filter_filter]
  apply List.filter_congr
  intro x _
  exact Bool.and_comm _ _

theorem filter_erase_out (S : T → Bool) (i : RInfo T) (hi : S i.username = false) (l : List (RInfo T)) :
    (eraseInfo i l).filter (fun x => S x.username) = l.filter (fun x => S x.username) := by
  simp only [eraseInfo, List.filter_filter]
  apply List.filter_congr
  intro x _
  by_cases hx : isInfo i x = true
  · have : x.username = i.username := by
      simp only [isInfo, Bool.and_eq_true, decide_eq_true_eq] at hx; exact hx.1.1
    simp [this, hi]
  · simp [hx]

/-- the database part of a task event of jar `j` -/
theorem dbEv_mine (E : Env T H A R) {S : T → Bool} {j : Nat} {d a : Db T H A R} (e : Event T) (hj : e.jar = j)
    (hreq : ∀ rq, e ≠ .req rq)
    (sim : DbSim S (fun k => decide (k = j)) d a) (td : TasksTagged S j d) (ta : TasksTagged S j a) :
    DbSim S (fun k => decide (k = j)) (dbEv E d e) (dbEv E a e) ∧ TasksTagged S j (dbEv E d e) ∧ TasksTagged S j (dbEv E a e) := by
  have hnth : ∀ n, nthOf j n d.tasks = nthOf j n a.tasks := by
    intro n; rw [← nthOf_filter j n d.tasks, ← nthOf_filter j n a.tasks, sim.tasks]
  have hSt : ∀ n t, nthOf j n d.tasks = some t → live t = true → S t.username = true := by
    intro n t ht hl
    have := nthOf_mem j n d.tasks t ht
    rw [td t this.1 hl]; simp [this.2]
  cases e with
  | req rq => exact absurd rfl (hreq rq)
  | finish k n =>
    simp only [Event.jar] at hj; subst hj
    simp only [dbEv]
    rw [← hnth n]
    cases ht : nthOf k n d.tasks with
    | none => exact ⟨sim, td, ta⟩
    | some t =>
      simp only
      split
      · exact ⟨sim, td, ta⟩
      · refine ⟨⟨sim.users, sim.probs, ?_, ?_⟩, ?_, ?_⟩
        · simp only; rw [filter_erase_in, filter_erase_in, sim.running]
        · simp only
          rw [updNth_filter_in k (fun t => { t with blockingDone := true }) (fun _ => rfl), updNth_filter_in k (fun t => { t with blockingDone := true }) (fun _ => rfl), sim.tasks]
        · exact tagged_updNth k n (fun t => { t with blockingDone := true }) (fun t => ⟨rfl, rfl, by cases hb : t.blockingDone <;> cases hw : t.written <;> simp [live, hb, hw]⟩) d.tasks td
        · exact tagged_updNth k n (fun t => { t with blockingDone := true }) (fun t => ⟨rfl, rfl, by cases hb : t.blockingDone <;> cases hw : t.written <;> simp [live, hb, hw]⟩) a.tasks ta
  | write k n =>
    simp only [Event.jar] at hj; subst hj
    simp only [dbEv]
    rw [← hnth n]
    cases ht : nthOf k n d.tasks with
    | none => exact ⟨sim, td, ta⟩
    | some t =>
      simp only
      split
      · have hc : CmdIn S (fun x => decide (x = k)) (.pSet t.username t.name (taskWrite E t.input) : Cmd T H A R) := hSt n t ht (by cases hb : t.blockingDone <;> cases hw : t.written <;> simp_all [live])
        have hx := (exec_in sim _ hc).2
        refine ⟨⟨hx.users, hx.probs, hx.running, ?_⟩, ?_, ?_⟩
        · simp only
          rw [updNth_filter_in k (fun t => { t with written := true }) (fun _ => rfl), updNth_filter_in k (fun t => { t with written := true }) (fun _ => rfl)]
          exact congrArg _ hx.tasks
        · exact tagged_updNth k n (fun t => { t with written := true }) (fun t => ⟨rfl, rfl, by cases hb : t.blockingDone <;> cases hw : t.written <;> simp [live, hb, hw]⟩) _ td
        · exact tagged_updNth k n (fun t => { t with written := true }) (fun t => ⟨rfl, rfl, by cases hb : t.blockingDone <;> cases hw : t.written <;> simp [live, hb, hw]⟩) _ ta
      · exact ⟨sim, td, ta⟩
  | timeout k n =>
    simp only [Event.jar] at hj; subst hj
    simp only [dbEv]
    rw [← hnth n]
    cases ht : nthOf k n d.tasks with
    | none => exact ⟨sim, td, ta⟩
    | some t =>
      simp only
      split
      · have hc : CmdIn S (fun x => decide (x = k)) (.pSet t.username t.name (timeoutWrite t.input) : Cmd T H A R) := hSt n t ht (by cases hb : t.blockingDone <;> cases hw : t.written <;> simp_all [live])
        have hx := (exec_in sim _ hc).2
        refine ⟨⟨hx.users, hx.probs, hx.running, ?_⟩, ?_, ?_⟩
        · simp only
          rw [updNth_filter_in k (fun t => { t with written := true }) (fun _ => rfl), updNth_filter_in k (fun t => { t with written := true }) (fun _ => rfl)]
          exact congrArg _ hx.tasks
        · exact tagged_updNth k n (fun t => { t with written := true }) (fun t => ⟨rfl, rfl, by cases hb : t.blockingDone <;> cases hw : t.written <;> simp [live, hb, hw]⟩) _ td
        · exact tagged_updNth k n (fun t => { t with written := true }) (fun t => ⟨rfl, rfl, by cases hb : t.blockingDone <;> cases hw : t.written <;> simp [live, hb, hw]⟩) _ ta
      · exact ⟨sim, td, ta⟩

/-- the database part of a task event of another jar -/
theorem dbEv_other (E : Env T H A R) {S : T → Bool} {j : Nat} {d : Db T H A R} (e : Event T) (hj : e.jar ≠ j)
    (hreq : ∀ rq, e ≠ .req rq) (td : TasksTagged S j d) :
    DbSim S (fun k => decide (k = j)) (dbEv E d e) d ∧ TasksTagged S j (dbEv E d e) := by
  have hSt : ∀ k n t, k ≠ j → nthOf k n d.tasks = some t → live t = true → S t.username = false := by
    intro k n t hk ht hl
    have := nthOf_mem k n d.tasks t ht
    rw [td t this.1 hl]; simp [this.2, hk]
  cases e with
  | req rq => exact absurd rfl (hreq rq)
  | finish k n =>
    simp only [Event.jar] at hj
    simp only [dbEv]
    cases ht : nthOf k n d.tasks with
    | none => exact ⟨DbSim.refl .., td⟩
    | some t =>
      simp only
      split
      · exact ⟨DbSim.refl .., td⟩
      · refine ⟨⟨rfl, rfl, ?_, ?_⟩, ?_⟩
        · exact filter_erase_out S t.info (hSt k n t hj ht (by cases hb : t.blockingDone <;> cases hw : t.written <;> simp_all [live])) d.running
        · exact updNth_filter_out j k hj (fun t => { t with blockingDone := true }) (fun _ => rfl) n d.tasks
        · exact tagged_updNth k n (fun t => { t with blockingDone := true }) (fun t => ⟨rfl, rfl, by cases hb : t.blockingDone <;> cases hw : t.written <;> simp [live, hb, hw]⟩) d.tasks td
  | write k n =>
    simp only [Event.jar] at hj
    simp only [dbEv]
    cases ht : nthOf k n d.tasks with
    | none => exact ⟨DbSim.refl .., td⟩
    | some t =>
      simp only
      split
      · have hc : CmdIn (fun x => !S x) (fun x => !(fun k => decide (k = j)) x)
            (.pSet t.username t.name (taskWrite E t.input) : Cmd T H A R) := by
          simp [CmdIn, hSt k n t hj ht (by cases hb : t.blockingDone <;> cases hw : t.written <;> simp_all [live])]
        have hx := exec_out (S := S) (J := fun k => decide (k = j)) d _ hc
        refine ⟨⟨hx.users, hx.probs, hx.running, ?_⟩, ?_⟩
        · simp only
          rw [updNth_filter_out j k hj (fun t => { t with written := true }) (fun _ => rfl)]
          exact hx.tasks
        · exact tagged_updNth k n (fun t => { t with written := true }) (fun t => ⟨rfl, rfl, by cases hb : t.blockingDone <;> cases hw : t.written <;> simp [live, hb, hw]⟩) _ td
      · exact ⟨DbSim.refl .., td⟩
  | timeout k n =>
    simp only [Event.jar] at hj
    simp only [dbEv]
    cases ht : nthOf k n d.tasks with
    | none => exact ⟨DbSim.refl .., td⟩
    | some t =>
      simp only
      split
      · have hc : CmdIn (fun x => !S x) (fun x => !(fun k => decide (k = j)) x)
            (.pSet t.username t.name (timeoutWrite t.input) : Cmd T H A R) := by
          simp [CmdIn, hSt k n t hj ht (by cases hb : t.blockingDone <;> cases hw : t.written <;> simp_all [live])]
        have hx := exec_out (S := S) (J := fun k => decide (k = j)) d _ hc
        refine ⟨⟨hx.users, hx.probs, hx.running, ?_⟩, ?_⟩
        · simp only
          rw [updNth_filter_out j k hj (fun t => { t with written := true }) (fun _ => rfl)]
          exact hx.tasks
        · exact tagged_updNth k n (fun t => { t with written := true }) (fun t => ⟨rfl, rfl, by cases hb : t.blockingDone <;> cases hw : t.written <;> simp [live, hb, hw]⟩) _ td
      · exact ⟨DbSim.refl .., td⟩

end
end ServerM

namespace ServerM
section
variable {T H A R : Type} [DecidableEq T]

theorem stepEv_mine (E : Env T H A R) {S : T → Bool} {j : Nat} {s a : State T H A R} (e : Event T) (hj : e.jar = j)
    (sim : Sim S j s a) (is : NsInv S j s) (ia : NsInv S j a) (hn : e.namesIn S) :
    (stepEv E s e).2 = (stepEv E a e).2 ∧ Sim S j (stepEv E s e).1 (stepEv E a e).1 ∧
    NsInv S j (stepEv E s e).1 ∧ NsInv S j (stepEv E a e).1 := by
  cases he : e with
  | req rq =>
    subst he
    have h := step_mine E rq hj sim is ia hn
    simp only [stepEv]
    exact ⟨by rw [h.1], h.2.1, h.2.2.1, h.2.2.2⟩
  | finish k n =>
    have h := dbEv_mine E e hj (by intro rq; rw [he]; simp) sim.db is.tasks ia.tasks
    rw [he] at h
    exact ⟨rfl, ⟨h.1, sim.sess⟩, ⟨is.mine, is.others, h.2.1⟩, ⟨ia.mine, ia.others, h.2.2⟩⟩
  | write k n =>
    have h := dbEv_mine E e hj (by intro rq; rw [he]; simp) sim.db is.tasks ia.tasks
    rw [he] at h
    exact ⟨rfl, ⟨h.1, sim.sess⟩, ⟨is.mine, is.others, h.2.1⟩, ⟨ia.mine, ia.others, h.2.2⟩⟩
  | timeout k n =>
    have h := dbEv_mine E e hj (by intro rq; rw [he]; simp) sim.db is.tasks ia.tasks
    rw [he] at h
    exact ⟨rfl, ⟨h.1, sim.sess⟩, ⟨is.mine, is.others, h.2.1⟩, ⟨ia.mine, ia.others, h.2.2⟩⟩

theorem stepEv_other (E : Env T H A R) {S : T → Bool} {j : Nat} {s a : State T H A R} (e : Event T) (hj : e.jar ≠ j)
    (sim : Sim S j s a) (is : NsInv S j s) (hn : e.namesIn (fun x => !S x)) :
    Sim S j (stepEv E s e).1 a ∧ NsInv S j (stepEv E s e).1 := by
  cases he : e with
  | req rq =>
    subst he
    have hn' : ∀ n ∈ reqNames rq.req, S n = false := by
      intro n hn'; have := hn n hn'; cases hS : S n <;> simp_all
    exact step_other E rq hj sim is hn'
  | finish k n =>
    have h := dbEv_other E e hj (by intro rq; rw [he]; simp) is.tasks
    rw [he] at h
    exact ⟨⟨h.1.trans sim.db, sim.sess⟩, ⟨is.mine, is.others, h.2⟩⟩
  | write k n =>
    have h := dbEv_other E e hj (by intro rq; rw [he]; simp) is.tasks
    rw [he] at h
    exact ⟨⟨h.1.trans sim.db, sim.sess⟩, ⟨is.mine, is.others, h.2⟩⟩
  | timeout k n =>
    have h := dbEv_other E e hj (by intro rq; rw [he]; simp) is.tasks
    rw [he] at h
    exact ⟨⟨h.1.trans sim.db, sim.sess⟩, ⟨is.mine, is.others, h.2⟩⟩

/-- what jar `j` observes: the responses to its own requests, in order -/
def obs (j : Nat) (out : List (Nat × Resp T R)) : List (Resp T R) :=
  (out.filter (fun x => decide (x.1 = j))).map (·.2)

theorem obs_append (j : Nat) (x y : List (Nat × Resp T R)) : obs j (x ++ y) = obs j x ++ obs j y := by
  simp [obs, List.filter_append]

/-- the unwinding argument over a whole history -/
theorem nonint_run (E : Env T H A R) (S : T → Bool) (j : Nat) : ∀ (es : List (Event T)) (s a : State T H A R),
    Sim S j s a → NsInv S j s → NsInv S j a →
    (∀ e ∈ es, (e.jar = j → e.namesIn S) ∧ (e.jar ≠ j → e.namesIn (fun x => !S x))) →
    obs j (runAll E s es).2 = obs j (runAll E a (es.filter (fun e => decide (e.jar = j)))).2 := by
  intro es
  induction es with
  | nil => intro s a _ _ _ _; rfl
  | cons e es ih =>
    intro s a sim is ia h
    have he := h e (List.mem_cons_self ..)
    have hrest : ∀ e' ∈ es, (e'.jar = j → e'.namesIn S) ∧ (e'.jar ≠ j → e'.namesIn (fun x => !S x)) :=
      fun e' he' => h e' (List.mem_cons_of_mem _ he')
    by_cases hj : e.jar = j
    · have hm := stepEv_mine E e hj sim is ia (he.1 hj)
      simp only [List.filter_cons, hj, decide_true, if_true, runAll, obs_append]
      rw [ih _ _ hm.2.1 hm.2.2.1 hm.2.2.2 hrest, hm.1]
    · have ho := stepEv_other E e hj sim is (he.2 hj)
      simp only [List.filter_cons, hj, decide_false, Bool.false_eq_true, if_false, runAll, obs_append]
      rw [ih _ _ ho.1 ho.2 ia hrest]
      cases (stepEv E s e).2 with
      | none => simp [obs]
      | some r => simp [obs, hj]

end
end ServerM

namespace ServerM
section dynamic
variable {T H A R : Type} [DecidableEq T]

/-! ### re-use of account names once nothing of the previous owner is left -/

/-- nothing named `n` exists: no account, no problem, no running entry, no session, no live task -/
structure Free (n : T) (s : State T H A R) : Prop where
  users : ∀ u ∈ s.db.users, u.username ≠ n
  probs : ∀ p ∈ s.db.problems, p.username ≠ n
  running : ∀ i ∈ s.db.running, i.username ≠ n
  sess : ∀ k, s.sess k ≠ some n
  tasks : ∀ t ∈ s.db.tasks, live t = true → t.username ≠ n

/-- the alone state holds nothing but `j`'s: all names in `S`, no other session, no other task -/
structure Within (S : T → Bool) (j : Nat) (a : State T H A R) : Prop where
  users : ∀ u ∈ a.db.users, S u.username = true
  probs : ∀ p ∈ a.db.problems, S p.username = true
  running : ∀ i ∈ a.db.running, S i.username = true
  sess : ∀ k, k ≠ j → a.sess k = none
  tasks : ∀ t ∈ a.db.tasks, t.jar = j

/-- the database part of `Within` -/
def DbWithin (S : T → Bool) (j : Nat) (d : Db T H A R) : Prop :=
  (∀ u ∈ d.users, S u.username = true) ∧ (∀ p ∈ d.problems, S p.username = true) ∧
  (∀ i ∈ d.running, S i.username = true) ∧ (∀ t ∈ d.tasks, t.jar = j)

theorem mem_updFirst {α : Type} (q : α → Bool) (f : α → α) : ∀ (l : List α) (x : α),
    x ∈ updFirst q f l → x ∈ l ∨ ∃ y ∈ l, q y = true ∧ x = f y := by
  intro l
  induction l with
  | nil => intro x hx; simp [updFirst] at hx
  | cons y ys ih =>
    intro x hx
    unfold updFirst at hx
    by_cases hy : q y = true
    · rw [if_pos hy] at hx
      rcases List.mem_cons.mp hx with h | h
      · exact Or.inr ⟨y, List.mem_cons_self .., hy, h⟩
      · exact Or.inl (List.mem_cons_of_mem _ h)
    · rw [if_neg hy] at hx
      rcases List.mem_cons.mp hx with h | h
      · exact Or.inl (h ▸ List.mem_cons_self ..)
      · rcases ih x h with h' | ⟨z, hz, hq, h'⟩
        · exact Or.inl (List.mem_cons_of_mem _ h')
        · exact Or.inr ⟨z, List.mem_cons_of_mem _ hz, hq, h'⟩

theorem mem_delFirst {α : Type} (q : α → Bool) : ∀ (l : List α) (x : α), x ∈ delFirst q l → x ∈ l := by
  intro l
  induction l with
  | nil => intro x hx; simp [delFirst] at hx
  | cons y ys ih =>
    intro x hx
    unfold delFirst at hx
    by_cases hy : q y = true
    · rw [if_pos hy] at hx; exact List.mem_cons_of_mem _ hx
    · rw [if_neg hy] at hx
      rcases List.mem_cons.mp hx with h | h
      · exact h ▸ List.mem_cons_self ..
      · exact List.mem_cons_of_mem _ (ih x h)

theorem exec_within {S : T → Bool} {j : Nat} (d : Db T H A R) (c : Cmd T H A R)
    (hc : CmdIn S (fun k => decide (k = j)) c) (h : DbWithin S j d) : DbWithin S j (exec d c).1 := by
  obtain ⟨hu, hp, hr, ht⟩ := h
  cases c with
  | uFind n => exact ⟨hu, hp, hr, ht⟩
  | uInsert u =>
    simp only [exec]
    split
    · exact ⟨hu, hp, hr, ht⟩
    · refine ⟨?_, hp, hr, ht⟩
      intro x hx
      rcases List.mem_append.mp hx with h | h
      · exact hu x h
      · simp only [List.mem_singleton] at h; subst h; exact hc
  | uReplace n u =>
    simp only [exec]
    split
    · exact ⟨hu, hp, hr, ht⟩
    · refine ⟨?_, hp, hr, ht⟩
      intro x hx
      rcases mem_updFirst _ _ _ x hx with h | ⟨y, _, _, h⟩
      · exact hu x h
      · subst h; exact hc.2
  | uDelete n => exact ⟨fun x hx => hu x (mem_delFirst _ _ x hx), hp, hr, ht⟩
  | pFindOne u n => exact ⟨hu, hp, hr, ht⟩
  | pFindAll u => exact ⟨hu, hp, hr, ht⟩
  | pInsert p =>
    refine ⟨hu, ?_, hr, ht⟩
    intro x hx
    simp only [exec] at hx
    rcases List.mem_append.mp hx with h | h
    · exact hp x h
    · simp only [List.mem_singleton] at h; subst h; exact hc
  | pSet u n w =>
    refine ⟨hu, ?_, hr, ht⟩
    intro x hx
    rcases mem_updFirst _ _ _ x hx with h | ⟨y, hy, _, h⟩
    · exact hp x h
    · subst h; rw [Write.apply_username]; exact hp y hy
  | pDeleteOne u n => exact ⟨hu, fun x hx => hp x (mem_delFirst _ _ x hx), hr, ht⟩
  | pDeleteAll u => exact ⟨hu, fun x hx => hp x (List.mem_filter.mp hx).1, hr, ht⟩
  | pRename u u' =>
    refine ⟨hu, ?_, hr, ht⟩
    intro x hx
    simp only [exec, List.mem_map] at hx
    obtain ⟨y, hy, rfl⟩ := hx
    split
    · exact hc.2
    · exact hp y hy
  | rContains i => exact ⟨hu, hp, hr, ht⟩
  | rTasks u n => exact ⟨hu, hp, hr, ht⟩
  | spawn t =>
    refine ⟨hu, hp, ?_, ?_⟩
    · intro x hx
      simp only [exec] at hx
      split at hx
      · exact hr x hx
      · rcases List.mem_append.mp hx with h | h
        · exact hr x h
        · simp only [List.mem_singleton] at h; subst h; exact hc.1
    · intro x hx
      simp only [exec] at hx
      rcases List.mem_append.mp hx with h | h
      · exact ht x h
      · simp only [List.mem_singleton] at h; subst h; simpa using hc.2

theorem within_updNth (j jar n : Nat) (f : TaskRec T A → TaskRec T A) (hf : ∀ t, (f t).jar = t.jar)
    (l : List (TaskRec T A)) (h : ∀ t ∈ l, t.jar = j) : ∀ t ∈ updNth jar f n l, t.jar = j := by
  intro t ht
  rcases mem_updNth jar f n l t ht with h' | ⟨y, hy, h'⟩
  · exact h t h'
  · subst h'; rw [hf y]; exact h y hy

/-- `j`'s own events keep the alone state within `S` -/
theorem stepEv_within (E : Env T H A R) {S : T → Bool} {j : Nat} {a : State T H A R} (e : Event T) (hj : e.jar = j)
    (w : Within S j a) (ia : NsInv S j a) (hn : e.namesIn S) : Within S j (stepEv E a e).1 := by
  have hdb : DbWithin S j a.db := ⟨w.users, w.probs, w.running, w.tasks⟩
  cases he : e with
  | req rq =>
    subst he
    simp only [Event.jar] at hj
    have hown := handler_owned E rq.jar (a.sess rq.jar) rq.req
    have hU : ∀ u, actor (a.sess rq.jar) rq.req = some u → S u = true := by
      intro u hu
      cases hq : rq.req with
      | add name code file parsing fu fp =>
        rw [hq] at hu
        have hn' : ∀ n ∈ reqNames rq.req, S n = true := hn
        rw [hq] at hn'
        simp only [actor, Option.some.injEq] at hu
        cases hs : a.sess rq.jar with
        | none => rw [hs] at hu; simp only [addUser] at hu; subst hu; exact hn' _ (by simp [reqNames])
        | some v => rw [hs] at hu; simp only [addUser] at hu; subst hu; exact ia.mine _ (hj ▸ hs)
      | _ => rw [hq] at hu; exact ia.mine u (hj ▸ hu)
    have hin := hown.mono (Q' := CmdIn S (fun k => decide (k = j))) (P' := fun _ => True)
      (Owned.cmdIn hU hn (by simp [hj])) (fun _ _ => trivial)
    have := run_inv (DbWithin S j) (fun db c hc h => exec_within db c hc h) hin a.db hdb
    refine ⟨this.1, this.2.1, this.2.2.1, ?_, this.2.2.2⟩
    intro k hk
    simp only [stepEv, step, stepT]
    rw [if_neg (by rw [hj]; exact hk)]
    exact w.sess k hk
  | finish k n =>
    simp only [stepEv, dbEv]
    cases nthOf k n a.db.tasks with
    | none => exact w
    | some t =>
      simp only
      split
      · exact w
      · refine ⟨w.users, w.probs, ?_, w.sess, ?_⟩
        · intro i hi; exact w.running i (List.mem_filter.mp hi).1
        · exact within_updNth j k n (fun t => { t with blockingDone := true }) (fun _ => rfl) _ w.tasks
  | write k n =>
    simp only [stepEv, dbEv]
    cases nthOf k n a.db.tasks with
    | none => exact w
    | some t =>
      simp only
      split
      · refine ⟨w.users, ?_, w.running, w.sess, ?_⟩
        · intro x hx
          rcases mem_updFirst _ _ _ x hx with h | ⟨y, hy, _, h⟩
          · exact w.probs x h
          · subst h; rw [Write.apply_username]; exact w.probs y hy
        · exact within_updNth j k n (fun t => { t with written := true }) (fun _ => rfl) _ w.tasks
      · exact w
  | timeout k n =>
    simp only [stepEv, dbEv]
    cases nthOf k n a.db.tasks with
    | none => exact w
    | some t =>
      simp only
      split
      · refine ⟨w.users, ?_, w.running, w.sess, ?_⟩
        · intro x hx
          rcases mem_updFirst _ _ _ x hx with h | ⟨y, hy, _, h⟩
          · exact w.probs x h
          · subst h; rw [Write.apply_username]; exact w.probs y hy
        · exact within_updNth j k n (fun t => { t with written := true }) (fun _ => rfl) _ w.tasks
      · exact w

omit [DecidableEq T] in
theorem filter_congr_names {α : Type} (S S' : T → Bool) (name : α → T) (l : List α)
    (h : ∀ x ∈ l, S (name x) = S' (name x)) : l.filter (fun x => S (name x)) = l.filter (fun x => S' (name x)) :=
  List.filter_congr (fun x hx => h x hx)

/-- **re-basing**: the name space may change at names of which nothing exists -/
theorem rebase {S S' : T → Bool} {j : Nat} {s a : State T H A R} (sim : Sim S j s a) (is : NsInv S j s)
    (ia : NsInv S j a) (w : Within S j a) (hfree : ∀ n, S n ≠ S' n → Free n s) :
    Sim S' j s a ∧ NsInv S' j s ∧ NsInv S' j a ∧ Within S' j a := by
  -- where S and S' differ, neither state holds anything of that name
  have eqS : ∀ n, (¬ Free n s) → S n = S' n := by
    intro n hn
    cases hS : S n <;> cases hS' : S' n <;> first | rfl | exact absurd (hfree n (by simp [hS, hS'])) hn
  have su : ∀ u ∈ s.db.users, S u.username = S' u.username :=
    fun u hu => eqS _ (fun hf => hf.users u hu rfl)
  have sp : ∀ p ∈ s.db.problems, S p.username = S' p.username :=
    fun p hp => eqS _ (fun hf => hf.probs p hp rfl)
  have sr : ∀ i ∈ s.db.running, S i.username = S' i.username :=
    fun i hi => eqS _ (fun hf => hf.running i hi rfl)
  -- the alone state: an item named n with S n = true also sits in the full state's view
  have au : ∀ u ∈ a.db.users, S u.username = S' u.username := by
    intro u hu
    have hSu := w.users u hu
    have : u ∈ s.db.users.filter (fun x => S x.username) := by
      rw [sim.db.users]; exact List.mem_filter.mpr ⟨hu, hSu⟩
    exact su u (List.mem_filter.mp this).1
  have ap : ∀ p ∈ a.db.problems, S p.username = S' p.username := by
    intro p hp
    have hSp := w.probs p hp
    have : p ∈ s.db.problems.filter (fun x => S x.username) := by
      rw [sim.db.probs]; exact List.mem_filter.mpr ⟨hp, hSp⟩
    exact sp p (List.mem_filter.mp this).1
  have ar : ∀ i ∈ a.db.running, S i.username = S' i.username := by
    intro i hi
    have hSi := w.running i hi
    have : i ∈ s.db.running.filter (fun x => S x.username) := by
      rw [sim.db.running]; exact List.mem_filter.mpr ⟨hi, hSi⟩
    exact sr i (List.mem_filter.mp this).1
  have sessS : ∀ k u, s.sess k = some u → S u = S' u := fun k u h => eqS _ (fun hf => hf.sess k h)
  have taskS : ∀ t ∈ s.db.tasks, live t = true → S t.username = S' t.username :=
    fun t ht hl => eqS _ (fun hf => hf.tasks t ht hl rfl)
  refine ⟨⟨⟨?_, ?_, ?_, sim.db.tasks⟩, sim.sess⟩, ⟨?_, ?_, ?_⟩, ⟨?_, ?_, ?_⟩, ⟨?_, ?_, ?_, w.sess, w.tasks⟩⟩
  · rw [← filter_congr_names S S' (fun u : User T H => u.username) _ su,
        ← filter_congr_names S S' (fun u : User T H => u.username) _ au]; exact sim.db.users
  · rw [← filter_congr_names S S' (fun p : Problem T A R => p.username) _ sp,
        ← filter_congr_names S S' (fun p : Problem T A R => p.username) _ ap]; exact sim.db.probs
  · rw [← filter_congr_names S S' (fun i : RInfo T => i.username) _ sr,
        ← filter_congr_names S S' (fun i : RInfo T => i.username) _ ar]; exact sim.db.running
  · intro u hu; rw [← sessS j u hu]; exact is.mine u hu
  · intro k hk u hu; rw [← sessS k u hu]; exact is.others k hk u hu
  · intro t ht hl; rw [← taskS t ht hl]; exact is.tasks t ht hl
  · intro u hu; rw [← sessS j u (sim.sess ▸ hu)]; exact ia.mine u hu
  · intro k hk u hu; rw [w.sess k hk] at hu; cases hu
  · intro t ht hl
    have htj : t.jar = j := w.tasks t ht
    have : t ∈ s.db.tasks.filter (fun x => decide (x.jar = j)) := by
      rw [sim.db.tasks]; exact List.mem_filter.mpr ⟨ht, by simpa using htj⟩
    rw [← taskS t (List.mem_filter.mp this).1 hl]; exact ia.tasks t ht hl
  · intro u hu; rw [← au u hu]; exact w.users u hu
  · intro p hp; rw [← ap p hp]; exact w.probs p hp
  · intro i hi; rw [← ar i hi]; exact w.running i hi

/-- the account names an event mentions -/
def evNames : Event T → List T
  | .req rq => reqNames rq.req
  | _ => []

/-- **the discipline of account names, as far as jar `j` is concerned**: mentioning a name claims it
(`own` is the ghost record of who claimed which name last).  `j` may mention a name only if `j`
itself claimed it last, or nothing of that name exists any more (no account, no problem, no running
entry, no session, no unfinished task); another jar may mention a name that `j` claimed last only
if nothing of that name exists any more.  What the other jars do among themselves is not restricted. -/
def Disciplined (E : Env T H A R) (j : Nat) : (T → Option Nat) → State T H A R → List (Event T) → Prop
  | _, _, [] => True
  | own, st, e :: es =>
    (∀ n ∈ evNames e, (if e.jar = j then own n = some j else own n ≠ some j) ∨ Free n st) ∧
    Disciplined E j (fun n => if n ∈ evNames e then some e.jar else own n) (stepEv E st e).1 es

/-- the name space of jar `j` under the ghost record -/
def spaceOf (own : T → Option Nat) (j : Nat) : T → Bool := fun n => decide (own n = some j)

theorem nonint_dyn (E : Env T H A R) (j : Nat) : ∀ (es : List (Event T)) (own : T → Option Nat) (s a : State T H A R),
    Sim (spaceOf own j) j s a → NsInv (spaceOf own j) j s → NsInv (spaceOf own j) j a → Within (spaceOf own j) j a →
    Disciplined E j own s es →
    obs j (runAll E s es).2 = obs j (runAll E a (es.filter (fun e => decide (e.jar = j)))).2 := by
  intro es
  induction es with
  | nil => intro _ s a _ _ _ _ _; rfl
  | cons e es ih =>
    intro own s a sim is ia w hd
    obtain ⟨hnames, hrest⟩ := hd
    -- the name space after the event's claims
    have hfree : ∀ n, spaceOf own j n ≠ spaceOf (fun n => if n ∈ evNames e then some e.jar else own n) j n → Free n s := by
      intro n hne
      by_cases hmem : n ∈ evNames e
      · rcases hnames n hmem with h | h
        · exfalso; apply hne
          by_cases hj : e.jar = j
          · rw [if_pos hj] at h; simp [spaceOf, hmem, h, hj]
          · rw [if_neg hj] at h; simp [spaceOf, hmem, h, hj]
        · exact h
      · exfalso; apply hne; simp [spaceOf, hmem]
    obtain ⟨sim', is', ia', w'⟩ := rebase sim is ia w hfree
    by_cases hj : e.jar = j
    · have hn : e.namesIn (spaceOf (fun n => if n ∈ evNames e then some e.jar else own n) j) := by
        cases e with
        | req rq => intro n hn; simp [spaceOf, evNames, hn]; exact hj
        | finish _ _ => trivial
        | write _ _ => trivial
        | timeout _ _ => trivial
      have hm := stepEv_mine E e hj sim' is' ia' hn
      have hw := stepEv_within E e hj w' ia' hn
      simp only [List.filter_cons, hj, decide_true, if_true, runAll, obs_append]
      rw [ih _ _ _ hm.2.1 hm.2.2.1 hm.2.2.2 hw hrest, hm.1]
    · have hn : e.namesIn (fun x => !spaceOf (fun n => if n ∈ evNames e then some e.jar else own n) j x) := by
        cases e with
        | req rq => intro n hn; simp [spaceOf, evNames, hn]; exact hj
        | finish _ _ => trivial
        | write _ _ => trivial
        | timeout _ _ => trivial
      have ho := stepEv_other E e hj sim' is' hn
      simp only [List.filter_cons, hj, decide_false, Bool.false_eq_true, if_false, runAll, obs_append]
      rw [ih _ _ _ ho.1 ho.2 ia' w' hrest]
      cases (stepEv E s e).2 with
      | none => simp [obs]
      | some r => simp [obs, hj]

end dynamic
end ServerM
