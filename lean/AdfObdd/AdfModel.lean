import AdfObdd.Grounded
import AdfObdd.Complete
import AdfObdd.Iter
import AdfObdd.Iter3
open Iter2M Iter3M
/-! concrete executable models of `Adf::complete` and `Adf::stable` on the proved store,
    for the handle-exact correspondence spike -/

def isTV (t : Nat) : Bool := t < 2

/-- `TwoValuedInterpretationsIterator::new(..).collect()` -/
def twoValAll (v : List Nat) : List (List Nat) :=
  let idxs := ((List.range v.length).filter (fun i => !isTV (v.getD i 0))).reverse
  let start := v.map (fun t => if isTV t then t else 0)
  collectFrom idxs (2 ^ idxs.length) start

/-- `ThreeValuedInterpretationsIterator::new(..).collect()` -/
def threeValAll (v : List Nat) : List (List Nat) :=
  let idxs := ((List.range v.length).filter (fun i => !isTV (v.getD i 0))).reverse
  let digs := collect3 (3 ^ idxs.length) (List.replicate idxs.length 2)
  digs.map (fun ds =>
    (ds.zip idxs).foldl (fun acc (d, pos) =>
      acc.set pos (match d with | 0 => 0 | 1 => 1 | _ => v.getD pos 0)) v)

/-- `Adf::complete` -/
def completeAll (s : Store) (n : Nat) (ac : List Nat) : Store × List Nat × List (List Nat) :=
  let g := groundedLoop StoreRA (n + 1) s ac
  let r := (threeValAll g.2).foldl (fun (acc : Store × List (List Nat)) v =>
      let c := completeCheck StoreRA acc.1 v ac v
      (c.1, if c.2 then acc.2 ++ [v] else acc.2)) (g.1, [])
  (r.1, g.2, r.2)

/-- restrict by the false statements of a candidate -/
def restrictFalse (s : Store) (t : Nat) : Nat → List Nat → Store × Nat
  | _, [] => (s, t)
  | k, c :: cs =>
    if c == 0 then let r := restrictF (t+1) s t k false; restrictFalse r.1 r.2 (k+1) cs
    else restrictFalse s t (k+1) cs

def mapFalse (s : Store) (cand : List Nat) : List Nat → Store × List Nat
  | [] => (s, [])
  | a :: acs => let r := restrictFalse s a 0 cand; let m := mapFalse r.1 cand acs; (m.1, r.2 :: m.2)

def sameInfo (a b : Nat) : Bool := storeIsConst a == storeIsConst b

/-- `Adf::stable` -/
def stableAll (s : Store) (n : Nat) (ac : List Nat) : Store × List (List Nat) :=
  let g := groundedLoop StoreRA (n + 1) s ac
  (twoValAll g.2).foldl (fun (acc : Store × List (List Nat)) cand =>
      let red := mapFalse acc.1 cand ac
      let grd := groundedLoop StoreRA (n + 1) red.1 red.2
      let ok := (cand.zip grd.2).all (fun (a, b) => sameInfo a b)
      (grd.1, if ok then acc.2 ++ [cand] else acc.2)) (g.1, [])
