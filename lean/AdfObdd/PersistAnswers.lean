import AdfObdd.Persist
import AdfObdd.CompleteExact
import AdfObdd.StableExact
import AdfObdd.CountExact
import AdfObdd.NgEndToEnd
import Std.Data.String.ToNat
/-! C14: the answers of every semantics on a round-tripped object are the answers of the original.

`SameFns s s' ac`: two well-formed stores in which the handles `ac` are valid and denote the same
Boolean functions. Each search of the model (complete, stable, stable with pre-filter, both
counting-guided searches, the nogood-learning search in both modes) RUN on `s'` — with its own cold
memo tables and its own further node creations — returns, read as three-valued interpretations, a
duplicate-free list with exactly the members of the list it returns on `s` (exactness theorems of
C02–C05). `roundtrip_sameFns`: both persistence round trips produce such an `s'`. -/
namespace Persist

structure SameFns (s s' : Store) (ac : List Nat) : Prop where
  w : WF s
  w' : WF s'
  hv : ∀ t ∈ ac, t < s.nodes.size
  hv' : ∀ t ∈ ac, t < s'.nodes.size
  same : ac.map (eval s') = ac.map (eval s)

/-- equal node tables give `SameFns` -/
theorem SameFns.ofNodes {s s' : Store} {ac : List Nat} (w : WF s) (w' : WF s') (hn : s'.nodes = s.nodes)
    (hv : ∀ t ∈ ac, t < s.nodes.size) : SameFns s s' ac :=
  ⟨w, w', hv, fun t ht => by rw [hn]; exact hv t ht, acFns_same hn ac⟩

/-- both round trips: `export → import → fix_import`, and `Bdd::from(nodes)` -/
theorem roundtrip_sameFns (a : PAdf) (w : WF a.bdd.st) (hv : ∀ t ∈ a.ac, t < a.bdd.st.nodes.size) :
    SameFns a.bdd.st (fixImportA (importA (exportA a))).bdd.st a.ac ∧
    SameFns a.bdd.st (rebuildP a.bdd.st.nodes).st a.ac := by
  have ⟨hn, _, hj⟩ := import_fix a.bdd w
  have ⟨_, hr, _, wr⟩ := rebuildP_ok a.bdd.st w
  exact ⟨SameFns.ofNodes w hj.wf hn hv, SameFns.ofNodes w wr.wf hr hv⟩

abbrev dec3 (l : List (List Nat)) : List I3 := l.map (fun v => v.map storeIsConst)

/-- two answer lists without repetition and with the same members (equal up to order) -/
def SameAnswers (l l' : List I3) : Prop := l.Nodup ∧ l'.Nodup ∧ ∀ v : I3, v ∈ l ↔ v ∈ l'

theorem SameAnswers.perm {l l' : List I3} (h : SameAnswers l l') : l.Perm l' :=
  (List.perm_ext_iff_of_nodup h.1 h.2.1).mpr h.2.2

variable {s s' : Store} {ac : List Nat}

theorem SameFns.grounded (h : SameFns s s' ac) :
    (groundedLoop StoreRA (ac.length + 1) s' ac).2.map storeIsConst =
    (groundedLoop StoreRA (ac.length + 1) s ac).2.map storeIsConst := by
  have h1 := grounded_native (ac.length + 1) s' ac h.w' h.hv' (Nat.lt_succ_self _)
  have h2 := grounded_native (ac.length + 1) s ac h.w h.hv (Nat.lt_succ_self _)
  simp only at h1 h2
  rw [h.same] at h1
  have l1 := congrArg List.length h1.1
  have l2 := congrArg List.length h2.1
  rw [Gam_length] at l1 l2
  exact Le3_antisymm (by omega) (h1.2 _ h2.1) (h2.2 _ h1.1)

theorem SameFns.complete (h : SameFns s s' ac) (n : Nat) (hn : ac.length = n) :
    (dec3 (completeAll s' n ac).2.2).Nodup ∧ (dec3 (completeAll s n ac).2.2).Nodup ∧
    ∀ v : I3, v ∈ dec3 (completeAll s' n ac).2.2 ↔ v ∈ dec3 (completeAll s n ac).2.2 := by
  have a := CompleteExact.completeAll_exact s' n ac h.w' hn h.hv'
  have b := CompleteExact.completeAll_exact s n ac h.w hn h.hv
  refine ⟨a.1, b.1, fun v => ?_⟩
  rw [a.2.1 v, b.2.1 v, h.same]

theorem SameFns.stable (h : SameFns s s' ac) (n : Nat) (hn : ac.length = n) :
    (dec3 (stableAll s' n ac).2).Nodup ∧ (dec3 (stableAll s n ac).2).Nodup ∧
    ∀ v : I3, v ∈ dec3 (stableAll s' n ac).2 ↔ v ∈ dec3 (stableAll s n ac).2 := by
  have ⟨_, e'⟩ := StableExact.stableAll_filter s' n ac h.w' hn h.hv'
  have ⟨_, e⟩ := StableExact.stableAll_filter s n ac h.w hn h.hv
  have a := StableExact.answers_exact s' n ac h.w' hn h.hv' _ (StableExact.verdict_iff (ac.map (eval s')))
  have b := StableExact.answers_exact s n ac h.w hn h.hv _ (StableExact.verdict_iff (ac.map (eval s)))
  simp only [← e', ← e] at a b
  refine ⟨a.1, b.1, fun v => ?_⟩
  rw [a.2 v, b.2 v, h.same]

theorem SameFns.stablePre (h : SameFns s s' ac) (n : Nat) (hn : ac.length = n) :
    (dec3 (Cli.stablePre s' n ac).2).Nodup ∧ (dec3 (Cli.stablePre s n ac).2).Nodup ∧
    ∀ v : I3, v ∈ dec3 (Cli.stablePre s' n ac).2 ↔ v ∈ dec3 (Cli.stablePre s n ac).2 := by
  have ⟨_, e'⟩ := StableExact.stablePre_filter s' n ac h.w' hn h.hv'
  have ⟨_, e⟩ := StableExact.stablePre_filter s n ac h.w hn h.hv
  have a := StableExact.answers_exact s' n ac h.w' hn h.hv' _ (StableExact.verdict_iff (ac.map (eval s')))
  have b := StableExact.answers_exact s n ac h.w hn h.hv _ (StableExact.verdict_iff (ac.map (eval s)))
  simp only [← e', ← e] at a b
  refine ⟨a.1, b.1, fun v => ?_⟩
  rw [a.2 v, b.2 v, h.same]

theorem SameFns.count (h : SameFns s s' ac) (n : Nat) (hn : ac.length = n) (useA useA' : Bool) :
    (dec3 (countAll s' n ac useA').2).Nodup ∧ (dec3 (countAll s n ac useA).2).Nodup ∧
    ∀ v : I3, v ∈ dec3 (countAll s' n ac useA').2 ↔ v ∈ dec3 (countAll s n ac useA).2 := by
  have a := CI.countAll_exact s' n ac useA' h.w' hn h.hv'
  have b := CI.countAll_exact s n ac useA h.w hn h.hv
  refine ⟨a.1, b.1, fun v => ?_⟩
  have a2 := a.2 v; have b2 := b.2 v
  unfold CI.d3 at a2 b2
  rw [a2, b2, h.same]

/-- the two-valued mode's side condition (the conditions look at statements only) transfers -/
theorem SameFns.support (h : SameFns s s' ac) (n : Nat)
    (hs : ∀ t ∈ ac, ∀ σ τ : Asg, (∀ i, i < n → σ i = τ i) → eval s t σ = eval s t τ) :
    ∀ t ∈ ac, ∀ σ τ : Asg, (∀ i, i < n → σ i = τ i) → eval s' t σ = eval s' t τ := by
  intro t ht σ τ hag
  have e : eval s' t = eval s t := by
    obtain ⟨i, hi, rfl⟩ := List.getElem_of_mem ht
    have := congrArg (fun l => l[i]?) h.same
    simpa [hi] using this
  rw [e]; exact hs t ht σ τ hag

theorem SameFns.ng (h : SameFns s s' ac) (n : Nat) (hn : ac.length = n) (heu heu' : SM.Heu) (stable : Bool)
    (hs : stable = false → ∀ t ∈ ac, ∀ σ τ : Asg, (∀ i, i < n → σ i = τ i) → eval s t σ = eval s t τ) :
    ∃ fuel fuel', (SM.ngSearch heu fuel s n ac stable).2.2.2 = true ∧
      (SM.ngSearch heu' fuel' s' n ac stable).2.2.2 = true ∧
      (dec3 (SM.ngSearch heu' fuel' s' n ac stable).2.1).Nodup ∧
      (dec3 (SM.ngSearch heu fuel s n ac stable).2.1).Nodup ∧
      ∀ v : I3, v ∈ dec3 (SM.ngSearch heu' fuel' s' n ac stable).2.1 ↔
                v ∈ dec3 (SM.ngSearch heu fuel s n ac stable).2.1 := by
  have ⟨f, hf, a⟩ := NConc.ng_end_to_end heu s n ac stable h.w hn h.hv hs
  have ⟨f', hf', b⟩ := NConc.ng_end_to_end heu' s' n ac stable h.w' hn h.hv'
    (fun e => h.support n (hs e))
  refine ⟨f, f', hf, hf', b.1, a.1, fun v => ?_⟩
  have a2 := a.2 v; have b2 := b.2 v
  rw [b2, a2, h.same]

/-! ## a concrete codec: `usize::to_string` / `str::parse::<usize>` -/

/-- decimal rendering `Nat.repr` and parsing `String.toNat?`; the round trip is the standard
library's theorem `Nat.toNat?_repr` -/
def decimalCodec : Codec := ⟨Nat.repr, String.toNat?, Nat.toNat?_repr⟩

end Persist
