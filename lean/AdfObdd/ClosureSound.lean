import AdfObdd.ClosureFacts
/-! prototype 35: soundness of the concrete closure loop — the `cl_upd` / `cl_inc` laws of the
    abstract search for `conclusionClosure` on the bucketed store -/

theorem avoidsAll_of_flat {n : Nat} {flat : List PA} {σ : Asg} (h : AvoidsL flat σ) :
    AvoidsAll (bucketsOf n flat) σ :=
  fun b hb g hg => h g (mem_bucketsOf hb g hg)

theorem matches_updateVec {val v : PA} {σ : Asg} (h1 : Matches val σ) (h2 : Matches v σ) :
    Matches (updateVec val v).1 σ := by
  intro i b hi
  have hlt : i < (updateVec val v).1.length := pget_lt hi
  rw [updateVec_length] at hlt
  rw [pget_updateVec val v i hlt] at hi
  cases hv : pget val i with
  | some c => rw [hv] at hi; simp only [Option.some.injEq] at hi; subst hi; exact h1 i c hv
  | none => rw [hv] at hi; exact h2 i b hi

/-- everything the loop can return is justified for the assignments that extend the start
interpretation and avoid the store -/
theorem closureLoop_sound (buckets : List (List PA)) (σ : Asg) (ha : AvoidsAll buckets σ) :
    ∀ (fuel : Nat) (r : PA), Matches r σ →
    (∀ R, closureLoop buckets fuel r = Closure.update R → Matches R σ) ∧
    closureLoop buckets fuel r ≠ Closure.inconsistent := by
  intro fuel
  induction fuel with
  | zero =>
    intro r hm
    exact ⟨(fun R h => by simp [closureLoop] at h; subst h; exact hm), by simp [closureLoop]⟩
  | succ f ih =>
    intro r hm
    unfold closureLoop
    have ⟨s1, s2⟩ := conclusions_sound buckets r
    cases hc : conclusions buckets r with
    | none => exact absurd ha (s2 hc σ hm)
    | some val =>
      simp only
      have hval : Matches val σ := (s1 val hc).forced σ hm ha
      have hu := matches_updateVec hval hm
      by_cases hflag : (updateVec val r).2 = true
      · rw [if_pos hflag]; exact ih _ hu
      · rw [if_neg hflag]
        exact ⟨(fun R h => by simp only [Closure.update.injEq] at h; subst h; exact hu), by simp⟩

/-- `cl_upd` and `cl_inc` for the concrete closure -/
theorem closure_sound (n : Nat) (flat : List PA) (A : PA) (σ : Asg) (hm : Matches A σ) (ha : AvoidsL flat σ) :
    (∀ R, conclusionClosure (bucketsOf n flat) A = Closure.update R → Matches R σ) ∧
    conclusionClosure (bucketsOf n flat) A ≠ Closure.inconsistent := by
  have ha' := avoidsAll_of_flat (n := n) ha
  have ⟨s1, s2⟩ := conclusions_sound (bucketsOf n flat) A
  unfold conclusionClosure
  cases hc : conclusions (bucketsOf n flat) A with
  | none => exact absurd ha' (s2 hc σ hm)
  | some val =>
    simp only
    have hval : Matches val σ := (s1 val hc).forced σ hm ha'
    have hu := matches_updateVec hval hm
    by_cases hflag : (!(updateVec val A).2) = true
    · rw [if_pos hflag]; exact ⟨(fun R h => by simp at h), by simp⟩
    · rw [if_neg hflag]; exact closureLoop_sound _ σ ha' _ _ hu
#print axioms closure_sound

/-! ### `cl_no` and `upd_sub` for the concrete closure -/

theorem closure_no (n : Nat) (flat : List PA) (A : PA) (hn : size A ≤ n)
    (h : conclusionClosure (bucketsOf n flat) A = Closure.noUpdate) : ∀ g ∈ flat, g ≠ A := by
  intro g hg e
  subst e
  have := closure_direct n flat g g hg rfl (PSub.refl _) hn
  rw [this] at h; cases h

theorem size_lt : ∀ (g A : PA), g.length = A.length → PSub g A →
    (∃ i, pget g i = none ∧ (pget A i).isSome = true) → size g < size A := by
  intro g
  induction g with
  | nil => intro A hl _ ⟨i, _, h2⟩; cases A with
    | nil => simp [pget] at h2
    | cons _ _ => simp at hl
  | cons x g ih =>
    intro A hl hs ⟨i, h1, h2⟩
    cases A with
    | nil => simp at hl
    | cons y A =>
      have hl' : g.length = A.length := by simpa using hl
      have hs' : PSub g A := fun i b h => by
        have := hs (i+1) b (by rw [pget_cons_succ]; exact h)
        rwa [pget_cons_succ] at this
      rw [size_cons, size_cons]
      cases i with
      | zero =>
        rw [pget_cons_zero] at h1 h2
        subst h1
        have := size_mono g A hl' hs'
        simp [h2]; omega
      | succ i =>
        rw [pget_cons_succ] at h1 h2
        have := ih A hl' hs' ⟨i, h1, h2⟩
        cases x with
        | none => simp; omega
        | some b =>
          have := hs 0 b (by rw [pget_cons_zero])
          rw [pget_cons_zero] at this
          subst this
          simp; omega

theorem psub_updateVec {val r : PA} (h : PSub r val) : PSub r (updateVec val r).1 := by
  intro i b hi
  rw [pget_updateVec val r i (pget_lt hi), h i b hi]

theorem size_updateVec_lt {val r : PA} (h : PSub r val) (hf : (updateVec val r).2 = true) :
    size r < size (updateVec val r).1 := by
  apply size_lt _ _ (updateVec_length val r).symm (psub_updateVec h)
  unfold updateVec at hf
  simp only [List.any_eq_true, List.mem_range, Bool.and_eq_true] at hf
  obtain ⟨i, hi, h1, h2⟩ := hf
  refine ⟨i, by simpa using h2, ?_⟩
  rw [pget_updateVec val r i hi]
  cases hv : pget val i with
  | none => rw [hv] at h1; cases h1
  | some b => rfl

theorem conclusions_keep {buckets : List (List PA)} {r val : PA} (h : conclusions buckets r = some val) :
    PSub r val := ((conclusions_sound buckets r).1 val h).keep

theorem closureLoop_sub (buckets : List (List PA)) : ∀ (fuel : Nat) (r R : PA),
    closureLoop buckets fuel r = Closure.update R → PSub r R ∧ size r ≤ size R := by
  intro fuel
  induction fuel with
  | zero => intro r R h; simp [closureLoop] at h; subst h; exact ⟨PSub.refl _, Nat.le_refl _⟩
  | succ f ih =>
    intro r R h
    unfold closureLoop at h
    cases hc : conclusions buckets r with
    | none => rw [hc] at h; cases h
    | some val =>
      rw [hc] at h; simp only at h
      have hk := conclusions_keep hc
      have hs := psub_updateVec (val := val) hk
      have hsz := size_mono r _ (updateVec_length val r).symm hs
      by_cases hflag : (updateVec val r).2 = true
      · rw [if_pos hflag] at h
        have ⟨a, b⟩ := ih _ R h
        exact ⟨hs.trans a, by omega⟩
      · rw [if_neg hflag] at h
        simp only [Closure.update.injEq] at h; subst h
        exact ⟨hs, hsz⟩

/-- `upd_sub` for the concrete closure, with `mu = size` -/
theorem closure_upd_sub (buckets : List (List PA)) (A R : PA)
    (h : conclusionClosure buckets A = Closure.update R) : PSub A R ∧ size A < size R := by
  unfold conclusionClosure at h
  cases hc : conclusions buckets A with
  | none => rw [hc] at h; cases h
  | some val =>
    rw [hc] at h; simp only at h
    have hk := conclusions_keep hc
    by_cases hflag : (!(updateVec val A).2) = true
    · rw [if_pos hflag] at h; cases h
    · rw [if_neg hflag] at h
      have hf : (updateVec val A).2 = true := by simpa using hflag
      have ⟨a, b⟩ := closureLoop_sub buckets _ _ R h
      have := size_updateVec_lt hk hf
      exact ⟨(psub_updateVec hk).trans a, by omega⟩
#print axioms closure_no
#print axioms closure_upd_sub
