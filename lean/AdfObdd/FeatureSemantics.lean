import AdfObdd.FeatureOps
import AdfObdd.AdfModel
/-! C12, the semantics over the configured store — part 1: the restriction algebra of the
    configured store (`CfgRA c`), the generic simulation between two restriction algebras
    (`RASim`: same `isConst`, `restrict` returns the same handle and keeps the relation), and
    `grounded` / `complete` / `stable` generic over a restriction algebra.

    The relation used throughout is `RelP c z P fs s := Rel c z fs s ∧ P fs`, where `P` is any
    predicate on configured stores that every primitive keeps (`Stable c P`); `P` carries the
    `frontend` log invariant (`LogInv`) through every routine without a second induction. -/

/-! ### the primitives outside the node table (totality) -/

theorem restrictC_oob (c : Cfg) (fs : FStore) (w : WF fs.base) (t v : Nat) (b : Bool)
    (h : fs.base.nodes.size ≤ t) : ∀ fuel, restrictC c fuel fs t v b = (fs, t) := by
  intro fuel
  cases fuel with
  | zero => rfl
  | succ f =>
    rw [restrictC]
    cases hm : fs.base.resC[(t, v, b)]? with
    | some r => have := (w.resOK t v b r hm).1; omega
    | none => simp only [Array.getElem?_eq_none h]

theorem restrictF_oob (s : Store) (w : WF s) (t v : Nat) (b : Bool)
    (h : s.nodes.size ≤ t) : ∀ fuel, restrictF fuel s t v b = (s, t) := by
  intro fuel
  cases fuel with
  | zero => rfl
  | succ f =>
    rw [restrictF]
    cases hm : s.resC[(t, v, b)]? with
    | some r => have := (w.resOK t v b r hm).1; omega
    | none => simp only [Array.getElem?_eq_none h]

/-- `restrict_rel` for every handle (outside the node table both bodies return their argument;
the Rust would panic there) -/
theorem restrict_rel_total {c : Cfg} {z : Bool} {fs : FStore} {s : Store} (r : Rel c z fs s) (t v : Nat) (b : Bool) :
    (restrictC c (t+1) fs t v b).2 = (restrictF (t+1) s t v b).2 ∧
    Rel c z (restrictC c (t+1) fs t v b).1 (restrictF (t+1) s t v b).1 := by
  by_cases ht : t < s.nodes.size
  · exact restrict_rel r t v b ht
  · have h1 : s.nodes.size ≤ t := by omega
    rw [restrictC_oob c fs r.inv.wf t v b (by rw [r.nodes]; exact h1), restrictF_oob s r.wf t v b h1]
    exact ⟨rfl, r⟩

/-! ### predicates every primitive keeps -/

/-- `P` is kept by the bookkeeping of `node`, by the memo insertions and (without `adhoccounting`,
where queries fill the count cache) by replacing the count cache -/
structure Stable (c : Cfg) (P : FStore → Prop) : Prop where
  node : ∀ fs v lo hi, P fs → P (nodeC c fs v lo hi).1
  insRes : ∀ fs k r, P fs → P (fs.insRes k r)
  insIte : ∀ fs k r, P fs → P (fs.insIte k r)
  cnt : c.adhoccounting = false → ∀ (fs : FStore) cnt', P fs → P { fs with cnt := cnt' }

theorem Stable.true (c : Cfg) : Stable c (fun _ => True) :=
  ⟨fun _ _ _ _ _ => trivial, fun _ _ _ _ => trivial, fun _ _ _ _ => trivial, fun _ _ _ _ => trivial⟩

theorem restrictC_pres {c : Cfg} {P : FStore → Prop} (st : Stable c P) :
    ∀ (fuel : Nat) (fs : FStore) (t v : Nat) (b : Bool), P fs → P (restrictC c fuel fs t v b).1 := by
  intro fuel
  induction fuel with
  | zero => intro fs t v b h; exact h
  | succ f ih =>
    intro fs t v b h
    rw [restrictC]
    split
    · exact h
    · split
      · exact h
      · split
        · exact h
        · split
          · exact h
          · split
            · exact st.insRes _ _ _ (st.node _ _ _ _ (ih _ _ _ _ (ih _ _ _ _ h)))
            · apply st.insRes
              cases b
              · exact ih _ _ _ _ h
              · exact ih _ _ _ _ h

theorem iteCfg_pres {c : Cfg} {P : FStore → Prop} (st : Stable c P) :
    ∀ (fuel : Nat) (fs : FStore) (i t e : Nat), P fs → P (iteCfg c fuel fs i t e).1 := by
  intro fuel
  induction fuel with
  | zero => intro fs i t e h; exact h
  | succ f ih =>
    intro fs i t e h
    rw [iteCfg]
    split
    · exact h
    · split
      · exact h
      · split
        · exact h
        · split
          · exact h
          · split
            · exact h
            · apply st.insIte
              apply st.node
              apply ih
              apply ih
              exact restrictC_pres st _ _ _ _ _ (restrictC_pres st _ _ _ _ _ (restrictC_pres st _ _ _ _ _
                (restrictC_pres st _ _ _ _ _ (restrictC_pres st _ _ _ _ _ (restrictC_pres st _ _ _ _ _ h)))))

/-- the configured store and the reference store are related and `P` holds of the configured one -/
def RelP (c : Cfg) (z : Bool) (P : FStore → Prop) (fs : FStore) (s : Store) : Prop := Rel c z fs s ∧ P fs

/-! ### the restriction algebra of the configured store -/

/-- `Bdd::restrict` etc. under the feature set `c`, as a restriction algebra: the generic grounded
loop, the `complete` filter … run on it, and their generic correctness theorems
(`grounded_correct`, `completeCheck_spec`) hold for every feature set -/
def CfgRA (c : Cfg) : RA FStore Nat where
  Inv := fun fs => ∃ z, FInv c z fs
  Valid := fun fs t => t < fs.base.nodes.size
  den := fun fs => eval fs.base
  Le := fun a b => Ext a.base b.base
  le_refl := fun a => Ext.refl a.base
  le_trans := Ext.trans
  valid_mono := fun l h => Nat.lt_of_lt_of_le h l.1
  den_mono := fun hi l hv => by
    obtain ⟨z, hi⟩ := hi
    funext σ; exact eval_ext hi.wf l _ σ hv
  restrict := fun fs t v b => restrictC c (t+1) fs t v b
  restrict_spec := fun {fs t} v b hi hv => by
    obtain ⟨z, hi⟩ := hi
    have ⟨e1, q1, _⟩ := restrictC_sim c z (t+1) fs t v b hi hv (Nat.lt_succ_self _)
    have i1 := restrictC_inv c z (t+1) fs t v b hi hv (Nat.lt_succ_self _)
    have ⟨_, x, l, _, e⟩ := restrictS_spec (scOf c) (scOf_sound c) (t+1) fs.base t v b hi.wf hv (Nat.lt_succ_self _)
    refine ⟨⟨z, i1⟩, by rw [e1]; exact x, by rw [e1, q1]; exact l, ?_⟩
    funext σ; rw [e1, q1]; exact e σ
  isConst := storeIsConst
  isConst_spec := fun {fs t} b hi hv => by
    obtain ⟨z, hi⟩ := hi
    exact StoreRA.isConst_spec (s := fs.base) (t := t) b hi.wf hv

/-! ### simulation between two restriction algebras -/

section
variable {S S' T : Type}

/-- `A` on `S` and `B` on `S'` cannot be told apart through handles: same constants, `restrict`
returns the same handle from related states and keeps them related -/
structure RASim (A : RA S T) (B : RA S' T) (R : S → S' → Prop) : Prop where
  isConst : ∀ t, A.isConst t = B.isConst t
  restrict : ∀ s s' t v b, R s s' →
    (A.restrict s t v b).2 = (B.restrict s' t v b).2 ∧ R (A.restrict s t v b).1 (B.restrict s' t v b).1

variable {A : RA S T} {B : RA S' T} {R : S → S' → Prop} (sim : RASim A B R)
include sim

theorem restrictBy_sim : ∀ (cs : List T) (k : Nat) (s : S) (s' : S') (t : T), R s s' →
    (restrictBy A s t k cs).2 = (restrictBy B s' t k cs).2 ∧
    R (restrictBy A s t k cs).1 (restrictBy B s' t k cs).1 := by
  intro cs
  induction cs with
  | nil => intro k s s' t h; exact ⟨rfl, h⟩
  | cons x cs ih =>
    intro k s s' t h
    unfold restrictBy
    rw [← sim.isConst x]
    cases A.isConst x with
    | none => exact ih (k+1) s s' t h
    | some b =>
      simp only
      have ⟨q, r⟩ := sim.restrict s s' t k b h
      rw [q]
      exact ih (k+1) _ _ _ r

theorem roundAux_sim (curr : List T) : ∀ (xs : List T) (s : S) (s' : S'), R s s' →
    (roundAux A s curr xs).2 = (roundAux B s' curr xs).2 ∧
    R (roundAux A s curr xs).1 (roundAux B s' curr xs).1 := by
  intro xs
  induction xs with
  | nil => intro s s' h; exact ⟨rfl, h⟩
  | cons x xs ih =>
    intro s s' h
    unfold roundAux
    rw [← sim.isConst x]
    cases A.isConst x with
    | some b =>
      simp only
      have ⟨q, r⟩ := ih s s' h
      exact ⟨by rw [q], r⟩
    | none =>
      simp only
      have ⟨q0, r0⟩ := restrictBy_sim sim curr 0 s s' x h
      have ⟨q, r⟩ := ih _ _ r0
      exact ⟨by rw [q0, q], r⟩

theorem countConst_sim (v : List T) : countConst A v = countConst B v := by
  unfold countConst asg3
  congr 1
  apply List.map_congr_left
  intro x _; exact sim.isConst x

theorem groundedLoop_sim : ∀ (fuel : Nat) (s : S) (s' : S') (v : List T), R s s' →
    (groundedLoop A fuel s v).2 = (groundedLoop B fuel s' v).2 ∧
    R (groundedLoop A fuel s v).1 (groundedLoop B fuel s' v).1 := by
  intro fuel
  induction fuel with
  | zero => intro s s' v h; exact ⟨rfl, h⟩
  | succ f ih =>
    intro s s' v h
    have ⟨q, r⟩ := roundAux_sim sim v v s s' h
    unfold groundedLoop
    simp only
    rw [countConst_sim sim, countConst_sim sim v, q]
    split
    · exact ⟨q, r⟩
    · rw [← q]; exact ih _ _ _ r

theorem completeCheck_sim (v : List T) : ∀ (acs xs : List T) (s : S) (s' : S'), R s s' →
    (completeCheck A s v acs xs).2 = (completeCheck B s' v acs xs).2 ∧
    R (completeCheck A s v acs xs).1 (completeCheck B s' v acs xs).1 := by
  intro acs
  induction acs with
  | nil => intro xs s s' h; unfold completeCheck; exact ⟨rfl, h⟩
  | cons a acs ih =>
    intro xs s s' h
    cases xs with
    | nil => unfold completeCheck; exact ⟨rfl, h⟩
    | cons x xs =>
      have ⟨q0, r0⟩ := restrictBy_sim sim v 0 s s' a h
      unfold completeCheck
      simp only
      rw [← sim.isConst, ← sim.isConst, q0]
      split
      · exact ih xs _ _ r0
      · exact ⟨rfl, r0⟩

omit sim in
/-- folds that thread a state and collect answers -/
theorem foldl_sim {α β : Type} (f : S × β → α → S × β) (f' : S' × β → α → S' × β)
    (h : ∀ a a' x, R a.1 a'.1 → a.2 = a'.2 → (f a x).2 = (f' a' x).2 ∧ R (f a x).1 (f' a' x).1) :
    ∀ (l : List α) (a : S × β) (a' : S' × β), R a.1 a'.1 → a.2 = a'.2 →
    (l.foldl f a).2 = (l.foldl f' a').2 ∧ R (l.foldl f a).1 (l.foldl f' a').1 := by
  intro l
  induction l with
  | nil => intro a a' r q; exact ⟨q, r⟩
  | cons x l ih =>
    intro a a' r q
    have ⟨q1, r1⟩ := h a a' x r q
    exact ih _ _ r1 q1
end

/-! ### `complete` and `stable`, generic over the restriction algebra -/

section
variable {S : Type} (A : RA S Nat)

/-- `Adf::complete` on any restriction algebra -/
def completeAllG (s : S) (n : Nat) (ac : List Nat) : S × List Nat × List (List Nat) :=
  let g := groundedLoop A (n + 1) s ac
  let r := (threeValAll g.2).foldl (fun (acc : S × List (List Nat)) v =>
      let c := completeCheck A acc.1 v ac v
      (c.1, if c.2 then acc.2 ++ [v] else acc.2)) (g.1, [])
  (r.1, g.2, r.2)

def restrictFalseG (s : S) (t : Nat) : Nat → List Nat → S × Nat
  | _, [] => (s, t)
  | k, c :: cs =>
    if c == 0 then let r := A.restrict s t k false; restrictFalseG r.1 r.2 (k+1) cs
    else restrictFalseG s t (k+1) cs

def mapFalseG (s : S) (cand : List Nat) : List Nat → S × List Nat
  | [] => (s, [])
  | a :: acs => let r := restrictFalseG A s a 0 cand; let m := mapFalseG r.1 cand acs; (m.1, r.2 :: m.2)

/-- `Adf::stable` on any restriction algebra -/
def stableAllG (s : S) (n : Nat) (ac : List Nat) : S × List (List Nat) :=
  let g := groundedLoop A (n + 1) s ac
  (twoValAll g.2).foldl (fun (acc : S × List (List Nat)) cand =>
      let red := mapFalseG A acc.1 cand ac
      let grd := groundedLoop A (n + 1) red.1 red.2
      let ok := (cand.zip grd.2).all (fun (a, b) => sameInfo a b)
      (grd.1, if ok then acc.2 ++ [cand] else acc.2)) (g.1, [])
end

theorem restrictFalseG_store : ∀ (cs : List Nat) (s : Store) (t k : Nat),
    restrictFalseG StoreRA s t k cs = restrictFalse s t k cs := by
  intro cs
  induction cs with
  | nil => intros; rfl
  | cons c cs ih =>
    intro s t k
    unfold restrictFalseG restrictFalse
    split
    · exact ih _ _ _
    · exact ih _ _ _

theorem mapFalseG_store (cand : List Nat) : ∀ (acs : List Nat) (s : Store),
    mapFalseG StoreRA s cand acs = mapFalse s cand acs := by
  intro acs
  induction acs with
  | nil => intros; rfl
  | cons a acs ih =>
    intro s
    unfold mapFalseG mapFalse
    simp only [restrictFalseG_store, ih]

/-- the executed models are the generic ones on the reference store -/
theorem completeAllG_store (s : Store) (n : Nat) (ac : List Nat) : completeAllG StoreRA s n ac = completeAll s n ac := rfl

theorem stableAllG_store (s : Store) (n : Nat) (ac : List Nat) : stableAllG StoreRA s n ac = stableAll s n ac := by
  unfold stableAllG stableAll
  simp only [mapFalseG_store]

section
variable {S S' : Type} {A : RA S Nat} {B : RA S' Nat} {R : S → S' → Prop} (sim : RASim A B R)
include sim

theorem completeAllG_sim (s : S) (s' : S') (n : Nat) (ac : List Nat) (h : R s s') :
    (completeAllG A s n ac).2 = (completeAllG B s' n ac).2 ∧ R (completeAllG A s n ac).1 (completeAllG B s' n ac).1 := by
  have ⟨q, r⟩ := groundedLoop_sim sim (n+1) s s' ac h
  unfold completeAllG
  simp only
  rw [q]
  have := foldl_sim (R := R)
    (fun (acc : S × List (List Nat)) v =>
      let c := completeCheck A acc.1 v ac v
      (c.1, if c.2 then acc.2 ++ [v] else acc.2))
    (fun (acc : S' × List (List Nat)) v =>
      let c := completeCheck B acc.1 v ac v
      (c.1, if c.2 then acc.2 ++ [v] else acc.2))
    (by
      intro a a' x ra qa
      have ⟨q1, r1⟩ := completeCheck_sim sim x ac x a.1 a'.1 ra
      simp only
      rw [q1, qa]
      exact ⟨rfl, r1⟩)
    (threeValAll (groundedLoop B (n+1) s' ac).2) ((groundedLoop A (n+1) s ac).1, []) ((groundedLoop B (n+1) s' ac).1, []) r rfl
  exact ⟨by rw [this.1], this.2⟩

theorem restrictFalseG_sim : ∀ (cs : List Nat) (s : S) (s' : S') (t k : Nat), R s s' →
    (restrictFalseG A s t k cs).2 = (restrictFalseG B s' t k cs).2 ∧
    R (restrictFalseG A s t k cs).1 (restrictFalseG B s' t k cs).1 := by
  intro cs
  induction cs with
  | nil => intro s s' t k h; exact ⟨rfl, h⟩
  | cons c cs ih =>
    intro s s' t k h
    unfold restrictFalseG
    split
    · have ⟨q, r⟩ := sim.restrict s s' t k false h
      simp only
      rw [q]; exact ih _ _ _ _ r
    · exact ih _ _ _ _ h

theorem mapFalseG_sim (cand : List Nat) : ∀ (acs : List Nat) (s : S) (s' : S'), R s s' →
    (mapFalseG A s cand acs).2 = (mapFalseG B s' cand acs).2 ∧
    R (mapFalseG A s cand acs).1 (mapFalseG B s' cand acs).1 := by
  intro acs
  induction acs with
  | nil => intro s s' h; exact ⟨rfl, h⟩
  | cons a acs ih =>
    intro s s' h
    have ⟨q0, r0⟩ := restrictFalseG_sim sim cand s s' a 0 h
    have ⟨q1, r1⟩ := ih _ _ r0
    unfold mapFalseG
    simp only
    exact ⟨by rw [q0, q1], r1⟩

theorem stableAllG_sim (s : S) (s' : S') (n : Nat) (ac : List Nat) (h : R s s') :
    (stableAllG A s n ac).2 = (stableAllG B s' n ac).2 ∧ R (stableAllG A s n ac).1 (stableAllG B s' n ac).1 := by
  have ⟨q, r⟩ := groundedLoop_sim sim (n+1) s s' ac h
  unfold stableAllG
  simp only
  rw [q]
  exact foldl_sim (R := R) _ _
    (by
      intro a a' x ra qa
      have ⟨q1, r1⟩ := mapFalseG_sim sim x ac a.1 a'.1 ra
      have ⟨q2, r2⟩ := groundedLoop_sim sim (n+1) _ _ (mapFalseG A a.1 x ac).2 r1
      simp only
      rw [← q1, q2, qa]
      exact ⟨rfl, r2⟩)
    _ _ _ r rfl
end

/-! ### the configured store simulates the reference store -/

theorem cfg_sim (c : Cfg) (z : Bool) (P : FStore → Prop) (st : Stable c P) :
    RASim (CfgRA c) StoreRA (RelP c z P) where
  isConst := fun _ => rfl
  restrict := fun fs s t v b h => by
    have ⟨q, r⟩ := restrict_rel_total h.1 t v b
    exact ⟨q, r, restrictC_pres st _ _ _ _ _ h.2⟩

#print axioms cfg_sim
#print axioms stableAllG_sim
#print axioms completeAllG_sim
