import AdfObdd.ServerCmd
import AdfObdd.ServerProofs
import AdfObdd.ServerCred
/-! Facts about the command-granular concurrent semantics `ServerCmd`:
    1. refinement: the atomic model is the special case of sequential schedules;
    2. invariants of ALL schedules: every request in flight keeps the shape of its handler, every
       logged command has the shape its source allows, account names are unique, every stored
       credential is a `hash salt pw`;
    3. isolation per command and per schedule.
    Core Lean only. -/
namespace ServerCmd
open ServerM

section
variable {T H A R : Type} [DecidableEq T]

/-! ### 1. refinement -/

theorem runC_append (E : Env T H A R) : ∀ (as bs : List (Act T)) (s : CState T H A R),
    runC E s (as ++ bs) = runC E (runC E s as) bs := by
  intro as
  induction as with
  | nil => intro bs s; rfl
  | cons a as ih => intro bs s; exact ih bs _

/-- the commands of `runLog` are the command trace of the atomic `run` -/
theorem runLog_cmds (src : Src T) : ∀ (p : P T H A R) (db : Db T H A R),
    (runLog src p db).map (·.cmd) = (run p db).2.2 ∧ ∀ e ∈ runLog src p db, e.src = src := by
  intro p
  induction p with
  | ret a => intro db; exact ⟨rfl, by intro e he; cases he⟩
  | cmd c k ih =>
    intro db
    simp only [runLog, run, List.map_cons, List.cons.injEq, true_and, List.mem_cons]
    refine ⟨(ih _ _).1, ?_⟩
    intro e he
    rcases he with he | he
    · rw [he]
    · exact (ih _ _).2 e he

/-- the `k`-th request in flight runs all commands of its program, nobody else moves: the effect
is the atomic `run` of the program, the log receives its trace, the program has reached `ret` -/
theorem runC_cmds (E : Env T H A R) (k jar : Nat) (id : Option T) (rq : Req T) :
    ∀ (p : P T H A R) (s : CState T H A R), s.pool[k]? = some ⟨jar, id, rq, p⟩ →
      runC E s (List.replicate (run p s.db).2.2.length (.cmd k)) =
        { s with db := (run p s.db).1,
                 pool := s.pool.set k ⟨jar, id, rq, .ret (run p s.db).2.1⟩,
                 log := s.log ++ runLog (.request jar id rq) p s.db } := by
  intro p
  induction p with
  | ret a =>
    intro s hk
    have hlt : k < s.pool.length := by
      rcases Nat.lt_or_ge k s.pool.length with h | h
      · exact h
      · rw [List.getElem?_eq_none h] at hk; cases hk
    have hget : s.pool[k] = ⟨jar, id, rq, .ret a⟩ := by
      rw [List.getElem?_eq_getElem hlt] at hk; exact Option.some.inj hk
    simp only [run, List.length_nil, List.replicate_zero, runC, runLog, List.append_nil]
    have : s.pool.set k ⟨jar, id, rq, .ret a⟩ = s.pool := by rw [← hget]; exact List.set_getElem_self hlt
    rw [this]
  | cmd c kk ih =>
    intro s hk
    have hlt : k < s.pool.length := by
      rcases Nat.lt_or_ge k s.pool.length with h | h
      · exact h
      · rw [List.getElem?_eq_none h] at hk; cases hk
    simp only [run, List.length_cons, List.replicate_succ, runC]
    have hstep : stepC E s (.cmd k) =
        { s with db := (exec s.db c).1, pool := s.pool.set k ⟨jar, id, rq, kk (exec s.db c).2⟩,
                 log := s.log ++ [⟨.request jar id rq, c, foundBy c (exec s.db c).2⟩] } := by
      simp only [stepC, hk]
    rw [hstep]
    rw [ih (exec s.db c).2 _ (by simp only [List.getElem?_set_self hlt])]
    simp only [List.set_set, runLog, List.append_assoc, List.singleton_append]

/-- **one request, sequentially.** In any state (any requests already in flight), let `rq` arrive,
run all its commands and deliver its response without anybody else moving: database and cookie jars
are those of the atomic step `stepT`, the response is the atomic one, the log receives exactly the
atomic command trace, the other requests in flight are where they were. -/
theorem seqRequest_atomic (E : Env T H A R) (s : CState T H A R) (rq : Request T) :
    runC E s (seqRequest E ⟨s.db, s.sess⟩ s.pool.length rq) =
      { s with db := (stepT E ⟨s.db, s.sess⟩ rq).1.db,
               sess := (stepT E ⟨s.db, s.sess⟩ rq).1.sess,
               log := s.log ++ runLog (.request rq.jar (s.sess rq.jar) rq.req)
                  (handler E rq.jar (s.sess rq.jar) rq.req) s.db,
               out := s.out ++ [(rq.jar, (stepT E ⟨s.db, s.sess⟩ rq).2.1)] } := by
  simp only [seqRequest, runC_append, runC]
  have harr : stepC E s (.arrive rq) =
      { s with pool := s.pool ++ [⟨rq.jar, s.sess rq.jar, rq.req, handler E rq.jar (s.sess rq.jar) rq.req⟩] } := rfl
  rw [harr]
  have h := runC_cmds E s.pool.length rq.jar (s.sess rq.jar) rq.req (handler E rq.jar (s.sess rq.jar) rq.req)
    { s with pool := s.pool ++ [⟨rq.jar, s.sess rq.jar, rq.req, handler E rq.jar (s.sess rq.jar) rq.req⟩] }
    (by simp)
  simp only [stepT] at h ⊢
  rw [h]
  simp only [stepC, List.set_append_right _ _ (Nat.le_refl _), Nat.sub_self, List.set_cons_zero,
    List.getElem?_append_right (Nat.le_refl _), List.getElem?_cons_zero,
    List.eraseIdx_append_of_length_le (Nat.le_refl _), List.eraseIdx_cons_zero, List.append_nil]

/-- the abstraction: forget the pool, the log and the delivered responses -/
def absState (s : CState T H A R) : State T H A R := ⟨s.db, s.sess⟩

/-- **the atomic model is the sequential special case.** Run a history of the atomic model
(`ServerM.runAll`) as the schedule in which every request arrives, executes all its commands and is
answered before anything else happens: the command-granular model ends with the same database, the
same cookie jars, nobody in flight, the same responses in the same order, and the atomic model's
command log.  Holds for every request kind (the proof is generic in the handler program). -/
theorem atomic_is_sequential (E : Env T H A R) : ∀ (es : List (Event T)) (st : State T H A R) (s : CState T H A R),
    s.pool = [] → s.db = st.db → s.sess = st.sess →
    (runC E s (seqSchedule E st es)).db = (runAll E st es).1.db ∧
    (runC E s (seqSchedule E st es)).sess = (runAll E st es).1.sess ∧
    (runC E s (seqSchedule E st es)).pool = [] ∧
    (runC E s (seqSchedule E st es)).out = s.out ++ (runAll E st es).2 ∧
    (runC E s (seqSchedule E st es)).log = s.log ++ atomicLog E st es := by
  intro es
  induction es with
  | nil => intro st s hp hd hs; simp [seqSchedule, runC, runAll, atomicLog, hp, hd, hs]
  | cons e es ih =>
    intro st s hp hd hs
    have hst : st = ⟨s.db, s.sess⟩ := by cases st; simp_all
    cases e with
    | req rq =>
      simp only [seqSchedule, runC_append]
      have h := seqRequest_atomic E s rq
      rw [hp] at h
      simp only [List.length_nil] at h
      rw [hst, h]
      have := ih (stepEv E ⟨s.db, s.sess⟩ (.req rq)).1
        { s with db := (stepT E ⟨s.db, s.sess⟩ rq).1.db,
                 sess := (stepT E ⟨s.db, s.sess⟩ rq).1.sess,
                 pool := [],
                 log := s.log ++ runLog (.request rq.jar (s.sess rq.jar) rq.req)
                    (handler E rq.jar (s.sess rq.jar) rq.req) s.db,
                 out := s.out ++ [(rq.jar, (stepT E ⟨s.db, s.sess⟩ rq).2.1)] } rfl rfl rfl
      obtain ⟨h1, h2, h3, h4, h5⟩ := this
      simp only [runAll]
      refine ⟨h1, h2, h3, ?_, ?_⟩
      · rw [h4]; simp only [stepEv, step, Event.jar, List.append_assoc]
      · rw [h5]; simp only [atomicLog, List.append_assoc]
    | finish j n =>
      simp only [seqSchedule, runC]
      have := ih (stepEv E st (.finish j n)).1 (stepC E s (.finish j n)) hp (by simp [stepC, stepEv, hd]) (by simp [stepC, stepEv, hs])
      obtain ⟨h1, h2, h3, h4, h5⟩ := this
      refine ⟨h1, h2, h3, ?_, ?_⟩
      · rw [h4]; simp [runAll, stepEv, stepC]
      · rw [h5]; simp [atomicLog, stepC, taskEntries]
    | write j n =>
      simp only [seqSchedule, runC]
      have := ih (stepEv E st (.write j n)).1 (stepC E s (.write j n)) hp (by simp [stepC, stepEv, hd]) (by simp [stepC, stepEv, hs])
      obtain ⟨h1, h2, h3, h4, h5⟩ := this
      refine ⟨h1, h2, h3, ?_, ?_⟩
      · rw [h4]; simp [runAll, stepEv, stepC]
      · rw [h5]; simp [atomicLog, stepC, hd, List.append_assoc]
    | timeout j n =>
      simp only [seqSchedule, runC]
      have := ih (stepEv E st (.timeout j n)).1 (stepC E s (.timeout j n)) hp (by simp [stepC, stepEv, hd]) (by simp [stepC, stepEv, hs])
      obtain ⟨h1, h2, h3, h4, h5⟩ := this
      refine ⟨h1, h2, h3, ?_, ?_⟩
      · rw [h4]; simp [runAll, stepEv, stepC]
      · rw [h5]; simp [atomicLog, stepC, hd, List.append_assoc]

/-! ### 2. invariants of all schedules -/

/-- the identity a logged command was issued for: the account named in the session cookie of the
request when it arrived (for an unauthenticated `add`: the temporary account it creates); for a
task write, the user name the task was spawned with -/
def Src.actor : Src T → Option T
  | .request _ id rq => ServerM.actor id rq
  | .task _ u => some u

/-- the account names a source may mention besides its identity -/
def Src.names : Src T → List T
  | .request _ _ rq => reqNames rq
  | .task _ _ => []

def Src.jar : Src T → Nat
  | .request j _ _ => j
  | .task j _ => j

/-- what a logged command may look like, given its source: a request's command is one of the
commands of its handler (`ServerM.Shape`, by inspection of each handler program); a task issues one
`update_one` whose filter carries the task's user name -/
def EntryOk (E : Env T H A R) (e : Entry T H A R) : Prop :=
  match e.src with
  | .request jar id rq => Shape E jar id rq e.cmd
  | .task _ u => ∃ n w, e.cmd = .pSet u n w

/-- every stored credential is `hash salt pw` for some salt and password -/
def AllHashed (E : Env T H A R) (users : List (User T H)) : Prop :=
  ∀ x ∈ users, ∀ h, x.password = some h → ∃ salt pw, h = E.hash salt pw

/-- the invariant of all schedules -/
structure Inv (E : Env T H A R) (s : CState T H A R) : Prop where
  pool : ∀ f ∈ s.pool, AllCmds (Shape E f.jar f.id f.req) (RetShape f.id f.req) f.prog
  log : ∀ e ∈ s.log, EntryOk E e
  nodup : (s.db.users.map (·.username)).Nodup
  hashed : AllHashed E s.db.users

omit [DecidableEq T] in
theorem Inv.init (E : Env T H A R) : Inv E ({} : CState T H A R) :=
  ⟨(by intro f hf; cases hf), (by intro e he; cases he), (by simp), (by intro x hx; cases hx)⟩

theorem updFirst_mem {α : Type} (q : α → Bool) (f : α → α) : ∀ (l : List α) (x : α),
    x ∈ updFirst q f l → x ∈ l ∨ ∃ y ∈ l, x = f y := by
  intro l
  induction l with
  | nil => intro x hx; simp [updFirst] at hx
  | cons y ys ih =>
    intro x hx
    simp only [updFirst] at hx
    split at hx
    · rcases List.mem_cons.mp hx with h | h
      · exact Or.inr ⟨y, List.mem_cons_self .., h⟩
      · exact Or.inl (List.mem_cons_of_mem _ h)
    · rcases List.mem_cons.mp hx with h | h
      · exact Or.inl (h ▸ List.mem_cons_self ..)
      · rcases ih x h with h' | ⟨z, hz, hx'⟩
        · exact Or.inl (List.mem_cons_of_mem _ h')
        · exact Or.inr ⟨z, List.mem_cons_of_mem _ hz, hx'⟩

theorem delFirst_mem {α : Type} (q : α → Bool) : ∀ (l : List α) (x : α), x ∈ delFirst q l → x ∈ l := by
  intro l
  induction l with
  | nil => intro x hx; simp [delFirst] at hx
  | cons y ys ih =>
    intro x hx
    simp only [delFirst] at hx
    split at hx
    · exact List.mem_cons_of_mem _ hx
    · rcases List.mem_cons.mp hx with h | h
      · exact h ▸ List.mem_cons_self ..
      · exact List.mem_cons_of_mem _ (ih x h)

/-- **the unique index.** Whatever command is executed — by whomever, in whatever state — account
names stay unique: `insert_one` and `replace_one` are refused by the database for a duplicate key,
everything else removes user records or does not touch them. -/
theorem exec_users_nodup (db : Db T H A R) (c : Cmd T H A R) (h : (db.users.map (·.username)).Nodup) :
    ((exec db c).1.users.map (·.username)).Nodup := by
  cases c with
  | uInsert u =>
    simp only [exec]
    split
    · exact h
    · rename_i hn
      simp only [List.map_append, List.map_cons, List.map_nil]
      rw [List.nodup_append]
      refine ⟨h, by simp, ?_⟩
      intro a ha b hb
      simp only [List.mem_singleton] at hb
      subst hb
      intro hab
      apply hn
      obtain ⟨x, hx, hxa⟩ := List.mem_map.mp ha
      exact (any_isUser _ _).mpr ⟨x, hx, by rw [hxa, hab]⟩
  | uReplace n u =>
    simp only [exec]
    split
    · exact h
    · rename_i hn
      apply nodup_updFirst_user n u _ h
      by_cases hu : u.username = n
      · exact Or.inl hu
      · right
        intro x hx hxu
        apply hn
        simp only [Bool.and_eq_true, decide_eq_true_eq]
        exact ⟨hu, (any_isUser _ _).mpr ⟨x, hx, hxu⟩⟩
  | uDelete n => exact nodup_delFirst_user n _ h
  | _ => exact h

/-- the document a command hands to the `users` collection carries no password or a hash -/
def HashedWrite (E : Env T H A R) (c : Cmd T H A R) : Prop :=
  ∀ x, userDoc c = some x → ∀ h, x.password = some h → ∃ salt pw, h = E.hash salt pw

omit [DecidableEq T] in
/-- by inspection of the handlers: the only documents written to `users` are
`{username, Some(hash salt password)}` (register, update) and `{username, None}` (temporary account) -/
theorem Shape.hashedWrite (E : Env T H A R) (jar : Nat) (id : Option T) (rq : Req T) (c : Cmd T H A R)
    (h : Shape E jar id rq c) : HashedWrite E c := by
  intro x hx hh hp
  cases rq with
  | register u p salt =>
    rcases h with h | h <;> subst h <;> simp only [userDoc, Option.some.injEq] at hx
    · cases hx
    · subst hx; simp only [Option.some.injEq] at hp; exact ⟨salt, p, hp.symm⟩
  | login u p => subst h; cases hx
  | logout => obtain ⟨v, _, h⟩ := h; subst h; cases hx
  | info => obtain ⟨v, _, h⟩ := h; subst h; cases hx
  | update u p salt =>
    obtain ⟨v, _, h⟩ := h
    rcases h with h | h | h <;> subst h <;> simp only [userDoc, Option.some.injEq] at hx
    · cases hx
    · subst hx; simp only [Option.some.injEq] at hp; exact ⟨salt, p, hp.symm⟩
    · cases hx
  | deleteAccount => obtain ⟨v, _, h⟩ := h; rcases h with h | h <;> subst h <;> cases hx
  | add name code file parsing fu fp =>
    rcases h with ⟨_, h | h⟩ | ⟨n, h⟩ | ⟨p, h, _⟩ | ⟨t, h, _, _⟩ <;> subst h <;>
      simp only [userDoc, Option.some.injEq] at hx
    · cases hx
    · subst hx; cases hp
    · cases hx
    · cases hx
    · cases hx
  | solve name s =>
    obtain ⟨v, _, h⟩ := h
    rcases h with h | h | ⟨t, h, _, _⟩ <;> subst h <;> cases hx
  | get name => obtain ⟨v, _, h⟩ := h; rcases h with h | ⟨n, h⟩ <;> subst h <;> cases hx
  | delete name => obtain ⟨v, _, h⟩ := h; subst h; cases hx
  | list => obtain ⟨v, _, h⟩ := h; rcases h with h | ⟨n, h⟩ <;> subst h <;> cases hx
  | malformed => exact h.elim

theorem exec_hashed (E : Env T H A R) (db : Db T H A R) (c : Cmd T H A R) (hc : HashedWrite E c)
    (h : AllHashed E db.users) : AllHashed E (exec db c).1.users := by
  cases c with
  | uInsert u =>
    simp only [exec]
    split
    · exact h
    · intro x hx
      rcases List.mem_append.mp hx with hx | hx
      · exact h x hx
      · simp only [List.mem_singleton] at hx; subst hx; exact hc x rfl
  | uReplace n u =>
    simp only [exec]
    split
    · exact h
    · intro x hx
      rcases updFirst_mem _ _ _ x hx with hx | ⟨_, _, hx⟩
      · exact h x hx
      · subst hx; exact hc x rfl
  | uDelete n => intro x hx; exact h x (delFirst_mem _ _ x hx)
  | _ => exact h

theorem dbEv_users_eq (E : Env T H A R) (db : Db T H A R) (e : Event T) : (dbEv E db e).users = db.users := by
  cases e with
  | req rq => rfl
  | finish j n => simp only [dbEv]; cases nthOf j n db.tasks <;> simp only <;> split <;> rfl
  | write j n => simp only [dbEv]; cases nthOf j n db.tasks <;> simp only <;> split <;> rfl
  | timeout j n => simp only [dbEv]; cases nthOf j n db.tasks <;> simp only <;> split <;> rfl

omit [DecidableEq T] in
theorem taskEntries_ok (E : Env T H A R) (db : Db T H A R) (e : Event T) : ∀ x ∈ taskEntries E db e, EntryOk E x := by
  intro x hx
  cases e with
  | req rq => cases hx
  | finish j n => cases hx
  | write j n =>
    simp only [taskEntries] at hx
    cases ht : nthOf j n db.tasks with
    | none => rw [ht] at hx; cases hx
    | some t =>
      rw [ht] at hx
      simp only at hx
      split at hx
      · simp only [List.mem_singleton] at hx; subst hx; exact ⟨_, _, rfl⟩
      · cases hx
  | timeout j n =>
    simp only [taskEntries] at hx
    cases ht : nthOf j n db.tasks with
    | none => rw [ht] at hx; cases hx
    | some t =>
      rw [ht] at hx
      simp only at hx
      split at hx
      · simp only [List.mem_singleton] at hx; subst hx; exact ⟨_, _, rfl⟩
      · cases hx

/-- every scheduler step preserves the invariant -/
theorem Inv.step (E : Env T H A R) (s : CState T H A R) (a : Act T) (inv : Inv E s) : Inv E (stepC E s a) := by
  cases a with
  | arrive rq =>
    refine ⟨?_, inv.log, inv.nodup, inv.hashed⟩
    intro f hf
    simp only [stepC] at hf
    rcases List.mem_append.mp hf with hf | hf
    · exact inv.pool f hf
    · simp only [List.mem_singleton] at hf; subst hf; exact handler_shape E _ _ _
  | cmd i =>
    simp only [stepC]
    cases hi : s.pool[i]? with
    | none => exact inv
    | some f =>
      simp only
      have hf := inv.pool f (List.mem_of_getElem? hi)
      cases hp : f.prog with
      | ret r => exact inv
      | cmd c k =>
        simp only
        rw [hp] at hf
        cases hf with
        | cmd _ _ hq hk =>
          refine ⟨?_, ?_, exec_users_nodup _ _ inv.nodup, exec_hashed E _ _ (Shape.hashedWrite E _ _ _ _ hq) inv.hashed⟩
          · intro g hg
            rcases List.mem_or_eq_of_mem_set hg with h | h
            · exact inv.pool g h
            · subst h; exact hk _ (exec_rok s.db c)
          · intro e he
            rcases List.mem_append.mp he with he | he
            · exact inv.log e he
            · simp only [List.mem_singleton] at he; subst he; exact hq
  | deliver i =>
    simp only [stepC]
    cases hi : s.pool[i]? with
    | none => exact inv
    | some f =>
      simp only
      cases hp : f.prog with
      | cmd c k => exact inv
      | ret r =>
        exact ⟨fun g hg => inv.pool g (List.mem_of_mem_eraseIdx hg), inv.log, inv.nodup, inv.hashed⟩
  | finish j n =>
    refine ⟨inv.pool, inv.log, ?_, ?_⟩
    · simp only [stepC, dbEv_users_eq]; exact inv.nodup
    · simp only [stepC, dbEv_users_eq]; exact inv.hashed
  | write j n =>
    refine ⟨inv.pool, ?_, ?_, ?_⟩
    · intro e he
      rcases List.mem_append.mp he with he | he
      · exact inv.log e he
      · exact taskEntries_ok E _ _ e he
    · simp only [stepC, dbEv_users_eq]; exact inv.nodup
    · simp only [stepC, dbEv_users_eq]; exact inv.hashed
  | timeout j n =>
    refine ⟨inv.pool, ?_, ?_, ?_⟩
    · intro e he
      rcases List.mem_append.mp he with he | he
      · exact inv.log e he
      · exact taskEntries_ok E _ _ e he
    · simp only [stepC, dbEv_users_eq]; exact inv.nodup
    · simp only [stepC, dbEv_users_eq]; exact inv.hashed

theorem Inv.run (E : Env T H A R) : ∀ (as : List (Act T)) (s : CState T H A R), Inv E s → Inv E (runC E s as) := by
  intro as
  induction as with
  | nil => intro s h; exact h
  | cons a as ih => intro s h; exact ih _ (Inv.step E s a h)

/-- an entry that satisfies `EntryOk` carries its source's identity (`ServerM.Owned`) -/
theorem EntryOk.owned (E : Env T H A R) (e : Entry T H A R) (h : EntryOk E e) :
    Owned e.src.jar e.src.actor e.src.names e.cmd := by
  cases hs : e.src with
  | request jar id rq =>
    simp only [EntryOk, hs] at h
    exact Shape.owned E jar id rq e.cmd h
  | task j u =>
    simp only [EntryOk, hs] at h
    obtain ⟨n, w, hc⟩ := h
    rw [hc]
    simp [Owned, Src.actor]

omit [DecidableEq T] in
/-- … in particular the user name in a problem-collection command is the source's identity -/
theorem Owned.probUser {jar : Nat} {U : Option T} {names : List T} {c : Cmd T H A R} (h : Owned jar U names c)
    (u : T) (hu : probUser c = some u) : U = some u := by
  cases c <;> simp only [ServerCmd.probUser, Option.some.injEq] at hu <;> try cases hu
  all_goals first
    | exact h.symm
    | exact h.1.symm

/-! ### 3. isolation, command by command -/

/-- a command carrying the identity `U` (and possibly mentioning `names`) leaves the problems of
every other account `v` exactly as they are -/
theorem owned_cmd_untouched (db : Db T H A R) (c : Cmd T H A R) (jar : Nat) (U : Option T) (names : List T)
    (v : T) (h : Owned jar U names c) (hU : U ≠ some v) (hn : v ∉ names) :
    (exec db c).1.problems.filter (ownedP v) = db.problems.filter (ownedP v) := by
  have hc : CmdIn (fun x => !decide (x = v)) (fun j => !(fun _ => false) j) c :=
    Owned.cmdIn (S := fun x => !decide (x = v)) (J := fun j => !(fun _ => false) j)
      (by intro u hu; simp only [Bool.not_eq_true', decide_eq_false_iff_not]; intro huv; exact hU (by rw [hu, huv]))
      (by intro n hn'; simp only [Bool.not_eq_true', decide_eq_false_iff_not]; intro hnv; exact hn (hnv ▸ hn'))
      (by rfl) c h
  exact (exec_out (S := fun x => decide (x = v)) (J := fun _ => false) db c hc).probs

/-- the scheduler action is a database command issued for `v` or by a request that mentions `v`'s
account name (arrivals and deliveries issue no command) -/
def actsOn (v : T) (s : CState T H A R) : Act T → Prop
  | .cmd i => ∃ f, s.pool[i]? = some f ∧ (actor f.id f.req = some v ∨ v ∈ reqNames f.req)
  | .write j n => ∃ t, nthOf j n s.db.tasks = some t ∧ t.username = v
  | .timeout j n => ∃ t, nthOf j n s.db.tasks = some t ∧ t.username = v
  | _ => False

/-- **one scheduler step.** In any state satisfying the invariant, a step that is not a command
for `v` (nor of a request mentioning `v`) leaves the problems of `v` as they are — whatever else
is in flight, whatever happened before. -/
theorem step_untouched (E : Env T H A R) (s : CState T H A R) (inv : Inv E s) (a : Act T) (v : T)
    (h : ¬ actsOn v s a) :
    (stepC E s a).db.problems.filter (ownedP v) = s.db.problems.filter (ownedP v) := by
  cases a with
  | arrive rq => rfl
  | deliver i =>
    simp only [stepC]
    cases s.pool[i]? with
    | none => rfl
    | some f => simp only; cases f.prog <;> rfl
  | cmd i =>
    simp only [stepC]
    cases hi : s.pool[i]? with
    | none => rfl
    | some f =>
      simp only
      have hf := inv.pool f (List.mem_of_getElem? hi)
      cases hp : f.prog with
      | ret r => rfl
      | cmd c k =>
        simp only
        rw [hp] at hf
        cases hf with
        | cmd _ _ hq hk =>
          have hno : ¬ (actor f.id f.req = some v ∨ v ∈ reqNames f.req) := fun hx => h ⟨f, hi, hx⟩
          exact owned_cmd_untouched s.db c f.jar _ _ v (Shape.owned E _ _ _ _ hq)
            (fun hx => hno (Or.inl hx)) (fun hx => hno (Or.inr hx))
  | finish j n =>
    simp only [stepC, dbEv]
    cases nthOf j n s.db.tasks with
    | none => rfl
    | some t => simp only; split <;> rfl
  | write j n =>
    simp only [stepC, dbEv]
    cases ht : nthOf j n s.db.tasks with
    | none => rfl
    | some t =>
      simp only
      split
      · have hv : t.username ≠ v := fun hv => h ⟨t, ht, hv⟩
        exact owned_cmd_untouched s.db (.pSet t.username t.name (taskWrite E t.input)) 0 (some t.username) [] v
          (by simp [Owned]) (by simpa using hv) (by simp)
      · rfl
  | timeout j n =>
    simp only [stepC, dbEv]
    cases ht : nthOf j n s.db.tasks with
    | none => rfl
    | some t =>
      simp only
      split
      · have hv : t.username ≠ v := fun hv => h ⟨t, ht, hv⟩
        exact owned_cmd_untouched s.db (.pSet t.username t.name (timeoutWrite t.input)) 0 (some t.username) [] v
          (by simp [Owned]) (by simpa using hv) (by simp)
      · rfl

/-- no action of the schedule is a command for `v` (in the state it is executed in) -/
def QuietC (E : Env T H A R) (v : T) : CState T H A R → List (Act T) → Prop
  | _, [] => True
  | s, a :: as => ¬ actsOn v s a ∧ QuietC E v (stepC E s a) as

theorem run_untouched (E : Env T H A R) (v : T) : ∀ (as : List (Act T)) (s : CState T H A R), Inv E s →
    QuietC E v s as → (runC E s as).db.problems.filter (ownedP v) = s.db.problems.filter (ownedP v) := by
  intro as
  induction as with
  | nil => intro s _ _; rfl
  | cons a as ih =>
    intro s inv h
    simp only [runC]
    rw [ih _ (Inv.step E s a inv) h.2]
    exact step_untouched E s inv a v h.1

/-! ### 4. check-then-act on the problem collection -/

theorem keyCount_pInsert (db : Db T H A R) (p : Problem T A R) (u n : T) :
    keyCount u n (exec db (.pInsert p)).1 = keyCount u n db + (if isProb u n p then 1 else 0) := by
  simp only [keyCount, exec, List.filter_append, List.length_append]
  cases h : isProb u n p <;> simp [h]

theorem keyCount_zero_of_find_none (db : Db T H A R) (u n : T) (h : db.problems.find? (isProb u n) = none) :
    keyCount u n db = 0 := by
  simp only [keyCount, List.length_eq_zero_iff, List.filter_eq_nil_iff]
  intro p hp
  exact List.find?_eq_none.mp h p hp

/-- the tail of `add_adf_problem`, run without interleaving, never creates a second document with
the same `(username, name)` -/
theorem addFor_atomic_unique (jar : Nat) (ck : Cookie T) (u name code : T) (parsing : Parsing) (emp fp : T)
    (db : Db T H A R) (h : ProbUnique db) :
    ProbUnique (run (addFor jar ck u name code parsing emp fp : P T H A R) db).1 := by
  have key : ∀ (m : T), db.problems.find? (isProb u m) = none →
      ProbUnique ({ db with problems := db.problems ++
        [({ name := m, username := u, code := code, parsing := parsing } : Problem T A R)] } : Db T H A R) := by
    intro m hm u' n'
    have := keyCount_pInsert db ({ name := m, username := u, code := code, parsing := parsing } : Problem T A R) u' n'
    simp only [exec] at this
    rw [this]
    by_cases hk : isProb u' n' ({ name := m, username := u, code := code, parsing := parsing } : Problem T A R) = true
    · simp only [isProb, Bool.and_eq_true, decide_eq_true_eq] at hk
      obtain ⟨h1, h2⟩ := hk
      subst h1; subst h2
      rw [keyCount_zero_of_find_none db _ _ hm]
      split <;> omega
    · rw [if_neg hk]
      exact h u' n'
  unfold addFor
  simp only
  split
  · simp only [run, exec]
    cases hf : db.problems.find? (isProb u name) with
    | some p => exact h
    | none =>
      simp only [run, exec]
      intro u' n'
      exact key name hf u' n'
  · simp only [run, exec]
    cases hf : db.problems.find? (isProb u fp) with
    | some p => exact h
    | none =>
      simp only [run, exec]
      intro u' n'
      exact key fp hf u' n'

/-- **`add`, not interleaved, keeps problem names unique per user** (the atomic step of the
existing model = the sequential schedule of the command-granular model, `seqRequest_atomic`) -/
theorem add_atomic_unique (E : Env T H A R) (st : State T H A R) (jar : Nat) (name : T) (code file : Option T)
    (parsing : Parsing) (fu fp : T) (h : ProbUnique st.db) :
    ProbUnique (step E st ⟨jar, .add name code file parsing fu fp⟩).1.db := by
  simp only [step, stepT, handler, hAdd]
  split
  · exact h
  · split
    · exact h
    · cases st.sess jar with
      | some u => exact addFor_atomic_unique _ _ _ _ _ _ _ _ _ h
      | none =>
        simp only [run, exec]
        cases hf : st.db.users.find? (isUser fu) with
        | some _ => exact h
        | none =>
          simp only [run, exec]
          split
          · exact h
          · exact addFor_atomic_unique _ _ _ _ _ _ _ _ _ h

/-! ### 5. what reaches the `users` collection -/

omit [DecidableEq T] in
/-- by inspection of the handlers: a document handed to `users` is either a temporary account
(no password) or `{name, hash salt pw}` where `name`, `pw` and `salt` are the fields of THE
`register` / `update` request that issued the command -/
theorem Shape.userDoc (E : Env T H A R) (jar : Nat) (id : Option T) (rq : Req T) (c : Cmd T H A R)
    (h : Shape E jar id rq c) (x : User T H) (hx : userDoc c = some x) :
    x.password = none ∨ ∃ u p salt, (rq = .register u p salt ∨ rq = .update u p salt) ∧ x = ⟨u, some (E.hash salt p)⟩ := by
  cases rq with
  | register u p salt =>
    rcases h with h | h <;> subst h <;> simp only [ServerCmd.userDoc, Option.some.injEq] at hx
    · cases hx
    · exact Or.inr ⟨u, p, salt, Or.inl rfl, hx.symm⟩
  | login u p => subst h; cases hx
  | logout => obtain ⟨v, _, h⟩ := h; subst h; cases hx
  | info => obtain ⟨v, _, h⟩ := h; subst h; cases hx
  | update u p salt =>
    obtain ⟨v, _, h⟩ := h
    rcases h with h | h | h <;> subst h <;> simp only [ServerCmd.userDoc, Option.some.injEq] at hx
    · cases hx
    · exact Or.inr ⟨u, p, salt, Or.inr rfl, hx.symm⟩
    · cases hx
  | deleteAccount => obtain ⟨v, _, h⟩ := h; rcases h with h | h <;> subst h <;> cases hx
  | add name code file parsing fu fp =>
    rcases h with ⟨_, h | h⟩ | ⟨n, h⟩ | ⟨p, h, _⟩ | ⟨t, h, _, _⟩ <;> subst h <;>
      simp only [ServerCmd.userDoc, Option.some.injEq] at hx
    · cases hx
    · subst hx; exact Or.inl rfl
    · cases hx
    · cases hx
    · cases hx
  | solve name s =>
    obtain ⟨v, _, h⟩ := h
    rcases h with h | h | ⟨t, h, _, _⟩ <;> subst h <;> cases hx
  | get name => obtain ⟨v, _, h⟩ := h; rcases h with h | ⟨n, h⟩ <;> subst h <;> cases hx
  | delete name => obtain ⟨v, _, h⟩ := h; subst h; cases hx
  | list => obtain ⟨v, _, h⟩ := h; rcases h with h | ⟨n, h⟩ <;> subst h <;> cases hx
  | malformed => exact h.elim

omit [DecidableEq T] in
/-- the same for a log entry -/
theorem EntryOk.userDoc (E : Env T H A R) (e : Entry T H A R) (h : EntryOk E e) (x : User T H)
    (hx : ServerCmd.userDoc e.cmd = some x) :
    x.password = none ∨ ∃ jar id u p salt,
      (e.src = .request jar id (.register u p salt) ∨ e.src = .request jar id (.update u p salt)) ∧
      x = ⟨u, some (E.hash salt p)⟩ := by
  cases hs : e.src with
  | request jar id rq =>
    simp only [EntryOk, hs] at h
    rcases Shape.userDoc E jar id rq e.cmd h x hx with h' | ⟨u, p, salt, h1, h2⟩
    · exact Or.inl h'
    · refine Or.inr ⟨jar, id, u, p, salt, ?_, h2⟩
      rcases h1 with h1 | h1 <;> subst h1 <;> simp
  | task j u =>
    simp only [EntryOk, hs] at h
    obtain ⟨n, w, hc⟩ := h
    rw [hc] at hx
    cases hx

/-! ### 6. what a response can contain -/

/-- along every path of results the database can give: the problem data in the response are
images (`infoOf`) of documents that are `known` or that the database returned to one of THIS
program's finds -/
inductive FromFinds : (Problem T A R → Prop) → P T H A R → Prop where
  | ret (known : Problem T A R → Prop) (r : Resp T R) :
      (∀ i ∈ infos r.body, ∃ p ts, known p ∧ i = infoOf p ts) → FromFinds known (.ret r)
  | cmd (known : Problem T A R → Prop) (c : Cmd T H A R) (k : c.Res → P T H A R) :
      (∀ res, Rok c res → FromFinds (fun p => known p ∨ p ∈ foundBy c res) (k res)) → FromFinds known (.cmd c k)

omit [DecidableEq T] in
theorem FromFinds.mono {known : Problem T A R → Prop} {p : P T H A R} (h : FromFinds known p) :
    ∀ {known' : Problem T A R → Prop}, (∀ x, known x → known' x) → FromFinds known' p := by
  induction h with
  | ret known r hr =>
    intro known' hk
    exact .ret _ _ (fun i hi => by obtain ⟨p, ts, h1, h2⟩ := hr i hi; exact ⟨p, ts, hk p h1, h2⟩)
  | cmd known c k _ ih =>
    intro known' hk
    exact .cmd _ _ _ (fun res hres => ih res hres (fun x hx => hx.elim (fun h => Or.inl (hk x h)) Or.inr))

omit [DecidableEq T] in
/-- a program whose responses carry no problem data -/
theorem FromFinds.of_noInfos {Q : Cmd T H A R → Prop} {L : Resp T R → Prop} (hL : ∀ r, L r → infos r.body = [])
    {p : P T H A R} (h : AllCmds Q L p) : ∀ known : Problem T A R → Prop, FromFinds known p := by
  induction h with
  | ret r hr => intro known; exact .ret _ _ (by rw [hL r hr]; intro i hi; cases hi)
  | cmd c k _ _ ih => intro known; exact .cmd _ _ _ (fun res hres => ih res hres _)

omit [DecidableEq T] in
theorem listInfos_fromFinds : ∀ (ps : List (Problem T A R)) (acc : List (Info T R)) (known : Problem T A R → Prop),
    (∀ p ∈ ps, known p) → (∀ i ∈ acc, ∃ p ts, known p ∧ i = infoOf p ts) →
    FromFinds known (listInfos acc ps : P T H A R) := by
  intro ps
  induction ps with
  | nil => intro acc known _ hacc; exact .ret _ _ hacc
  | cons p ps ih =>
    intro acc known hps hacc
    refine .cmd _ _ _ (fun ts _ => ?_)
    apply ih
    · intro q hq; exact Or.inl (hps q (List.mem_cons_of_mem _ hq))
    · intro i hi
      rcases List.mem_append.mp hi with hi | hi
      · obtain ⟨q, ts', h1, h2⟩ := hacc i hi; exact ⟨q, ts', Or.inl h1, h2⟩
      · simp only [List.mem_singleton] at hi
        exact ⟨p, ts, Or.inl (hps p (List.mem_cons_self ..)), hi⟩

/-- by inspection of the handlers: problem data in a response comes only from the documents the
database returned to the request's own `find_one` / `find` (`get`, `list`); no other handler puts
problem data into its response -/
theorem handler_fromFinds (E : Env T H A R) (jar : Nat) (id : Option T) (rq : Req T) :
    FromFinds (fun _ => False) (handler E jar id rq) := by
  have noInfo : ∀ (rq : Req T), (∀ r, RetShape id rq r → infos r.body = []) →
      FromFinds (fun _ => False) (handler E jar id rq) :=
    fun rq h => FromFinds.of_noInfos h (handler_shape E jar id rq) _
  cases rq with
  | get name =>
    simp only [handler, hGet]
    cases id with
    | none => exact .ret _ _ (by intro i hi; cases hi)
    | some u =>
      refine .cmd _ _ _ (fun res _ => ?_)
      cases res with
      | none => exact .ret _ _ (by intro i hi; cases hi)
      | some p =>
        refine .cmd _ _ _ (fun ts _ => .ret _ _ ?_)
        intro i hi
        simp only [infos, List.mem_singleton] at hi
        exact ⟨p, ts, Or.inl (Or.inr (by simp [foundBy])), hi⟩
  | list =>
    simp only [handler, hList]
    cases id with
    | none => exact .ret _ _ (by intro i hi; cases hi)
    | some u =>
      refine .cmd _ _ _ (fun ps _ => ?_)
      exact listInfos_fromFinds ps [] _ (fun p hp => Or.inr hp) (by intro i hi; cases hi)
  | register u p salt => exact noInfo _ (fun r h => h.1)
  | login u p => exact noInfo _ (fun r h => h.1)
  | logout => exact noInfo _ (fun r h => h.1)
  | info => exact noInfo _ (fun r h => h.1)
  | update u p salt => exact noInfo _ (fun r h => h.1)
  | deleteAccount => exact noInfo _ (fun r h => h.1)
  | add name code file parsing fu fp => exact noInfo _ (fun r h => h.1)
  | solve name s => exact noInfo _ (fun r h => h.1)
  | delete name => exact noInfo _ (fun r h => h.1)
  | malformed => exact noInfo _ (fun r h => h.1)

/-- the documents returned (according to the log) to commands of the source `src` -/
def knownIn (log : List (Entry T H A R)) (src : Src T) (p : Problem T A R) : Prop :=
  ∃ e ∈ log, e.src = src ∧ p ∈ e.returned

omit [DecidableEq T] in
theorem knownIn_append {log more : List (Entry T H A R)} {src : Src T} {p : Problem T A R}
    (h : knownIn log src p) : knownIn (log ++ more) src p := by
  obtain ⟨e, he, h1, h2⟩ := h
  exact ⟨e, List.mem_append_left _ he, h1, h2⟩

/-- a find returns only documents carrying the user name of its filter -/
theorem foundBy_user (db : Db T H A R) (c : Cmd T H A R) :
    ∀ p ∈ foundBy c (exec db c).2, probUser c = some p.username := by
  intro p hp
  have hr := exec_rok db c
  cases c with
  | pFindOne u n =>
    simp only [foundBy, Option.mem_toList] at hp
    simp only [probUser, (hr p hp).1]
  | pFindAll u =>
    simp only [foundBy] at hp
    simp only [probUser, hr p hp]
  | _ => cases hp

/-- the second invariant of all schedules: responses are built from the request's own finds -/
structure RInv (s : CState T H A R) : Prop where
  pool : ∀ f ∈ s.pool, FromFinds (knownIn s.log (.request f.jar f.id f.req)) f.prog
  ret : ∀ e ∈ s.log, ∀ p ∈ e.returned, probUser e.cmd = some p.username
  out : ∀ x ∈ s.out, ∀ i ∈ infos x.2.body, ∃ e ∈ s.log, ∃ id rq p ts,
    e.src = .request x.1 id rq ∧ p ∈ e.returned ∧ i = infoOf p ts

omit [DecidableEq T] in
theorem RInv.init : RInv ({} : CState T H A R) :=
  ⟨(by intro f hf; cases hf), (by intro e he; cases he), (by intro x hx; cases hx)⟩

omit [DecidableEq T] in
theorem taskEntries_returned (E : Env T H A R) (db : Db T H A R) (e : Event T) :
    ∀ x ∈ taskEntries E db e, x.returned = [] := by
  intro x hx
  cases e with
  | req rq => cases hx
  | finish j n => cases hx
  | write j n =>
    simp only [taskEntries] at hx
    cases ht : nthOf j n db.tasks with
    | none => rw [ht] at hx; cases hx
    | some t =>
      rw [ht] at hx
      simp only at hx
      split at hx
      · simp only [List.mem_singleton] at hx; subst hx; rfl
      · cases hx
  | timeout j n =>
    simp only [taskEntries] at hx
    cases ht : nthOf j n db.tasks with
    | none => rw [ht] at hx; cases hx
    | some t =>
      rw [ht] at hx
      simp only at hx
      split at hx
      · simp only [List.mem_singleton] at hx; subst hx; rfl
      · cases hx

omit [DecidableEq T] in
/-- the log only grows; pool and `out` unchanged -/
theorem RInv.grow {s : CState T H A R} (inv : RInv s) (db : Db T H A R) (more : List (Entry T H A R))
    (hm : ∀ x ∈ more, x.returned = []) : RInv { s with db := db, log := s.log ++ more } := by
  refine ⟨?_, ?_, ?_⟩
  · intro f hf
    exact (inv.pool f hf).mono (fun x hx => knownIn_append hx)
  · intro e he p hp
    rcases List.mem_append.mp he with he | he
    · exact inv.ret e he p hp
    · rw [hm e he] at hp; cases hp
  · intro x hx i hi
    obtain ⟨e, he, rest⟩ := inv.out x hx i hi
    exact ⟨e, List.mem_append_left _ he, rest⟩

theorem RInv.step (E : Env T H A R) (s : CState T H A R) (a : Act T) (inv : RInv s) : RInv (stepC E s a) := by
  cases a with
  | arrive rq =>
    refine ⟨?_, inv.ret, inv.out⟩
    intro f hf
    simp only [stepC] at hf
    rcases List.mem_append.mp hf with hf | hf
    · exact inv.pool f hf
    · simp only [List.mem_singleton] at hf; subst hf
      exact (handler_fromFinds E _ _ _).mono (fun _ h => h.elim)
  | cmd i =>
    simp only [stepC]
    cases hi : s.pool[i]? with
    | none => exact inv
    | some f =>
      simp only
      have hf := inv.pool f (List.mem_of_getElem? hi)
      cases hp : f.prog with
      | ret r => exact inv
      | cmd c k =>
        simp only
        rw [hp] at hf
        cases hf with
        | cmd _ _ _ hk =>
          refine ⟨?_, ?_, ?_⟩
          · intro g hg
            rcases List.mem_or_eq_of_mem_set hg with h | h
            · exact (inv.pool g h).mono (fun x hx => knownIn_append hx)
            · subst h
              refine (hk _ (exec_rok s.db c)).mono ?_
              intro x hx
              rcases hx with hx | hx
              · exact knownIn_append hx
              · exact ⟨_, List.mem_append_right _ (List.mem_singleton.mpr rfl), rfl, hx⟩
          · intro e he p hp'
            rcases List.mem_append.mp he with he | he
            · exact inv.ret e he p hp'
            · simp only [List.mem_singleton] at he; subst he
              exact foundBy_user s.db c p hp'
          · intro x hx i hi'
            obtain ⟨e, he, rest⟩ := inv.out x hx i hi'
            exact ⟨e, List.mem_append_left _ he, rest⟩
  | deliver i =>
    simp only [stepC]
    cases hi : s.pool[i]? with
    | none => exact inv
    | some f =>
      simp only
      have hf := inv.pool f (List.mem_of_getElem? hi)
      cases hp : f.prog with
      | cmd c k => exact inv
      | ret r =>
        simp only
        rw [hp] at hf
        cases hf with
        | ret _ _ hr =>
          refine ⟨fun g hg => inv.pool g (List.mem_of_mem_eraseIdx hg), inv.ret, ?_⟩
          intro x hx i hi'
          rcases List.mem_append.mp hx with hx | hx
          · exact inv.out x hx i hi'
          · simp only [List.mem_singleton] at hx; subst hx
            obtain ⟨p, ts, ⟨e, he, h1, h2⟩, h3⟩ := hr i hi'
            exact ⟨e, he, f.id, f.req, p, ts, h1, h2, h3⟩
  | finish j n =>
    have := inv.grow (dbEv E s.db (.finish j n)) [] (by intro x hx; cases hx)
    simpa [stepC] using this
  | write j n => exact inv.grow _ _ (taskEntries_returned E _ _)
  | timeout j n => exact inv.grow _ _ (taskEntries_returned E _ _)

theorem RInv.run (E : Env T H A R) : ∀ (as : List (Act T)) (s : CState T H A R), RInv s → RInv (runC E s as) := by
  intro as
  induction as with
  | nil => intro s h; exact h
  | cons a as ih => intro s h; exact ih _ (RInv.step E s a h)

end
end ServerCmd
