import AdfObdd.SearchLock
import AdfObdd.Persist
/-! # Call histories: answers (with their ORDER) and node tables do not depend on memo contents —
every call kind

`CallH.memo_independent_partial` (CallHistoryMemo.lean) covers grounded / complete / stable /
stable_with_prefilter / queries / extra formulas; `CallH.countAll_lock` and `CallH.ngSearch_lock`
(SearchLock.lean) add the two searches. Here: the full statement `memo_independent_statement`, its
lift to histories, and the consequences for memo-dropped and exported / re-imported copies. -/
namespace CallH

/-- **every call kind**: the answer — vectors, their ORDER, handle numbers, for the nogood search
also the interpretations shown to the heuristic and whether the bound was hit — and the node table
afterwards do not depend on what the memo tables of the incoming store hold -/
theorem memo_independent : memo_independent_statement := by
  intro st st' c hi h
  cases c with
  | count useA =>
    obtain ⟨s, n, ac, iss⟩ := st
    obtain ⟨s', n', ac', iss'⟩ := st'
    obtain ⟨lk, hn, hac, his⟩ := h
    simp only at lk hn hac his
    subst hn hac his
    have ⟨a, d⟩ := countAll_lock s s' n' ac' useA lk hi.len hi.ac
    simp only [runCall]
    exact ⟨by rw [d], memoEq_store _ _ _ a⟩
  | ng heu fuel stable =>
    obtain ⟨s, n, ac, iss⟩ := st
    obtain ⟨s', n', ac', iss'⟩ := st'
    obtain ⟨lk, hn, hac, his⟩ := h
    simp only at lk hn hac his
    subst hn hac his
    have ⟨a, d⟩ := ngSearch_lock heu fuel s s' n' ac' stable lk hi.ac
    simp only [runCall]
    exact ⟨by rw [d], memoEq_store _ _ _ a⟩
  | grounded => exact memo_independent_partial st st' _ hi h (fun x => x)
  | complete => exact memo_independent_partial st st' _ hi h (fun x => x)
  | stable => exact memo_independent_partial st st' _ hi h (fun x => x)
  | stablePre => exact memo_independent_partial st st' _ hi h (fun x => x)
  | query i q => exact memo_independent_partial st st' _ hi h (fun x => x)
  | ops l => exact memo_independent_partial st st' _ hi h (fun x => x)

/-- **any history**: same answers in the same order, same node table, same issued handles, whatever
the memo tables of the start store hold -/
theorem runCalls_memo_independent : ∀ (h : List Call) (st st' : AdfState), Inv st → MemoEq st st' →
    (runCalls st' h).2 = (runCalls st h).2 ∧ MemoEq (runCalls st h).1 (runCalls st' h).1 := by
  intro h
  induction h with
  | nil => intro st st' _ hm; exact ⟨rfl, hm⟩
  | cons c cs ih =>
    intro st st' hi hm
    have ⟨a1, m1⟩ := memo_independent st st' c hi hm
    have ⟨a2, m2⟩ := ih _ _ (runCall_step st c hi).1 m1
    simp only [runCalls]
    exact ⟨by rw [a1, a2], m2⟩

/-- the answers are a function of the node table, `n`, `ac` and the issued handles: two objects
satisfying the invariant that agree on these answer every history identically -/
theorem answers_depend_on_node_table (h : List Call) (st st' : AdfState) (hi : Inv st) (hi' : Inv st')
    (hnodes : st'.s.nodes = st.s.nodes) (hn : st'.n = st.n) (hac : st'.ac = st.ac) (his : st'.issued = st.issued) :
    (runCalls st' h).2 = (runCalls st h).2 ∧ (runCalls st' h).1.s.nodes = (runCalls st h).1.s.nodes ∧
    (runCalls st' h).1.issued = (runCalls st h).1.issued := by
  have ⟨a, m⟩ := runCalls_memo_independent h st st' hi ⟨⟨hi.wf, hi'.wf, hnodes⟩, hn, hac, his⟩
  exact ⟨a, m.lk.nodes, m.issued⟩

/-- dropping the memo tables at ANY point of a history changes no later answer (nor its order) -/
theorem memo_dropped_midway (st : AdfState) (hi : Inv st) (h1 h2 : List Call) :
    (runCalls (dropMemo (runCalls st h1).1) h2).2 = (runCalls (runCalls st h1).1 h2).2 ∧
    (runCalls (dropMemo (runCalls st h1).1) h2).1.s.nodes = (runCalls (runCalls st h1).1 h2).1.s.nodes := by
  have hi1 := (runCalls_inv h1 st hi).1
  have ⟨a, m⟩ := runCalls_memo_independent h2 _ _ hi1 (memoEq_drop _ hi1)
  exact ⟨a, m.lk.nodes⟩

/-- the object after `serde` export and import of its `Bdd` (`Persist.exportB` / `importB`: node
table and unique table survive, the memo tables are `#[serde(skip)]`) -/
def reimport (st : AdfState) : AdfState :=
  { st with s := (Persist.importB (Persist.exportB ⟨st.s, #[], {}⟩)).st }

theorem memoEq_reimport (st : AdfState) (hi : Inv st) : MemoEq st (reimport st) := by
  have hs := Persist.import_skipped ⟨st.s, #[], {}⟩
  exact ⟨⟨hi.wf, Persist.WF_of_same st.s _ hi.wf rfl (Persist.import_uniq ⟨st.s, #[], {}⟩) hs.2.2.1 hs.2.2.2, rfl⟩,
    rfl, rfl, rfl⟩

/-- exporting and re-importing at ANY point of a history changes no later answer (nor its order) -/
theorem reimport_midway (st : AdfState) (hi : Inv st) (h1 h2 : List Call) :
    (runCalls (reimport (runCalls st h1).1) h2).2 = (runCalls (runCalls st h1).1 h2).2 ∧
    (runCalls (reimport (runCalls st h1).1) h2).1.s.nodes = (runCalls (runCalls st h1).1 h2).1.s.nodes := by
  have hi1 := (runCalls_inv h1 st hi).1
  have ⟨a, m⟩ := runCalls_memo_independent h2 _ _ hi1 (memoEq_reimport _ hi1)
  exact ⟨a, m.lk.nodes⟩

end CallH
