import AdfObdd.FromParser
/-! `AdfParser::varsort_lexi` / `AdfParser::varsort_alphanum` (`lib/src/parser.rs`) on the parser object.

    Both functions do two things:
    1. sort `namelist` in place — `sort_unstable()` (the `Ord` of `String`: byte-wise lexicographic
       comparison of the UTF-8 encodings) resp. `string_sort_unstable(natural_lexical_cmp)` (crate
       `lexical-sort`),
    2. `regenerate_indizes()`: for every `(i, elem)` of the new `namelist`, `dict.insert(elem, i)`.
       The dictionary is NOT cleared: entries are overwritten. Since every key of `dict` is a member
       of `namelist` (parser invariant `DictOK`), afterwards the dictionary is exactly the position
       map of the new name list (`SortProofs.dictGet_resort`).
    `formulae` / `formulaname` are not touched. Definitions only. -/
namespace SortModel
open ParserM FromParser

/-- `regenerate_indizes`: `namelist.iter().enumerate().for_each(|(i, elem)| dict.insert(elem, i))`
(on the association list the most recent entry wins, so `insert` is `cons`) -/
def regenFrom : Nat → List Label → List (Label × Nat) → List (Label × Nat)
  | _, [], d => d
  | k, l :: ls, d => regenFrom (k + 1) ls ((l, k) :: d)

/-- the parser object after `namelist` has been replaced by `ns'` (in the two sorting functions: a
sorted permutation of itself) and the indices have been regenerated -/
def _root_.ParserM.PState.resort (st : PState) (ns' : List Label) : PState :=
  { st with namelist := ns', dict := regenFrom 0 ns' st.dict }

/-! ### sorting with a comparison function (insertion sort — the result of a sort is determined by
    the comparison function only up to the order of equivalent elements; labels in `namelist` are
    pairwise different, and for an antisymmetric order the sorted permutation is unique) -/

def insertBy (le : Label → Label → Bool) (x : Label) : List Label → List Label
  | [] => [x]
  | y :: ys => if le x y then x :: y :: ys else y :: insertBy le x ys

def isort (le : Label → Label → Bool) : List Label → List Label
  | [] => []
  | x :: xs => insertBy le x (isort le xs)

/-- sort the name list with `le`, regenerate the indices -/
def _root_.ParserM.PState.sortBy (le : Label → Label → Bool) (st : PState) : PState :=
  st.resort (isort le st.namelist)

/-! ### the byte-wise order of `String` -/

/-- the UTF-8 encoding of a code point, on naturals (same case split as `String.utf8EncodeChar`;
`SortProofs.utf8Nat_eq_core`: it IS Lean's encoder) -/
def utf8Nat (v : Nat) : List Nat :=
  if v ≤ 0x7f then [v]
  else if v ≤ 0x7ff then [v / 64 % 0x20 + 0xc0, v % 0x40 + 0x80]
  else if v ≤ 0xffff then [v / 4096 % 0x10 + 0xe0, v / 64 % 0x40 + 0x80, v % 0x40 + 0x80]
  else [v / 262144 % 0x08 + 0xf0, v / 4096 % 0x40 + 0x80, v / 64 % 0x40 + 0x80, v % 0x40 + 0x80]

/-- the bytes of a label as a Rust `String` holds them -/
def bytes (l : Label) : List Nat := l.flatMap fun c => utf8Nat c.toNat

/-- lexicographic `<` on sequences (`Ord for [u8]`: first differing element decides, a proper prefix
is smaller) -/
def lexLt : List Nat → List Nat → Bool
  | _, [] => false
  | [], _ :: _ => true
  | a :: as, b :: bs => decide (a < b) || (decide (a = b) && lexLt as bs)

/-- `a < b` for `String`s: byte-wise -/
def byteLt (a b : Label) : Bool := lexLt (bytes a) (bytes b)
/-- `a <= b` for `String`s -/
def byteLe (a b : Label) : Bool := !byteLt b a

/-- the same comparison on code points (`SortProofs.byteLt_eq_cpLt`: UTF-8 is order preserving, so the
byte-wise order of `String` is the lexicographic order of the sequences of code points) -/
def cpLt (a b : Label) : Bool := lexLt (a.map Char.toNat) (b.map Char.toNat)

/-- `varsort_lexi` -/
def varsortLexi (st : PState) : PState := st.sortBy byteLe

/-- `varsort_alphanum`, as far as it is modelled. TRUST ASSUMPTION: `natural_lexical_cmp` of the crate
`lexical-sort` is not modelled; all that is used is that `string_sort_unstable` leaves in `namelist`
a permutation of its former content (true of `sort_unstable_by` for every comparison function that
does not panic), sorted with respect to whatever `le` the crate implements. -/
structure IsVarsortAlphanum (le : Label → Label → Bool) (st st' : PState) : Prop where
  perm : st'.namelist.Perm st.namelist
  sorted : st'.namelist.Pairwise (fun a b => le a b = true)
  state : st' = st.resort st'.namelist

/-! ### reading a vector of truth values as a map from labels -/

/-- the interpretation `v` (one entry per variable index) read with the name list `names`, as a map
from label to truth value: `none` = not a statement, `some none` = undecided, `some (some b)` = `b`
(`print_interpretation` prints entry `k` with the name `namelist[k]`) -/
def labelled (names : List Label) (v : List (Option Bool)) : Label → Option (Option Bool) :=
  fun l => (indexOf names l).bind fun i => v[i]?

/-- the renumbering between two name lists: the index in `ys` of the label at index `i` of `xs`
(the identity outside `xs`) -/
def reindex (xs ys : List Label) (i : Nat) : Nat :=
  match xs[i]? with
  | some l => (indexOf ys l).getD i
  | none => i

/-! ### consistent renaming of the statements -/

def _root_.ParserM.Fml.rename (ρ : Label → Label) : Fml → Fml
  | .top => .top
  | .bot => .bot
  | .atom l => .atom (ρ l)
  | .not f => .not (f.rename ρ)
  | .and a b => .and (a.rename ρ) (b.rename ρ)
  | .or a b => .or (a.rename ρ) (b.rename ρ)
  | .imp a b => .imp (a.rename ρ) (b.rename ρ)
  | .xor a b => .xor (a.rename ρ) (b.rename ρ)
  | .iff a b => .iff (a.rename ρ) (b.rename ρ)

def _root_.ParserM.Fact.rename (ρ : Label → Label) : Fact → Fact
  | .stmt l => .stmt (ρ l)
  | .ac l f => .ac (ρ l) (f.rename ρ)

end SortModel
