import AdfObdd.Deps
/-! Memoised evaluation of the pure diagram measures (`countF`, `pathsF`, dependency sets).

The measures of the model are pure fuel-recursive functions of the node table; they recompute shared
sub-diagrams (exponential on a parity diagram). The code keeps one cache entry per node
(`count_cache`, `var_deps`). Here: a generic measure `Meas.F` (the common shape of the pure
definitions), a top-down evaluation `Meas.go` that threads a `Std.HashMap Nat α` keyed by the node,
and the proof that it returns EXACTLY the pure value on EVERY table, well formed or not:

* an entry is written for node `t` only if `t` is *good*: the value of `t` does not depend on the fuel
  (`Good`); that is established on the way (children with smaller indices, children good),
* anywhere else the recursion falls back to the pure definition with the same fuel.

No Mathlib; the driver imports this module. -/

namespace Memo

structure Meas (α : Type) where
  /-- out of fuel -/
  z : α
  l0 : α
  l1 : α
  /-- index outside the table -/
  nn : α
  node : Node → α → α → α

variable {α : Type}

/-- the pure measure (shape shared by `countF`, `pathsF`, the dependency sets) -/
def Meas.F (G : Meas α) (s : Store) : Nat → Nat → α
  | 0, _ => G.z
  | fuel+1, t =>
    if t = 1 then G.l1 else if t = 0 then G.l0 else
    match s.nodes[t]? with
    | none => G.nn
    | some n => G.node n (G.F s fuel n.lo) (G.F s fuel n.hi)

/-- memoised evaluation: value, "the value of this node is independent of the fuel", memo -/
def Meas.go (G : Meas α) (s : Store) : Nat → Nat → Std.HashMap Nat α → (α × Bool) × Std.HashMap Nat α
  | 0, _, m => ((G.z, false), m)
  | fuel+1, t, m =>
    if t = 1 then ((G.l1, true), m) else if t = 0 then ((G.l0, true), m) else
    match m[t]? with
    | some v => ((v, true), m)
    | none =>
      match s.nodes[t]? with
      | none => ((G.nn, false), m)
      | some n =>
        if n.lo < t ∧ n.hi < t then
          let l := G.go s fuel n.lo m
          let h := G.go s fuel n.hi l.2
          let v := G.node n l.1.1 h.1.1
          if l.1.2 && h.1.2 then ((v, true), h.2.insert t v) else ((v, false), h.2)
        else ((G.node n (G.F s fuel n.lo) (G.F s fuel n.hi), false), m)

/-- the value of node `t` does not depend on the fuel, once there is enough of it -/
def Good (G : Meas α) (s : Store) (t : Nat) : Prop := ∀ fuel, t < fuel → G.F s fuel t = G.F s (t+1) t

/-- every memo entry is the pure value of a good node -/
def Inv (G : Meas α) (s : Store) (m : Std.HashMap Nat α) : Prop :=
  ∀ j v, m[j]? = some v → v = G.F s (j+1) j ∧ Good G s j

theorem inv_empty (G : Meas α) (s : Store) : Inv G s ∅ := by
  intro j v h; simp at h

theorem good_one (G : Meas α) (s : Store) : Good G s 1 := by
  intro fuel h
  cases fuel with
  | zero => omega
  | succ f => simp [Meas.F]

theorem good_zero (G : Meas α) (s : Store) : Good G s 0 := by
  intro fuel h
  cases fuel with
  | zero => omega
  | succ f => simp [Meas.F]

theorem F_node (G : Meas α) (s : Store) (f t : Nat) (n : Node) (h1 : t ≠ 1) (h0 : t ≠ 0)
    (hn : s.nodes[t]? = some n) : G.F s (f+1) t = G.node n (G.F s f n.lo) (G.F s f n.hi) := by
  rw [Meas.F, if_neg h1, if_neg h0, hn]

theorem good_node (G : Meas α) (s : Store) (t : Nat) (n : Node) (h1 : t ≠ 1) (h0 : t ≠ 0)
    (hn : s.nodes[t]? = some n) (hlo : n.lo < t) (hhi : n.hi < t)
    (gl : Good G s n.lo) (gh : Good G s n.hi) : Good G s t := by
  intro fuel h
  cases fuel with
  | zero => omega
  | succ f =>
    rw [F_node G s f t n h1 h0 hn, F_node G s t t n h1 h0 hn,
      gl f (by omega), gh f (by omega), gl t hlo, gh t hhi]

theorem go_spec (G : Meas α) (s : Store) : ∀ (fuel t : Nat) (m : Std.HashMap Nat α), Inv G s m → t < fuel →
    (G.go s fuel t m).1.1 = G.F s fuel t ∧ Inv G s (G.go s fuel t m).2 ∧
      ((G.go s fuel t m).1.2 = true → Good G s t) := by
  intro fuel
  induction fuel with
  | zero => intro t m _ h; omega
  | succ f ih =>
    intro t m hm ht
    unfold Meas.go
    by_cases h1 : t = 1
    · subst h1; simp only [if_true]
      exact ⟨by simp [Meas.F], hm, fun _ => good_one G s⟩
    rw [if_neg h1]
    by_cases h0 : t = 0
    · subst h0; simp only [if_true]
      exact ⟨by simp [Meas.F], hm, fun _ => good_zero G s⟩
    rw [if_neg h0]
    cases hmt : m[t]? with
    | some v =>
      simp only
      obtain ⟨hv, hg⟩ := hm t v hmt
      exact ⟨by rw [hv, hg (f+1) ht], hm, fun _ => hg⟩
    | none =>
      simp only
      cases hn : s.nodes[t]? with
      | none =>
        simp only
        exact ⟨by rw [Meas.F, if_neg h1, if_neg h0, hn], hm, fun h => by cases h⟩
      | some n =>
        simp only
        by_cases hc : n.lo < t ∧ n.hi < t
        · rw [if_pos hc]
          obtain ⟨hlo, hhi⟩ := hc
          obtain ⟨vl, il, gl⟩ := ih n.lo m hm (by omega)
          obtain ⟨vh, ih2, gh⟩ := ih n.hi (G.go s f n.lo m).2 il (by omega)
          have hv : G.node n (G.go s f n.lo m).1.1 (G.go s f n.hi (G.go s f n.lo m).2).1.1 = G.F s (f+1) t := by
            rw [F_node G s f t n h1 h0 hn, vl, vh]
          by_cases hb : ((G.go s f n.lo m).1.2 && (G.go s f n.hi (G.go s f n.lo m).2).1.2) = true
          · rw [if_pos hb]
            simp only [Bool.and_eq_true] at hb
            have hgood : Good G s t := good_node G s t n h1 h0 hn hlo hhi (gl hb.1) (gh hb.2)
            refine ⟨hv, ?_, fun _ => hgood⟩
            intro j v hj
            rw [Std.HashMap.getElem?_insert] at hj
            by_cases hjt : (t == j) = true
            · rw [if_pos hjt] at hj
              have : t = j := by simpa using hjt
              subst this
              cases hj
              exact ⟨by rw [hv, hgood (f+1) ht], hgood⟩
            · rw [if_neg hjt] at hj
              exact ih2 j v hj
          · rw [if_neg hb]
            exact ⟨hv, ih2, fun h => by cases h⟩
        · rw [if_neg hc]
          exact ⟨by rw [F_node G s f t n h1 h0 hn], hm, fun h => by cases h⟩

/-- one query with a memo of its own -/
def Meas.FM (G : Meas α) (s : Store) (fuel t : Nat) : α :=
  if t < fuel then (G.go s fuel t ∅).1.1 else G.F s fuel t

theorem FM_eq (G : Meas α) (s : Store) (fuel t : Nat) : G.FM s fuel t = G.F s fuel t := by
  unfold Meas.FM
  split
  · next h => exact (go_spec G s fuel t ∅ (inv_empty G s) h).1
  · rfl

/-- the measure of every handle of a list -/
def Meas.mapL (G : Meas α) (s : Store) (ts : List Nat) : List α := ts.map (fun t => G.F s (t+1) t)

def Meas.mapGo (G : Meas α) (s : Store) : List Nat → Std.HashMap Nat α → List α
  | [], _ => []
  | t :: ts, m => let r := G.go s (t+1) t m; r.1.1 :: Meas.mapGo G s ts r.2

/-- … with ONE memo shared by all handles -/
def Meas.mapLM (G : Meas α) (s : Store) (ts : List Nat) : List α := G.mapGo s ts ∅

theorem mapGo_eq (G : Meas α) (s : Store) : ∀ (ts : List Nat) (m : Std.HashMap Nat α), Inv G s m →
    G.mapGo s ts m = G.mapL s ts := by
  intro ts
  induction ts with
  | nil => intros; rfl
  | cons t ts ih =>
    intro m hm
    obtain ⟨hv, hi, _⟩ := go_spec G s (t+1) t m hm (by omega)
    simp only [Meas.mapGo, Meas.mapL, List.map_cons, hv]
    rw [ih _ hi]; rfl

@[csimp] theorem mapL_eq_mapLM : @Meas.mapL = @Meas.mapLM := by
  funext α G s ts
  exact (mapGo_eq G s ts ∅ (inv_empty G s)).symm

end Memo

/-! ### finite sets of naturals as strictly increasing lists

(the dependency sets: the cost of a union depends on the NUMBER of members, not on their magnitude —
variable indices may be as large as 2^32) -/
namespace Memo

/-- union of two increasing lists (merge, equal heads emitted once) -/
def umerge : List Nat → List Nat → List Nat
  | [], b => b
  | x :: a, [] => x :: a
  | x :: a, y :: b =>
    if x < y then x :: umerge a (y :: b)
    else if y < x then y :: umerge (x :: a) b
    else x :: umerge a b
termination_by a b => a.length + b.length

theorem mem_umerge (a b : List Nat) (v : Nat) : v ∈ umerge a b ↔ v ∈ a ∨ v ∈ b := by
  fun_induction umerge a b with
  | case1 b => simp
  | case2 x a => simp
  | case3 x a y b h ih => simp only [List.mem_cons, ih]; grind
  | case4 x a y b h1 h2 ih => simp only [List.mem_cons, ih]; grind
  | case5 x a y b h1 h2 ih =>
    have : x = y := by omega
    subst this
    simp only [List.mem_cons, ih]; grind

theorem umerge_sorted (a b : List Nat) (ha : a.Pairwise (· < ·)) (hb : b.Pairwise (· < ·)) :
    (umerge a b).Pairwise (· < ·) := by
  fun_induction umerge a b with
  | case1 b => exact hb
  | case2 x a => exact ha
  | case3 x a y b h ih =>
    rw [List.pairwise_cons] at ha
    have hb' := List.pairwise_cons.mp hb
    rw [List.pairwise_cons]
    refine ⟨?_, ih ha.2 hb⟩
    intro z hz
    rcases (mem_umerge _ _ z).mp hz with hz | hz
    · exact ha.1 z hz
    · rcases List.mem_cons.mp hz with e | hz
      · omega
      · have := hb'.1 z hz; omega
  | case4 x a y b h1 h2 ih =>
    have ha' := List.pairwise_cons.mp ha
    rw [List.pairwise_cons] at hb
    rw [List.pairwise_cons]
    refine ⟨?_, ih ha hb.2⟩
    intro z hz
    rcases (mem_umerge _ _ z).mp hz with hz | hz
    · rcases List.mem_cons.mp hz with e | hz
      · omega
      · have := ha'.1 z hz; omega
    · exact hb.1 z hz
  | case5 x a y b h1 h2 ih =>
    have : x = y := by omega
    subst this
    rw [List.pairwise_cons] at ha hb
    rw [List.pairwise_cons]
    refine ⟨?_, ih ha.2 hb.2⟩
    intro z hz
    rcases (mem_umerge _ _ z).mp hz with hz | hz
    · exact ha.1 z hz
    · exact hb.1 z hz

end Memo
