import AdfObdd.StoreIte
/-! prototype 25: native compilation of a formula to a diagram preserves its Boolean function
    (C09, native pipeline; any formula size) -/

inductive Fm where
  | top | bot
  | atom (v : Nat)
  | not (f : Fm)
  | and (a b : Fm) | or (a b : Fm) | imp (a b : Fm) | xor (a b : Fm) | iff (a b : Fm)

def Fm.sem : Fm → Asg → Bool
  | .top, _ => true
  | .bot, _ => false
  | .atom v, σ => σ v
  | .not f, σ => !f.sem σ
  | .and a b, σ => a.sem σ && b.sem σ
  | .or a b, σ => a.sem σ || b.sem σ
  | .imp a b, σ => !a.sem σ || b.sem σ
  | .xor a b, σ => a.sem σ != b.sem σ
  | .iff a b, σ => a.sem σ == b.sem σ

def Fm.atomsOK : Fm → Prop
  | .top => True | .bot => True
  | .atom v => v < VBOT
  | .not f => f.atomsOK
  | .and a b => a.atomsOK ∧ b.atomsOK | .or a b => a.atomsOK ∧ b.atomsOK
  | .imp a b => a.atomsOK ∧ b.atomsOK | .xor a b => a.atomsOK ∧ b.atomsOK | .iff a b => a.atomsOK ∧ b.atomsOK

def opIte (s : Store) (i t e : Nat) : Store × Nat := iteF (i + t + e + 1) s i t e
def opNot (s : Store) (t : Nat) : Store × Nat := opIte s t 0 1

/-- `Adf::term` -/
def compile (s : Store) : Fm → Store × Nat
  | .top => (s, 1)
  | .bot => (s, 0)
  | .atom v => mkNode s v 0 1
  | .not f => let r := compile s f; opNot r.1 r.2
  | .and a b => let ra := compile s a; let rb := compile ra.1 b; opIte rb.1 ra.2 rb.2 0
  | .or a b => let ra := compile s a; let rb := compile ra.1 b; opIte rb.1 ra.2 1 rb.2
  | .imp a b => let ra := compile s a; let rb := compile ra.1 b; opIte rb.1 ra.2 rb.2 1
  | .iff a b => let ra := compile s a; let rb := compile ra.1 b
                let nb := opNot rb.1 rb.2; opIte nb.1 ra.2 rb.2 nb.2
  | .xor a b => let ra := compile s a; let rb := compile ra.1 b
                let nb := opNot rb.1 rb.2; opIte nb.1 ra.2 nb.2 rb.2

structure Good (s s' : Store) (r : Nat) (f : Asg → Bool) : Prop where
  wf : WF s'
  ext : Ext s s'
  lt : r < s'.nodes.size
  ev : ∀ σ, eval s' r σ = f σ

theorem opIte_good (s : Store) (w : WF s) (i t e : Nat) (hi : i < s.nodes.size) (ht : t < s.nodes.size)
    (he : e < s.nodes.size) :
    Good s (opIte s i t e).1 (opIte s i t e).2 (fun σ => if eval s i σ then eval s t σ else eval s e σ) := by
  have ⟨a, b, c, _, d⟩ := iteF_spec (i + t + e + 1) s i t e w hi ht he (by omega)
  exact ⟨a, b, c, d⟩

theorem zero_lt (s : Store) (w : WF s) : 0 < s.nodes.size := by have := w.len; omega
theorem one_lt (s : Store) (w : WF s) : 1 < s.nodes.size := by have := w.len; omega

theorem opNot_good (s : Store) (w : WF s) (t : Nat) (ht : t < s.nodes.size) :
    Good s (opNot s t).1 (opNot s t).2 (fun σ => !eval s t σ) := by
  have g := opIte_good s w t 0 1 ht (zero_lt s w) (one_lt s w)
  refine ⟨g.wf, g.ext, g.lt, ?_⟩
  intro σ; rw [show (opNot s t) = opIte s t 0 1 from rfl, g.ev σ, eval_zero, eval_one]
  cases eval s t σ <;> rfl

/-- binary connectives: compile both sides, keep the first handle alive, combine -/
theorem bin_good (s : Store) (a b : Fm) (w : WF s)
    (ga : Good s (compile s a).1 (compile s a).2 a.sem)
    (gb : Good (compile s a).1 (compile (compile s a).1 b).1 (compile (compile s a).1 b).2 b.sem) :
    let ra := compile s a; let rb := compile ra.1 b
    WF rb.1 ∧ Ext s rb.1 ∧ ra.2 < rb.1.nodes.size ∧ rb.2 < rb.1.nodes.size ∧
    (∀ σ, eval rb.1 ra.2 σ = a.sem σ) ∧ (∀ σ, eval rb.1 rb.2 σ = b.sem σ) := by
  intro ra rb
  exact ⟨gb.wf, ga.ext.trans gb.ext, Nat.lt_of_lt_of_le ga.lt gb.ext.1, gb.lt,
    fun σ => by rw [eval_ext ga.wf gb.ext _ σ ga.lt]; exact ga.ev σ, gb.ev⟩

theorem compile_correct : ∀ (φ : Fm) (s : Store), WF s → φ.atomsOK →
    Good s (compile s φ).1 (compile s φ).2 φ.sem := by
  intro φ
  induction φ with
  | top => intro s w _; exact ⟨w, Ext.refl _, one_lt s w, fun σ => eval_one s σ⟩
  | bot => intro s w _; exact ⟨w, Ext.refl _, zero_lt s w, fun σ => eval_zero s σ⟩
  | atom v =>
    intro s w hv
    have h0 : topVar s 0 = VBOT := by simp [topVar, w.bot]
    have h1 : topVar s 1 = VTOP := by simp [topVar, w.top]
    have hbt : VBOT < VTOP := by simp [VBOT, VTOP]
    have hv' : v < VBOT := hv
    have ⟨a, b, c, _, d⟩ := mkNode_spec s w v 0 1 (zero_lt s w) (one_lt s w) hv' (by omega) (by omega)
    refine ⟨a, b, c, ?_⟩
    intro σ; rw [show compile s (Fm.atom v) = mkNode s v 0 1 from rfl, d σ, eval_zero, eval_one]
    simp only [Fm.sem]; cases σ v <;> rfl
  | not f ih =>
    intro s w hok
    have g := ih s w hok
    have gn := opNot_good _ g.wf _ g.lt
    refine ⟨gn.wf, g.ext.trans gn.ext, gn.lt, ?_⟩
    intro σ
    rw [show compile s (Fm.not f) = opNot (compile s f).1 (compile s f).2 from rfl, gn.ev σ, g.ev σ]; rfl
  | and a b iha ihb =>
    intro s w hok
    have ga := iha s w hok.1
    have gb := ihb _ ga.wf hok.2
    have ⟨w2, e2, la, lb, ea, eb⟩ := bin_good s a b w ga gb
    have g := opIte_good _ w2 _ _ 0 la lb (zero_lt _ w2)
    refine ⟨g.wf, e2.trans g.ext, g.lt, ?_⟩
    intro σ
    rw [show compile s (Fm.and a b) = opIte (compile (compile s a).1 b).1 (compile s a).2 (compile (compile s a).1 b).2 0 from rfl,
        g.ev σ, ea σ, eb σ, eval_zero]
    simp only [Fm.sem]; cases a.sem σ <;> cases b.sem σ <;> rfl
  | or a b iha ihb =>
    intro s w hok
    have ga := iha s w hok.1
    have gb := ihb _ ga.wf hok.2
    have ⟨w2, e2, la, lb, ea, eb⟩ := bin_good s a b w ga gb
    have g := opIte_good _ w2 _ 1 _ la (one_lt _ w2) lb
    refine ⟨g.wf, e2.trans g.ext, g.lt, ?_⟩
    intro σ
    rw [show compile s (Fm.or a b) = opIte (compile (compile s a).1 b).1 (compile s a).2 1 (compile (compile s a).1 b).2 from rfl,
        g.ev σ, ea σ, eb σ, eval_one]
    simp only [Fm.sem]; cases a.sem σ <;> cases b.sem σ <;> rfl
  | imp a b iha ihb =>
    intro s w hok
    have ga := iha s w hok.1
    have gb := ihb _ ga.wf hok.2
    have ⟨w2, e2, la, lb, ea, eb⟩ := bin_good s a b w ga gb
    have g := opIte_good _ w2 _ _ 1 la lb (one_lt _ w2)
    refine ⟨g.wf, e2.trans g.ext, g.lt, ?_⟩
    intro σ
    rw [show compile s (Fm.imp a b) = opIte (compile (compile s a).1 b).1 (compile s a).2 (compile (compile s a).1 b).2 1 from rfl,
        g.ev σ, ea σ, eb σ, eval_one]
    simp only [Fm.sem]; cases a.sem σ <;> cases b.sem σ <;> rfl
  | xor a b iha ihb =>
    intro s w hok
    have ga := iha s w hok.1
    have gb := ihb _ ga.wf hok.2
    have ⟨w2, e2, la, lb, ea, eb⟩ := bin_good s a b w ga gb
    have gn := opNot_good _ w2 _ lb
    have la' := Nat.lt_of_lt_of_le la gn.ext.1
    have lb' := Nat.lt_of_lt_of_le lb gn.ext.1
    have g := opIte_good _ gn.wf (compile s a).2 _ (compile (compile s a).1 b).2 la' gn.lt lb'
    refine ⟨g.wf, (e2.trans gn.ext).trans g.ext, g.lt, ?_⟩
    intro σ
    rw [show compile s (Fm.xor a b) = opIte (opNot (compile (compile s a).1 b).1 (compile (compile s a).1 b).2).1 (compile s a).2
          (opNot (compile (compile s a).1 b).1 (compile (compile s a).1 b).2).2 (compile (compile s a).1 b).2 from rfl,
        g.ev σ, eval_ext w2 gn.ext _ σ la, eval_ext w2 gn.ext _ σ lb, gn.ev σ, ea σ, eb σ]
    simp only [Fm.sem]; cases a.sem σ <;> cases b.sem σ <;> rfl
  | iff a b iha ihb =>
    intro s w hok
    have ga := iha s w hok.1
    have gb := ihb _ ga.wf hok.2
    have ⟨w2, e2, la, lb, ea, eb⟩ := bin_good s a b w ga gb
    have gn := opNot_good _ w2 _ lb
    have la' := Nat.lt_of_lt_of_le la gn.ext.1
    have lb' := Nat.lt_of_lt_of_le lb gn.ext.1
    have g := opIte_good _ gn.wf (compile s a).2 (compile (compile s a).1 b).2 _ la' lb' gn.lt
    refine ⟨g.wf, (e2.trans gn.ext).trans g.ext, g.lt, ?_⟩
    intro σ
    rw [show compile s (Fm.iff a b) = opIte (opNot (compile (compile s a).1 b).1 (compile (compile s a).1 b).2).1 (compile s a).2
          (compile (compile s a).1 b).2 (opNot (compile (compile s a).1 b).1 (compile (compile s a).1 b).2).2 from rfl,
        g.ev σ, eval_ext w2 gn.ext _ σ la, eval_ext w2 gn.ext _ σ lb, gn.ev σ, ea σ, eb σ]
    simp only [Fm.sem]; cases a.sem σ <;> cases b.sem σ <;> rfl
#print axioms compile_correct
