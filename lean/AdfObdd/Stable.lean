import AdfObdd.Lfp
/-! prototype 14: the code's stability test (ground the reduct, compare every position)
    is equivalent to the definition of a stable model -/

def falsePart (v : I3) : I3 := v.map (fun x => if x = some false then some false else none)

/-- every condition with the false statements of `v` replaced by ⊥ -/
def redu (D : List BoolFn) (v : I3) : List BoolFn := D.map (fun f σ => f (over σ 0 (falsePart v)))

def TotalI (v : I3) : Prop := ∀ i, i < v.length → ∃ b, v[i]? = some (some b)

def IsLfp (D : List BoolFn) (w : I3) : Prop := Gam D w = w ∧ ∀ w', Gam D w' = w' → Le3 w w'

theorem falsePart_get (v : I3) (i : Nat) :
    (falsePart v)[i]? = (v[i]?).map (fun x => if x = some false then some false else none) := by
  simp [falsePart]

theorem Le3_falsePart (v : I3) : Le3 (falsePart v) v := by
  intro i b h
  rw [falsePart_get] at h
  cases hv : v[i]? with
  | none => simp [hv] at h
  | some x =>
    simp only [hv, Option.map_some, Option.some.injEq] at h
    by_cases hx : x = some false
    · rw [if_pos hx] at h; cases h; rw [hx]
    · rw [if_neg hx] at h; cases h

theorem Gam_length (D : List BoolFn) (w : I3) : (Gam D w).length = D.length := by simp [Gam]

theorem Gam_get (D : List BoolFn) (w : I3) (i : Nat) (f : BoolFn) (h : D[i]? = some f) :
    (Gam D w)[i]? = some (constOf (fun σ => f (over σ 0 w))) := by
  simp [Gam, h]

/-- on a total interpretation the reduct and the original ADF have the same consequences -/
theorem Gam_redu_total (D : List BoolFn) (v : I3) : Gam (redu D v) v = Gam D v := by
  apply List.ext_getElem?
  intro i
  cases hf : D[i]? with
  | none => simp [Gam, redu, hf]
  | some f =>
    have hr : (redu D v)[i]? = some (fun σ => f (over σ 0 (falsePart v))) := by simp [redu, hf]
    rw [Gam_get _ _ _ _ hr, Gam_get _ _ _ _ hf]
    congr 2
    funext σ
    have : Agree (over σ 0 v) (falsePart v) := (agree_over σ v).mono (Le3_falsePart v)
    rw [over_of_agree this]

theorem Le3_antisymm_total {w v : I3} (hl : w.length = v.length) (ht : TotalI v) (h : Le3 v w) : w = v := by
  apply List.ext_getElem?
  intro i
  rcases Nat.lt_or_ge i v.length with hi | hi
  · obtain ⟨b, hb⟩ := ht i hi
    rw [hb]; exact h i b hb
  · rw [List.getElem?_eq_none hi, List.getElem?_eq_none (by omega)]

/-- C03 core: for a total `v`, "the least fixpoint of the reduct equals `v` at every position"
(what the code tests) is equivalent to "`v` is a two-valued model and its true statements are
true in the least fixpoint of the reduct" (the definition). -/
theorem stable_check_iff (D : List BoolFn) (v w : I3) (hlen : v.length = D.length) (ht : TotalI v)
    (hw : IsLfp (redu D v) w) :
    w = v ↔ (Gam D v = v ∧ ∀ (i : Nat), v[i]? = some (some true) → w[i]? = some (some true)) := by
  have hwl : w.length = D.length := by
    have := congrArg List.length hw.1
    rw [Gam_length] at this; simp [redu] at this; omega
  constructor
  · intro h
    subst h
    refine ⟨?_, fun i hi => hi⟩
    rw [← Gam_redu_total]; exact hw.1
  · intro ⟨hm, htrue⟩
    apply Le3_antisymm_total (by omega) ht
    intro i b hb
    cases b with
    | true => exact htrue i hb
    | false =>
      -- position i is false in v; its reduct condition is constantly false under w
      have hi : i < D.length := by
        rw [← hlen]
        rcases Nat.lt_or_ge i v.length with h | h
        · exact h
        · simp [List.getElem?_eq_none h] at hb
      have hf : D[i]? = some D[i] := List.getElem?_eq_getElem hi
      have hr : (redu D v)[i]? = some (fun σ => D[i] (over σ 0 (falsePart v))) := by simp [redu, hf]
      rw [← hw.1, Gam_get _ _ _ _ hr]
      congr 1
      rw [constOf_some]
      intro σ
      -- τ agrees with v, and D[i] is constantly false on assignments agreeing with v
      have hconst : ∀ τ, Agree τ v → D[i] τ = false := by
        intro τ ha
        have h1 : (Gam D v)[i]? = some (some false) := by rw [hm]; exact hb
        rw [Gam_get _ _ _ _ hf] at h1
        have h2 : constOf (fun σ => D[i] (over σ 0 v)) = some false := by simpa using h1
        have := (constOf_some.mp h2) τ
        rwa [over_of_agree ha] at this
      apply hconst
      intro j c hj
      rw [over_apply]
      simp only [Nat.zero_le, if_true, Nat.sub_zero]
      cases c with
      | false =>
        have : (falsePart v)[j]? = some (some false) := by rw [falsePart_get, hj]; simp
        rw [this]
      | true =>
        have hfp : (falsePart v)[j]? = some none := by rw [falsePart_get, hj]; simp
        rw [hfp]
        simp only
        -- not overridden by the false part; decided true by w
        have hwj := htrue j hj
        have := agree_over σ w j true hwj
        exact this
#print axioms stable_check_iff
