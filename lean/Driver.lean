import AdfObdd.Drv.Bdd
import AdfObdd.Drv.Adf
import AdfObdd.Drv.Cli
import AdfObdd.Drv.Parser
import AdfObdd.Drv.Ng
import AdfObdd.Drv.Iter
import AdfObdd.Drv.Stream
import AdfObdd.Drv.Persist
import AdfObdd.Drv.Http
/-! Model driver: one request per line in, the request and the model's answers out.
    `= …` is the algorithmic model's answer, `~ …` the executable specification's. Lines
    starting with `=`, `~` (the implementation's answers) and `#` are skipped. -/
open Drv

structure DS where
  bdd : BddSt := {}
  adf : AdfSt := {}
  ng : NgStoreSt := {}
  stream : StreamSt := {}
  persist : PersistSt := {}
  web : Option HttpSt := none
  feats : List String := []

def step (d : DS) (l : String) : List String × DS :=
  let ws := l.splitOn " "
  match ws with
  | "case" :: _ =>
    match httpStep {} l ws with
    | some (out, w) => (out, { d with web := some w })
    | none => ([l], { d with web := none })
  | "features" :: fs =>
    let exc := fs.contains "adhoccounting" && !fs.contains "adhoccountmodels"
    ([l], { d with feats := fs, bdd := { d.bdd with exception := exc } })
  | _ =>
  match d.web.bind (fun w => httpStep w l ws) with
  | some (out, w) => (out, { d with web := some w })
  | none =>
  -- the diagram store is detached from `d` while the request runs (in-place updates when compiled)
  let b0 := d.bdd
  let d := { d with bdd := {} }
  match bddStepL b0 l ws with
  | (some out, b) => (out, { d with bdd := b })
  | (none, b0) =>
  let d := { d with bdd := b0 }
  -- `clirun` with the text of the file: the text-level model of the CLI (Drv/Cli.lean)
  match cliTextStep d.adf l ws with
  | some out => (out, d)
  | none =>
  match adfStep d.adf l ws with
  | some (out, a) => (out, { d with adf := a })
  | none =>
  match parserStep l ws with
  | some out => (out, d)
  | none =>
  match ngStep d.ng l ws with
  | some (out, g) => (out, { d with ng := g })
  | none =>
  match iterStep l ws with
  | some out => (out, d)
  | none =>
  match streamStep d.stream l ws with
  | some (out, s) => (out, { d with stream := s })
  | none =>
  match persistStep d.persist l ws with
  | some (out, p) => (out, { d with persist := p })
  | none => ([l, "= unknown-request"], d)

partial def loop (h : IO.FS.Stream) (out : IO.FS.Stream) (d : DS) : IO Unit := do
  let line ← h.getLine
  if line.isEmpty then return ()
  let l := line.trimAscii.toString
  if l.isEmpty || l.startsWith "=" || l.startsWith "~" || l.startsWith "#" then
    loop h out d
  else
    let (ls, d') := step d l
    for x in ls do out.putStrLn x
    loop h out d'

def main : IO Unit := do
  let out ← IO.getStdout
  loop (← IO.getStdin) out {}
