#!/bin/sh
# MANIFEST.setup_cmd: builds the Lean development, the model driver and the Rust harness, offline
cd "$(dirname "$0")" && exec ./check setup
